#!/bin/bash
# usage: tools/allharmless.sh [id-regex]  -- applies every stored BEHAVIOUR-PRESERVING change (harmless/<id>/patch.diff: refactorings written by independent
# sub-agents given only the property text, plus mechanical ones) to a scratch worktree of /repo's HEAD and runs the property's quick check (ALL-* : every check).
# A VIOLATION line or exit 1 is a FALSE ALARM of the machinery.  Lost proofs (exit 0, level exploration) are reported, not failures.
cd "$(dirname "$0")/.."
pat=${1:-.}; rc=0
for d in harmless/*/; do
  id=$(basename $d); echo "$id" | grep -Eq "$pat" || continue
  WT=/tmp/harmwt_$$; git -C /repo worktree add -q --detach $WT HEAD || exit 9
  patch=$PWD/$d/patch.diff; [ -f $PWD/$d/patch.rebased.diff ] && patch=$PWD/$d/patch.rebased.diff     # rebased: a later fix: commit rewrote a touched site
  if ! git -C $WT apply $patch 2>/dev/null && ! git -C $WT apply --3way $patch 2>/dev/null; then echo "NOAPPLY  $id"; git -C /repo worktree remove --force $WT; continue; fi
  props=${id%%-*}; [ "$props" = ALL ] && props="C01 C08 C14 C16 C18"
  for p in $props; do
    out=$(VERIF_REPO=$WT ./check $p 2>&1); ec=$?
    nv=$(echo "$out" | grep -c "^VIOLATION"); lvl=$(echo "$out" | grep '^\[C' | grep -o 'lost=[0-9]* .*level=[a-z]*' | sed 's/twin.*level/level/')
    if [ $ec -eq 0 ] && [ $nv -eq 0 ]; then echo "QUIET    $id $p ($lvl)"; else echo "FALSE-ALARM $id $p exit=$ec violations=$nv"; rc=1; fi
  done
  git -C /repo worktree remove --force $WT; git -C /repo worktree prune
done
exit $rc
