#!/usr/bin/env python3
"""regenerates MANIFEST.json from the table below (claimed checks) + properties.jsonl (not_applicable for the rest)"""
import json, os
HERE = os.path.dirname(os.path.dirname(os.path.abspath(__file__)))
props = [json.loads(l) for l in open(os.path.join(HERE, 'properties.jsonl'))]
TECH = "contract-based deductive verification: sidecar contracts on the real cuqi functions, symbolic execution of the real function objects (all paths), obligations discharged by z3/cvc5 (+ rational-function normaliser); numeric twin as labelled bounded stand-in and replay"
NOTE_COMMON = ("Trusted base: CPython as interpreter of the non-symbolic part; pvc value classes, shims (dependency contracts for numpy/scipy, listed per run in evidence.trusted_base), "
               "term differentiator and rational-function normaliser; z3 5.1 / cvc5 1.0.3; spec functions in /verif/contracts. Floating point is treated as real arithmetic; allclose-style tolerances as exact equality. ")
CLAIMS = {
 'C02': dict(sec='5/C02', text="Kernel contracts of MH, pCN, MALA (abstract vectors: every dimension, every target, every scale/noise/uniform draw) and CWMH (dimension 1..3) in both interfaces: accept iff log u <= min(0, rho) with the spec MH log-ratio for the proposal the code formed, state/caches on accept and reject, NaN/-inf proposals never accepted; pCN prior-reversibility with real Normal/Gaussian priors of symbolic mean/std; lemma L-MH (detailed balance). All obligations discharged by the solver on every run.",
             note="Invariance follows from detailed balance (cited). User proposals flagged symmetric are assumed even. Normal/Uniform .sample() callee contracts are assumed here and discharged under C05. CWMH is bounded in the dimension (P-box)."),
 'C03': dict(sec='5/C03', text="gradient(x) == d logd/dx for SmoothedLaplace, Cauchy, InverseGamma, Beta, Uniform, Lognormal (scalar and vector parameters, n<=3), every Gaussian parameterisation x input form (n=2,3), GMRF/CMRF (C20 jobs), likelihoods through matrix / function-pair / Jacobian / direction-Jacobian models and the posterior sum rule, by differentiating the term produced by the SAME object's logd; refusal (every path raises) for families without analytic gradient and for non-identity geometries; finite-difference option; NaN outside the support.",
             note="The symbolic differentiator is trusted and cross-checked numerically (central differences) on every run. A refusal (exception) is an admissible outcome per the property. PDE-based models and geometries with their own gradient are covered under C12."),
 'C04': dict(sec='5/C04', text="logpdf of Normal, Laplace, SmoothedLaplace, Cauchy, Gamma, InverseGamma, Beta, Uniform, Lognormal equals the documented density for scalar-broadcast, vector and list parameters (all real parameter values and evaluation points at dimensions 1..3), -inf strictly outside the support, cdf = product of coordinate cdfs, logd-logpdf free of x; Gaussian in all four parameterisations x scalar/vector/diagonal/sparse-diagonal/dense inputs on both sides of the sparse switch at n=2(3) against the documented N(mean, Sigma).",
             note="Normalisation of the textbook densities is cited, not proved. scipy.stats laws are replaced by their textbook formulas at the arguments passed. Dense input above the sparse switch (scipy eigh path) and Lognormal at n>1 are bounded stand-ins (numeric twin), labelled B. MRF priors are covered under C20."),
 'C16': dict(sec='5/C16', text="CGLS/PCGLS: loop invariants r=b-Ax, s=P^-T(A^T r - shift x), gamma=|s|^2 on the mechanically cut loop of the real solve() over abstract operators (every dimension, every iteration count), stopping flag = documented rule, exit => relative residual bound of the shifted preconditioned normal equations, matrix and function operator forms, x0 not mutated; FISTA exit contract (returned point is the prox-gradient image of the previous iterate within abstol; momentum update); ProjectBox/ProjectNonnegative/ProximalL1 against the variational inequality / KKT system per coordinate.",
             note="Convergence of CG/FISTA in finitely many iterations is numerical-analysis theory (not decided). LM and the SciPy wrappers are not yet under contract."),
 'C20': dict(sec='5/C20', text="For every N in 2..6 (quick) / 2..12 (thorough) in 1-D (also with grid spacing) and NxN up to 3 (5) in 2-D, every boundary condition and order: D @ x equals the ghost-node stencil for symbolic x; 2-D operator equals the Kronecker stacking; P == D^T D entry-wise (exact rationals), x^T P x == |D x|^2 (hence PSD), exact rational rank and the null space implied by the BC; GMRF rank / logdet / sqrtprec against its precision; GMRF/LMRF/CMRF logpdf equals the documented density of the finite differences of the shifted variable; GMRF/CMRF gradients.",
             note="The N range is part of the property. GMRF logdet is compared with the pseudo-determinant numerically (closed floating-point computation). Constant sparse matrices built by the real code are converted entry-exactly to rationals where they meet symbolic operands."),
}
checks = []
for pid, c in sorted(CLAIMS.items()):
    checks.append(dict(property_id=pid, quick_cmd=f"./check {pid} --tier quick", thorough_cmd=f"./check {pid} --tier thorough",
                       evidence_file=f"/verif/evidence/{pid}.json", replay_cmd_template=f"./check {pid} --replay {{path}}", engine="pvc",
                       level_claimed=dict(category="proof", text=c['text'], design_ref=c['sec']),
                       level_note=NOTE_COMMON + c['note'], technique=TECH))
na = [dict(property_id=p['id'], reason="check not built yet (build in progress; the planned contracts are in DESIGN.md section 5)") for p in props if p['id'] not in CLAIMS]
m = dict(version=1, setup_cmd="./bootstrap.sh",
         hooks=dict(guard="CUQIPY_VERIF", enable="no source hooks are needed: contracts are sidecars keyed by qualified name; dependencies are replaced by contracts by rebinding module globals at run time (VERIF_REPO selects the tree, default /repo)",
                    baseline_off_cmd="cd /repo && OPENBLAS_NUM_THREADS=1 OMP_NUM_THREADS=1 /venv/bin/python -m pytest -ra -q -p no:cacheprovider --timeout=900 --continue-on-collection-errors",
                    source_commits=[], add_only=True),
         engines=[dict(name="pvc", path="/verif/pvc", serves_properties=sorted(CLAIMS), kind_free_text="symbolic-execution contract verifier whose interpreter is CPython: real cuqi function objects run on symbolic values (SReal/AVec), all paths enumerated, loops cut mechanically for invariants, obligations discharged by z3 (cvc5, rational-function normaliser as further back ends)")],
         checks=checks,
         notes="See DESIGN.md. Exit codes: 0 held / 1 VIOLATION / 3 machinery failure. Known findings in known_findings.json; fix: commits in /repo are listed there as 'fixed'.",
         not_applicable=na)
json.dump(m, open(os.path.join(HERE, 'MANIFEST.json'), 'w'), indent=1)
print("claimed:", sorted(CLAIMS), "not yet:", len(na))
