#!/bin/bash
# usage: confirm_seed.sh Cxx   -- confirms an agent's seeded change in its scratch worktree /tmp/mut/Cxx (outputs in /tmp/mut/out/Cxx)
id=$1; MUT=${MUT:-/tmp/mut}; WT=$MUT/$id; OUT=$MUT/out/$id
export PYTHONDONTWRITEBYTECODE=1 PYTHONPATH=$WT OPENBLAS_NUM_THREADS=1 OMP_NUM_THREADS=1 MKL_NUM_THREADS=1
cd $WT || exit 9
git checkout -q -- . ; git apply $OUT/patch.diff || { echo "RESULT $id patch-does-not-apply"; exit 1; }
timeout 1800 /venv/bin/python -W ignore $OUT/demo.py > $MUT/confirm_$id.demo_changed.log 2>&1; a=$?
git checkout -q -- .
timeout 1800 /venv/bin/python -W ignore $OUT/demo.py > $MUT/confirm_$id.demo_orig.log 2>&1; b=$?
git apply $OUT/patch.diff
timeout 3000 /venv/bin/python -m pytest -q -p no:cacheprovider --timeout=900 -x > $MUT/confirm_$id.tests.log 2>&1; t=$?
echo "RESULT $id demo_with_change_exit=$a demo_original_exit=$b tests_exit=$t $(grep -E 'passed|failed' $MUT/confirm_$id.tests.log | tail -1)"
