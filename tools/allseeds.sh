#!/bin/bash
# usage: tools/allseeds.sh [seed-id-regex]   (JOBS=n parallel workers, default 4)
# Applies every stored seeded change (seeded/<id>/patch.diff, or patch.rebased.diff where a later fix: commit rewrote the site) to its own scratch worktree
# of /repo's HEAD (under /tmp, removed afterwards; /repo itself is never touched), runs the property's quick check against it (VERIF_REPO) and prints one
# line per seed: DETECTED (exit 1 with a VIOLATION line) / MISSED (exit 0) / NOAPPLY / OTHER / OBSOLETE.  Exit 0 iff every applicable seed is detected.
cd "$(dirname "$0")/.."
pat=${1:-.}; JOBS=${JOBS:-4}
one() {
  d=$1; id=$(basename $d)
  prop=$(python3 -c "import json;print(json.load(open('$d/meta.json'))['property'])")
  if python3 -c "import json,sys; sys.exit(0 if json.load(open('$d/meta.json')).get('status','').startswith('obsolete') else 1)"; then echo "OBSOLETE $id"; return; fi
  patch=$PWD/$d/patch.diff; [ -f $d/patch.rebased.diff ] && patch=$PWD/$d/patch.rebased.diff
  WT=/tmp/allseeds_wt_$$_$id; git -C /repo worktree add -q --detach $WT HEAD 2>/dev/null || { echo "OTHER(worktree) $id"; return; }
  if ! git -C $WT apply $patch 2>/dev/null && ! git -C $WT apply --3way $patch >/dev/null 2>&1; then echo "NOAPPLY  $id"; git -C /repo worktree remove --force $WT; return; fi
  out=$(VERIF_REPO=$WT ./check $prop 2>&1); ec=$?
  git -C /repo worktree remove --force $WT
  nv=$(echo "$out" | grep -c "^VIOLATION")
  if [ $ec -eq 1 ] && [ $nv -gt 0 ]; then echo "DETECTED $id ($nv violation lines)"
  elif [ $ec -eq 0 ]; then echo "MISSED   $id"
  else echo "OTHER($ec) $id"; fi
}
export -f one
ls -d seeded/*/ | sed 's#/$##' | grep -E "$pat" | xargs -P $JOBS -I{} bash -c 'one {}' | tee /tmp/allseeds_$$.out
git -C /repo worktree prune
bad=$(grep -cvE "^DETECTED|^OBSOLETE" /tmp/allseeds_$$.out); rm -f /tmp/allseeds_$$.out
[ "$bad" -eq 0 ]
