#!/bin/bash
# usage: tools/allseeds.sh [seed-id-regex]   -- applies every stored seeded change to /repo in turn, runs the property's quick check, reverts.
# Prints one line per seed: DETECTED (exit 1 with a VIOLATION line) / MISSED (exit 0) / NOAPPLY / OTHER.  Exit 0 iff every seed is detected.
cd "$(dirname "$0")/.."
pat=${1:-.}
R=${SEED_REPO:-/repo}; export VERIF_REPO=$R
rc=0
if ! git -C $R diff --quiet; then echo "repo dirty"; exit 9; fi
for d in seeded/*/; do
  id=$(basename $d); echo "$id" | grep -Eq "$pat" || continue
  prop=$(python3 -c "import json;print(json.load(open('$d/meta.json'))['property'])")
  if python3 -c "import json,sys; sys.exit(0 if json.load(open('$d/meta.json')).get('status','').startswith('obsolete') else 1)"; then echo "OBSOLETE $id"; continue; fi
  patch=$d/patch.diff; [ -f $d/patch.rebased.diff ] && patch=$d/patch.rebased.diff
  if ! git -C $R apply --check $PWD/$patch 2>/dev/null; then
     if git -C $R apply --3way $PWD/$patch >/dev/null 2>&1; then :; else echo "NOAPPLY  $id"; git -C $R reset -q --hard HEAD; rc=1; continue; fi
  else git -C $R apply $PWD/$patch; fi
  out=$(./check $prop 2>&1); ec=$?
  git -C $R reset -q --hard HEAD
  nv=$(echo "$out" | grep -c "^VIOLATION")
  if [ $ec -eq 1 ] && [ $nv -gt 0 ]; then echo "DETECTED $id ($nv violation lines)"; 
  elif [ $ec -eq 0 ]; then echo "MISSED   $id"; rc=1
  else echo "OTHER($ec) $id"; rc=1; fi
done
exit $rc
