#!/bin/bash
# runs every claimed check (quick tier by default) and validates the evidence files
cd "$(dirname "$0")/.."
TIER=${1:-quick}
rc=0
for id in $(python3 -c "import json; print(' '.join(c['property_id'] for c in json.load(open('MANIFEST.json'))['checks']))"); do
  ./check $id --tier $TIER 2>&1 | grep -E "^\[C|^VIOLATION|^ENGINE|^LOST" ; [ ${PIPESTATUS[0]} -ne 0 ] && rc=1
done
.venv/bin/python - <<'PY'
import json, jsonschema, glob
S = json.load(open('/root/.vp/EVIDENCE.schema.json')); M = json.load(open('MANIFEST.json'))
jsonschema.validate(M, json.load(open('/root/.vp/MANIFEST.schema.json')))
for c in M['checks']:
    e = json.load(open(c['evidence_file'])); jsonschema.validate(e, S)
    ok = e['level'] == c['level_claimed']['category']
    print(c['property_id'], 'evidence ok' if ok else f"LEVEL MISMATCH {e['level']}", e['coverage'].get('obligations'), e['coverage'].get('discharged'))
PY
exit $rc
