#!/bin/bash
# usage: tools/seedtest.sh <Cxx> <patch.diff> [extra check args]
# applies a seeded change to a scratch worktree of /repo's HEAD (outside /repo and /verif, removed afterwards), runs the check against it
# (VERIF_REPO), prints the verdict lines.  /repo itself is never touched.
id=$1; patch=$(readlink -f "$2"); shift 2
WT=${SEEDWT:-/tmp/seedwt_$$}
git -C /repo worktree add -q --detach "$WT" HEAD || exit 9
cd "$WT"
git apply "$patch" 2>/dev/null || git apply --3way "$patch" 2>/dev/null || { echo "PATCH DOES NOT APPLY"; cd /; git -C /repo worktree remove --force "$WT"; exit 8; }
cd /verif; VERIF_REPO="$WT" ./check $id "$@" 2>&1 | grep -E "^\[C|^VIOLATION|^ENGINE|^LOST|^UNDECIDED|^  obligation" | cut -c1-260 | head -${HEAD:-14}
rc=${PIPESTATUS[0]}
git -C /repo worktree remove --force "$WT"; git -C /repo worktree prune
exit $rc
