#!/bin/bash
# usage: tools/seedtest.sh <Cxx> <patch.diff> [extra check args]   -- applies a seeded change to /repo, runs the check, reverts
id=$1; patch=$2; shift 2
cd /repo || exit 9
if ! git diff --quiet; then echo "repo dirty"; exit 9; fi
git apply "$patch" 2>/dev/null || git apply --3way "$patch" 2>/dev/null || { echo "PATCH DOES NOT APPLY"; git reset -q --hard HEAD; exit 8; }
cd /verif; ./check $id "$@" 2>&1 | grep -E "^\[C|^VIOLATION|^ENGINE|^LOST|^UNDECIDED|^  obligation" | cut -c1-260 | head -${HEAD:-14}
rc=${PIPESTATUS[0]}
git -C /repo reset -q --hard HEAD; git -C /repo status --short | head -3
exit $rc
