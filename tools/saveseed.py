#!/usr/bin/env python3
"""usage: saveseed.py <seed-id> <property> <outdir> <needs> <detected_by> [confirm-line]"""
import sys, os, shutil, json
sid, prop, out, needs, detected = sys.argv[1:6]
confirm = sys.argv[6] if len(sys.argv) > 6 else ''
d = os.path.join('/verif/seeded', sid); os.makedirs(d, exist_ok=True)
for f in ('patch.diff', 'demo.py', 'notes.md'):
    if os.path.exists(os.path.join(out, f)): shutil.copy(os.path.join(out, f), os.path.join(d, f))
json.dump(dict(id=sid, property=prop, breaks=prop, needs_to_manifest=needs, detected_by=detected,
               confirmed=confirm, origin="independent sub-agent given only the property text and a scratch worktree of the pinned commit",
               how_to_run=f"git -C /repo apply /verif/seeded/{sid}/patch.diff && ./check {prop}; git -C /repo checkout -- ."),
          open(os.path.join(d, 'meta.json'), 'w'), indent=1)
print('saved', d)
