"""behavioural snapshots of object graphs for frame conditions: all attributes reachable from an object
(recursively through cuqi objects, lists, tuples, dicts), arrays by content and identity, callables by identity,
minus declared lazy caches."""
import types
import numpy as np
import z3
from .core import SReal, SBool

LAZY_CACHES = {'_mutable_vars', '_fun_shape', '_funvec_shape', '_ids', '_variables', '_non_default_args_cache',
               '_coefs', '_coefs_inverse'}      # (KL scalings: recomputed whenever the number of modes differs)


def _leaf(v):
    if isinstance(v, SReal): return ('S', v.t.get_id(), v.t)        # keep the term alive so that the id stays meaningful
    if isinstance(v, SBool): return ('B', v.t.get_id(), v.t)
    if isinstance(v, (bool, int, float, complex, str, bytes, type(None), np.generic)): return ('v', repr(v))
    return None


BY_CODE = [False]      # functions described by code object + closure contents instead of identity (see snapshot_by_code)


def snapshot_by_code(obj, exclude=(), owner=None):
    """snapshot in which a function is its code object plus the contents of its closure cells and defaults, a bound method its
    function plus receiver: two closures created by running the same `def`/`lambda` over equal values compare equal"""
    BY_CODE[0] = True         # owner: an object whose occurrences (e.g. `self` captured by a closure) are described as a back reference only
    try: return snapshot(obj, exclude, {id(owner): 0} if owner is not None else None)
    finally: BY_CODE[0] = False


def snapshot(obj, exclude=(), _seen=None, depth=0):
    """nested, comparable description of the behavioural state reachable from obj"""
    if _seen is None: _seen = {}
    lf = _leaf(obj)
    if lf is not None: return lf
    oid = id(obj)
    if oid in _seen: return ('ref', _seen[oid])
    _seen[oid] = len(_seen)
    if isinstance(obj, np.ndarray):
        flat = obj.reshape(-1)
        return ('array', oid, obj.shape, str(obj.dtype) if obj.dtype != object else 'O',
                tuple(_leaf(e) or ('obj', id(e)) for e in flat) if flat.size <= 4096 else ('big', flat.size))
    if isinstance(obj, (list, tuple)):
        return (type(obj).__name__, oid if isinstance(obj, list) else 0, tuple(snapshot(e, exclude, _seen, depth + 1) for e in obj))
    if isinstance(obj, dict):
        return ('dict', oid, tuple((repr(k), snapshot(v, exclude, _seen, depth + 1)) for k, v in obj.items()))
    if BY_CODE[0] and isinstance(obj, types.FunctionType):
        cells = tuple(snapshot(cl.cell_contents, exclude, _seen, depth + 1) if _filled(cl) else ('empty',) for cl in (obj.__closure__ or ()))
        return ('function', id(obj.__code__), cells, snapshot(obj.__defaults__, exclude, _seen, depth + 1))
    if BY_CODE[0] and isinstance(obj, types.MethodType):
        return ('method', id(obj.__func__.__code__) if hasattr(obj.__func__, '__code__') else id(obj.__func__), snapshot(obj.__self__, exclude, _seen, depth + 1))
    if isinstance(obj, (types.FunctionType, types.MethodType, types.BuiltinFunctionType, type)) or callable(obj) and not hasattr(obj, '__dict__'):
        return ('callable', oid)
    mod = type(obj).__module__ or ''
    if hasattr(obj, 'toarray') and 'scipy' in mod:
        a = obj.toarray(); return ('sparse', oid, a.shape, a.tobytes() if a.size <= 65536 else a.size)
    if mod == 'pvc.ctx': return ('opaque', type(obj).__name__, oid)          # the verification context itself (captured by contract stubs)
    if hasattr(obj, '__dict__') and (mod.startswith('cuqi') or mod.startswith('contracts') or mod.startswith('pvc') or mod == 'functools'):
        items = []
        for k, v in vars(obj).items():
            if k in LAZY_CACHES or k in exclude: continue
            items.append((k, snapshot(v, exclude, _seen, depth + 1)))
        return ('obj', type(obj).__name__, oid, tuple(items))
    if type(obj).__name__ == 'partial':
        return ('partial', oid, snapshot(obj.func, exclude, _seen), snapshot(obj.args, exclude, _seen), snapshot(obj.keywords, exclude, _seen))
    return ('opaque', type(obj).__name__, oid)


def _filled(cell):
    try: cell.cell_contents; return True
    except ValueError: return False


def structural(s):
    """forget object identities of containers / arrays / cuqi objects and back-reference numbers: compares the *values* held by two
    different objects (callables and opaque objects keep their identity unless snapshot_by_code was used)"""
    if isinstance(s, tuple):
        if s and s[0] in ('array', 'sparse', 'list', 'dict'): return (s[0], 0) + tuple(structural(e) for e in s[2:])
        if s and s[0] == 'obj' and len(s) == 4: return ('obj', s[1], 0, structural(s[3]))
        if s and s[0] == 'ref': return ('ref',)
        if len(s) == 3 and s[0] in ('S', 'B'): return (s[0], s[1])
        return tuple(structural(e) for e in s)
    return s


def _strip(s):
    """drop the live term objects (third component of symbolic leaves) for comparison/printing"""
    if isinstance(s, tuple):
        if len(s) == 3 and s[0] in ('S', 'B'): return (s[0], s[1])
        return tuple(_strip(e) for e in s)
    return s


def same(a, b): return _strip(a) == _strip(b)


def diff(a, b, path='', out=None, limit=6):
    """human-readable list of the first differences between two snapshots"""
    if out is None: out = []
    if len(out) >= limit: return out
    a2, b2 = _strip(a), _strip(b)
    if a2 == b2: return out
    if isinstance(a, tuple) and isinstance(b, tuple) and a and b and a[0] == b[0] == 'obj' and a[1] == b[1]:
        da, db = dict(a[3]), dict(b[3])
        if a[2] != b[2]: out.append(f"{path}: different object identity")
        for k in list(da) + [k for k in db if k not in da]:
            if k not in db: out.append(f"{path}.{k}: attribute removed")
            elif k not in da: out.append(f"{path}.{k}: attribute added")
            else: diff(da[k], db[k], f"{path}.{k}", out, limit)
        return out
    out.append(f"{path}: {str(a2)[:80]} -> {str(b2)[:80]}")
    return out
