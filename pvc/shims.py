"""Dependency contracts ("shims").  For the duration of a symbolic job the *module globals* np, LA, sps ...
of the cuqi modules under verification are rebound to these objects; every function not listed here is
forwarded to the real library untouched.  Nothing in the libraries or in the repository files is modified.
Every shim that is actually hit is recorded in HIT (-> evidence trusted_base)."""
import sys, types, math
import numpy as _np
import scipy as _scipy
import scipy.sparse as _sparse
import z3
from . import core
from .core import SReal, SBool, T, is_sym, ST, fresh, R
from .avec import AVec, norm as _anorm

HIT = set()
PRESET = {'uniform': [], 'normal': []}   # draws named by the contract, consumed first (standard uniform / standard normal)
RNG_LOG = []       # record of random draws on the current path: (generator identity, method, law tag, symbols)


def _hit(n): HIT.add(n)


def _issym(*args):
    for a in args:
        if isinstance(a, (SReal, SBool, AVec)): return True
        if isinstance(a, _np.ndarray) and a.dtype == object and is_sym(a): return True
        if isinstance(a, (list, tuple)) and any(_issym(x) for x in a): return True
        if isinstance(a, STag): return True
    return False


def _defloat(a):
    """object array holding only plain numbers (allocated by the shim) -> float array, for real numpy functions"""
    if isinstance(a, _np.ndarray) and a.dtype == object and not is_sym(a):
        try: return a.astype(float)
        except Exception: return a
    return a


def _obj(a):
    if isinstance(a, STag): return a.a
    if isinstance(a, _np.ndarray): return a
    return _np.asarray(a, dtype=object) if _issym(a) else _np.asarray(a)


class _ADim:
    """the unknown dimension of the abstract vector space; in arithmetic it is one fixed symbolic real (`adim`, >= 1 is not assumed: the
    contracts that use it only need that every occurrence is the same number)"""
    def __repr__(self): return 'ADIM'
    def _r(self): return core.SReal(z3.Real('adim'))
    def __mul__(self, o): return self._r() * o
    def __rmul__(self, o): return o * self._r()
    def __add__(self, o): return self._r() + o
    def __radd__(self, o): return o + self._r()
    def __sub__(self, o): return self._r() - o
    def __rsub__(self, o): return o - self._r()
    def __truediv__(self, o): return self._r() / o
    def __neg__(self): return -self._r()
ADIM = _ADim()


class STag:
    """dense object matrix carrying a 'sparse' tag: sparse algebra = dense algebra on the same entries"""
    __array_priority__ = 3000
    __array_ufunc__ = None
    def __init__(self, a, fmt='csr'): self.a = _np.asarray(a, dtype=object); self.format = fmt
    @property
    def shape(self): return self.a.shape
    @property
    def T(self): return STag(self.a.T, self.format)
    ndim = 2
    def transpose(self): return self.T
    def toarray(self): return self.a
    def todense(self): return self.a
    def tocsr(self): return STag(self.a, 'csr')
    def tocsc(self): return STag(self.a, 'csc')
    def todia(self): return STag(self.a, 'dia')
    def diagonal(self): return _np.diagonal(self.a).copy()
    def copy(self): return STag(self.a.copy(), self.format)
    def getformat(self): return self.format
    def count_nonzero(self): return int(sum(1 for e in self.a.reshape(-1) if not _iszero(e)))
    @property
    def nnz(self): return self.count_nonzero()
    def _w(self, r): return STag(r, self.format) if isinstance(r, _np.ndarray) and r.ndim == 2 else r
    def __matmul__(self, o):
        if not isinstance(o, (STag, _np.ndarray, list, tuple, AVec)) and hasattr(o, '__rmatmul__') and not _sparse.issparse(o):
            return NotImplemented            # e.g. a cuqi Operator: let it unwrap its matrix
        if _sparse.issparse(o): o = STag(_to_obj_matrix(o))
        return self._w(self.a @ _obj(o)) if isinstance(o, STag) else self.a @ _obj(o)
    def __rmatmul__(self, o): return _obj(o) @ self.a
    def dot(self, o): return self.__matmul__(o)
    def __mul__(self, o):
        if isinstance(o, (SReal, int, float, _np.number)): return STag(self.a * o, self.format)
        return self.__matmul__(o)       # scipy.sparse matrix semantics: * is matmul
    def __rmul__(self, o):
        if isinstance(o, (SReal, int, float, _np.number)): return STag(o * self.a, self.format)
        return _obj(o) @ self.a
    def __truediv__(self, o): return STag(self.a / o, self.format)
    def __add__(self, o): return STag(self.a + _obj(o), self.format)
    __radd__ = __add__
    def __sub__(self, o): return STag(self.a - _obj(o), self.format)
    def __neg__(self): return STag(-self.a, self.format)
    def power(self, p): return STag(self.a ** p, self.format)
    def sqrt(self):
        out = _np.empty(self.a.shape, dtype=object)
        for i in _np.ndindex(self.a.shape):
            e = self.a[i]; out[i] = e.sqrt() if isinstance(e, SReal) else math.sqrt(e)
        return STag(out, self.format)
    def __getitem__(self, k): return self.a[k]
    def multiply(self, o): return STag(self.a * _obj(o), self.format)
    def sum(self, *a, **k): return self.a.sum(*a, **k)


def _iszero(e):
    if isinstance(e, SReal):
        s = z3.simplify(e.t)
        return z3.is_rational_value(s) and s.as_fraction() == 0
    try: return e == 0
    except Exception: return False


def _to_obj_matrix(M):
    """exact rational object copy of a concrete (dense or scipy-sparse) matrix"""
    if _sparse.issparse(M): M = M.toarray()
    return _np.asarray(M, dtype=object)


class Forward:
    """module-like object: forwards everything to the real module except overrides"""
    def __init__(self, real, name):
        object.__setattr__(self, '_real', real); object.__setattr__(self, '_name', name)
    def __getattr__(self, k):
        return getattr(object.__getattribute__(self, '_real'), k)


# ---------------------------------------------------------------------------------------------
# numpy
# ---------------------------------------------------------------------------------------------
class NPRandom(Forward):
    """np.random: each draw is a fresh symbol with a law tag; the generator identity is recorded"""
    def __init__(self, real, ident='global'):
        super().__init__(real, 'np.random'); object.__setattr__(self, 'ident', ident)
    def _draw(self, method, law, shape, facts=lambda s: []):
        _hit('np.random.' + method)
        fam = 'uniform' if law[0] == 'uniform' else ('normal' if law[0] == 'normal' else None)
        if fam and PRESET[fam]:
            out = PRESET[fam].pop(0)
            RNG_LOG.append((object.__getattribute__(self, 'ident'), method, law, out))
            if fam == 'uniform' and (law[1], law[2]) != (0, 1): out = law[1] + (law[2] - law[1]) * out
            return out
        if shape is None or shape == ():
            s = fresh(f"rnd_{method}"); ST.base.extend(facts(s)); out = SReal(s); syms = [s]
        else:
            if isinstance(shape, (int, _np.integer)): shape = (int(shape),)
            shape = tuple(int(k) for k in shape)
            syms = [fresh(f"rnd_{method}") for _ in range(int(_np.prod(shape)))]
            for s in syms: ST.base.extend(facts(s))
            out = _np.array([SReal(s) for s in syms], dtype=object).reshape(shape)
        RNG_LOG.append((object.__getattribute__(self, 'ident'), method, law, syms))
        return out
    def rand(self, *shape): return self._draw('rand', ('uniform', 0, 1), shape or None, lambda s: [s >= 0, s < 1])
    def random(self, size=None): return self._draw('random', ('uniform', 0, 1), size, lambda s: [s >= 0, s < 1])
    def uniform(self, low=0.0, high=1.0, size=None):
        if PRESET['uniform'] or _np.ndim(low) > 0 or _np.ndim(high) > 0: return self._draw('uniform', ('uniform', low, high), size)
        return self._draw('uniform', ('uniform', low, high), size, lambda s: [s >= T(low), s < T(high)])
    def randn(self, *shape): return self._draw('randn', ('normal', 0, 1), shape or None)
    def standard_normal(self, size=None):
        if size is ADIM and not PRESET['normal']: raise core.Concretised("standard normal draw of abstract dimension was not named by the contract")
        return self._draw('standard_normal', ('normal', 0, 1), size)
    def normal(self, loc=0.0, scale=1.0, size=None):
        if size is None and not _np.isscalar(loc) and not isinstance(loc, SReal): size = _np.shape(loc)
        if size is None and not _np.isscalar(scale) and not isinstance(scale, SReal): size = _np.shape(scale)
        z = self._draw('normal', ('normal', 0, 1), size)
        RNG_LOG.append((object.__getattribute__(self, 'ident'), 'normal-params', (loc, scale), None))
        return loc + scale * z
    def gamma(self, shape, scale=1.0, size=None):
        return self._draw('gamma', ('gamma', shape, scale), size, lambda s: [s > 0])
    def beta(self, a, b, size=None):
        return self._draw('beta', ('beta', a, b), size, lambda s: [s > 0, s < 1])
    def laplace(self, loc=0.0, scale=1.0, size=None):
        return self._draw('laplace', ('laplace', loc, scale), size)
    def exponential(self, scale=1.0, size=None):
        return self._draw('exponential', ('exponential', scale), size, lambda s: [s > 0])
    def lognormal(self, mean=0.0, sigma=1.0, size=None):
        return self._draw('lognormal', ('lognormal', mean, sigma), size, lambda s: [s > 0])
    def RandomState(self, *a, **k): return NPRandom(object.__getattribute__(self, '_real'), ident=f'RandomState{a}')
    def default_rng(self, *a, **k): return NPRandom(object.__getattribute__(self, '_real'), ident=f'Generator{a}')
    def seed(self, *a, **k): RNG_LOG.append((object.__getattribute__(self, 'ident'), 'seed', a, []))


class NPLinalg(Forward):
    def norm(self, v, ord=None, axis=None, keepdims=False):
        if isinstance(v, AVec): _hit('np.linalg.norm'); return _anorm(v)
        if _issym(v):
            _hit('np.linalg.norm')
            a = _obj(v)
            if axis is not None:
                if a.ndim == 1 and axis in (0, -1): axis = None
                elif a.ndim == 2 and axis == 0:
                    return _np.array([self.norm(a[:, j], ord=ord) for j in range(a.shape[1])], dtype=object)
                else: raise core.Concretised("norm with axis on symbolic array")
            if ord in (None, 2, 'fro'):
                return _np.sqrt(_np.sum(a.reshape(-1) ** 2))
            if ord == 1: return _np.sum(_np.abs(a.reshape(-1)))
            if ord == _np.inf: raise core.Concretised("inf-norm")
            raise core.Concretised(f"norm ord={ord}")
        return self._real.norm(v, ord=ord, axis=axis, keepdims=keepdims)
    def inv(self, M):
        if _issym(M): _hit('np.linalg.inv'); return sym_inv(_obj(M))
        return self._real.inv(M)
    def solve(self, M, b):
        if _issym(M, b): _hit('np.linalg.solve'); return sym_solve(_obj(M), _obj(b))
        return self._real.solve(M, b)
    def det(self, M):
        if _issym(M): _hit('np.linalg.det'); return sym_det(_obj(M))
        return self._real.det(M)
    def cholesky(self, M):
        if _issym(M): _hit('np.linalg.cholesky'); return sym_cholesky(_obj(M))
        return self._real.cholesky(M)
    def matrix_rank(self, M, *a, **k):
        if _issym(M):
            _hit('np.linalg.matrix_rank')
            return sym_matrix_rank(_obj(M))
        return self._real.matrix_rank(M, *a, **k)
    def slogdet(self, M):
        if _issym(M):
            _hit('np.linalg.slogdet'); d = sym_det(_obj(M)); return (_np.sign(d), _np.log(abs(d)))
        return self._real.slogdet(M)


class NPShim(Forward):
    def __init__(self):
        super().__init__(_np, 'np')
        object.__setattr__(self, 'random', NPRandom(_np.random))
        object.__setattr__(self, 'linalg', NPLinalg(_np.linalg, 'np.linalg'))
        object.__setattr__(self, 'pi', SReal(core.PI))

    # allocation: object arrays so that symbolic values can be stored
    def zeros(self, shape, dtype=None, **k):
        if shape is ADIM: return AVec()
        a = _np.empty(shape, dtype=object); a.fill(0.0) if dtype is None or dtype in (float, _np.float64) else a.fill(_np.zeros((), dtype=dtype).item()); return a
    def ones(self, shape, dtype=None, **k):
        a = _np.empty(shape, dtype=object); a.fill(1.0); return a
    def empty(self, shape, dtype=None, **k):
        if dtype is not None and dtype not in (float, _np.float64, object): return _np.empty(shape, dtype=dtype)
        a = _np.empty(shape, dtype=object); a.fill(0.0); return a
    def zeros_like(self, a, *args, **k):
        if isinstance(a, AVec): return AVec()
        return self.zeros(_np.shape(a))
    def ones_like(self, a, *args, **k): return self.ones(_np.shape(a))
    def empty_like(self, a, *args, **k): return self.zeros(_np.shape(a))
    def full(self, shape, v, **k):
        a = _np.empty(shape, dtype=object); a.fill(v); return a
    def eye(self, n, *args, **k):
        if args or k: return _np.eye(n, *args, **k)
        return _np.eye(n).astype(object)
    def identity(self, n, **k): return _np.eye(n).astype(object)

    def array(self, a, *args, **k):
        if isinstance(a, (SReal, AVec)): return a if isinstance(a, AVec) else a._arr()
        if _issym(a): return _np.array(a, dtype=object)
        return _np.array(a, *args, **k)
    def asarray(self, a, *args, **k):
        if isinstance(a, AVec): return a
        if isinstance(a, SReal): return a._arr()
        if _issym(a): return _np.asarray(a, dtype=object)
        return _np.asarray(a, *args, **k)
    def asfarray(self, a, *args, **k): return self.asarray(a)
    def copy(self, a, *args, **k):
        if isinstance(a, AVec): return a.copy()
        if isinstance(a, SReal): return a
        return _np.copy(a, *args, **k)
    def isscalar(self, a):
        if isinstance(a, SReal): return True
        return _np.isscalar(a)
    def ndim(self, a):
        if isinstance(a, SReal): return 0
        if isinstance(a, AVec): return 1
        return _np.ndim(a)
    def shape(self, a):
        if isinstance(a, SReal): return ()
        return _np.shape(a)
    def size(self, a, *args):
        if isinstance(a, SReal): return 1
        return _np.size(a, *args)

    # predicates
    def isnan(self, a):
        if isinstance(a, (SReal, AVec)): return False
        if _issym(a):
            _hit('np.isnan'); arr = _obj(a)
            return _np.array([(not isinstance(e, (SReal, SBool))) and bool(_np.isnan(e)) for e in arr.reshape(-1)]).reshape(arr.shape)
        return _np.isnan(_defloat(a))
    def isinf(self, a):
        if isinstance(a, (SReal, AVec)): return False
        if _issym(a):
            arr = _obj(a)
            return _np.array([(not isinstance(e, (SReal, SBool))) and bool(_np.isinf(e)) for e in arr.reshape(-1)]).reshape(arr.shape)
        return _np.isinf(_defloat(a))
    def isneginf(self, a):
        if isinstance(a, (SReal, AVec)): return False
        if _issym(a): return _np.zeros(_np.shape(a), dtype=bool)
        return _np.isneginf(a)
    def isfinite(self, a):
        if isinstance(a, (SReal, AVec)): return True
        if _issym(a):
            arr = _obj(a)
            return _np.array([isinstance(e, (SReal, SBool)) or bool(_np.isfinite(e)) for e in arr.reshape(-1)]).reshape(arr.shape)
        return _np.isfinite(_defloat(a))
    def isreal(self, a):
        if _issym(a): return True
        return _np.isreal(a)
    def iscomplexobj(self, a):
        if _issym(a): return False
        return _np.iscomplexobj(a)
    def allclose(self, a, b, rtol=1e-5, atol=1e-8, *args, **k):
        if _issym(a, b):
            A, Bv = _np.broadcast_arrays(_obj(a), _obj(b))
            if CLOSE_MODEL[0] == 'tolerance':
                # numpy's documented test |a - b| <= atol + rtol * |b| (tolerances as exact rationals of the float literals)
                _hit('np.allclose(tolerance)')
                ra, rr = z3.RealVal(repr(float(atol))), z3.RealVal(repr(float(rtol)))
                ab = lambda t: z3.If(t >= 0, t, -t)
                conj = [ab(T(x) - T(y)) <= ra + rr * ab(T(y)) for x, y in zip(A.reshape(-1), Bv.reshape(-1))]
            else:
                _hit('np.allclose(exact)')
                conj = [T(x) == T(y) for x, y in zip(A.reshape(-1), Bv.reshape(-1))]
            return bool(SBool(z3.And(*conj))) if conj else True
        return _np.allclose(_defloat(a), _defloat(b), *args, **k)
    def isclose(self, a, b, *args, **k):
        if _issym(a, b):
            _hit('np.isclose(exact)')
            if isinstance(a, SReal) or isinstance(b, SReal):
                if _np.ndim(a) == 0 and _np.ndim(b) == 0: return SBool(T(a) == T(b))
            A, Bv = _np.broadcast_arrays(_obj(a), _obj(b))
            return _np.array([SBool(T(x) == T(y)) for x, y in zip(A.reshape(-1), Bv.reshape(-1))], dtype=object).reshape(A.shape)
        return _np.isclose(_defloat(a), _defloat(b), *args, **k)
    def array_equal(self, a, b, *args, **k):
        if _issym(a, b):
            if _np.shape(a) != _np.shape(b): return False
            return self.allclose(a, b)
        return _np.array_equal(_defloat(a), _defloat(b), *args, **k)
    def array_equiv(self, a, b):
        if _issym(a, b): return self.allclose(a, b)
        return _np.array_equiv(a, b)
    def count_nonzero(self, a, *args, **k):
        if _issym(a):
            _hit('np.count_nonzero')
            return int(sum(1 for e in _obj(a).reshape(-1) if bool(e != 0)))
        return _np.count_nonzero(_defloat(a), *args, **k)
    def any(self, a, *args, **k):
        if _issym(a):
            arr = _obj(a).reshape(-1)
            for e in arr:
                if bool(e): return True
            return False
        return _np.any(a, *args, **k)
    def all(self, a, *args, **k):
        if _issym(a):
            arr = _obj(a).reshape(-1)
            for e in arr:
                if not bool(e): return False
            return True
        return _np.all(a, *args, **k)
    def where(self, c, *args):
        if _issym(c) and args:
            x, y = args
            C, X, Y = _np.broadcast_arrays(_obj(c), _obj(x), _obj(y))
            out = _np.empty(C.shape, dtype=object)
            for i in _np.ndindex(C.shape):
                ci = C[i]
                if isinstance(ci, SBool): out[i] = SReal(z3.If(ci.t, T(X[i]), T(Y[i])))
                else: out[i] = X[i] if ci else Y[i]
            return out
        return _np.where(c, *args)
    def maximum(self, a, b, *args, **k):
        if _issym(a, b):
            A, Bv = _np.broadcast_arrays(_obj(a), _obj(b))
            out = _np.empty(A.shape, dtype=object)
            for i in _np.ndindex(A.shape): out[i] = SReal(z3.If(T(A[i]) >= T(Bv[i]), T(A[i]), T(Bv[i])))
            return out if out.ndim else out[()]
        return _np.maximum(a, b, *args, **k)
    def minimum(self, a, b, *args, **k):
        if _issym(a, b):
            A, Bv = _np.broadcast_arrays(_obj(a), _obj(b))
            out = _np.empty(A.shape, dtype=object)
            for i in _np.ndindex(A.shape): out[i] = SReal(z3.If(T(A[i]) <= T(Bv[i]), T(A[i]), T(Bv[i])))
            return out if out.ndim else out[()]
        return _np.minimum(a, b, *args, **k)
    def abs(self, a):
        if isinstance(a, SReal): return abs(a)
        return _np.abs(a)
    absolute = abs
    def sign(self, a):
        if isinstance(a, SReal): return a.sign()
        if _issym(a):
            arr = _obj(a); return _np.array([SReal.lift(e).sign() for e in arr.reshape(-1)], dtype=object).reshape(arr.shape)
        return _np.sign(a)
    def log(self, a):
        if isinstance(a, SReal): return a.log()
        if isinstance(a, STag): raise core.Concretised("log of sparse matrix")
        return _np.log(a)
    def exp(self, a):
        if isinstance(a, SReal): return a.exp()
        return _np.exp(a)
    def sqrt(self, a):
        if isinstance(a, SReal): return a.sqrt()
        return _np.sqrt(a)
    def power(self, a, p):
        if _issym(a, p): return a ** p
        return _np.power(a, p)
    def float64(self, a=0.0):
        if isinstance(a, SReal): return a
        return _np.float64(a)
    def dot(self, a, b):
        if isinstance(a, AVec) or isinstance(b, AVec): return a @ b
        if isinstance(a, SReal) or isinstance(b, SReal): return a * b
        if isinstance(a, STag) or isinstance(b, STag): return a @ b
        return _np.dot(a, b)
    def inner(self, a, b):
        if isinstance(a, AVec): return a @ b
        return _np.inner(a, b)
    def linspace(self, *a, **k): return _np.linspace(*a, **k)
    def diag(self, a, *args):
        if isinstance(a, STag): a = a.a
        return _np.diag(a, *args)
    def tril(self, a, *args):
        if isinstance(a, STag): a = a.a
        return _np.tril(a, *args)
    def triu(self, a, *args):
        if isinstance(a, STag): a = a.a
        return _np.triu(a, *args)
    def dtype(self, *a, **k):
        d = _np.dtype(*a, **k)
        return _NeverEqualDtype() if d == object else d
    def sum(self, a, *args, **k):
        if isinstance(a, SReal): return a
        if isinstance(a, STag): a = a.a
        return _np.sum(a, *args, **k)
    def prod(self, a, *args, **k):
        if isinstance(a, SReal): return a
        return _np.prod(a, *args, **k)
    def max(self, a, *args, **k):
        if _issym(a) and not args and not k:
            arr = _obj(a).reshape(-1); m = T(arr[0])
            for e in arr[1:]: m = z3.If(T(e) >= m, T(e), m)
            return SReal(m)
        return _np.max(a, *args, **k)
    def min(self, a, *args, **k):
        if _issym(a) and not args and not k:
            arr = _obj(a).reshape(-1); m = T(arr[0])
            for e in arr[1:]: m = z3.If(T(e) <= m, T(e), m)
            return SReal(m)
        return _np.min(a, *args, **k)
    amax = max; amin = min


STAT_LOG = []      # (function name, array object, args, kwargs) for reductions applied to ghost arrays


def _stat(name):
    def f(self, a, *args, **k):
        from .ghost import GhostArray
        if isinstance(a, GhostArray):
            _hit('np.' + name + ' (call recorded)')
            STAT_LOG.append((name, a, args, k))
            return GhostResult(name, a, args, k)
        return getattr(_np, name)(a, *args, **k)
    return f


class GhostResult:
    def __init__(self, name, a, args, k): self.name = name; self.a = a; self.args = args; self.k = k
    def __iter__(self):
        # percentile with two requested levels unpacks into (lower, upper)
        q = self.args[0] if self.args else None
        if self.name == 'percentile' and isinstance(q, (list, tuple)):
            return iter([GhostResult('percentile', self.a, (qi,), self.k) for qi in q])
        raise core.Concretised("iteration over opaque statistic")
    def __sub__(self, o): return ('sub', self, o)


for _n in ('mean', 'median', 'var', 'std', 'percentile'):
    setattr(NPShim, _n, _stat(_n))


class _NeverEqualDtype:
    """np.dtype('O') as seen by cuqi.array: the FEniCS-payload special case is not taken for symbolic arrays"""
    def __eq__(self, o): return False
    def __ne__(self, o): return True
    __hash__ = object.__hash__


# ---------------------------------------------------------------------------------------------
# linear-algebra contracts at concrete small shapes
# ---------------------------------------------------------------------------------------------
def sym_det(M):
    n = M.shape[0]
    if n == 0: return SReal.lift(1)
    if n == 1: return SReal.lift(M[0, 0])
    if n == 2: return M[0, 0] * M[1, 1] - M[0, 1] * M[1, 0]
    tot = None
    for j in range(n):
        if _iszero(M[0, j]): continue
        minor = _np.delete(_np.delete(M, 0, axis=0), j, axis=1)
        term = M[0, j] * sym_det(minor) * ((-1) ** j)
        tot = term if tot is None else tot + term
    return SReal.lift(0) if tot is None else tot


def _freshmat(name, shape):
    return _np.array([SReal(fresh(name)) for _ in range(int(_np.prod(shape)))], dtype=object).reshape(shape)


def _add_eq(A, Bm):
    A, Bm = _np.broadcast_arrays(_np.asarray(A, dtype=object), _np.asarray(Bm, dtype=object))
    for x, y in zip(A.reshape(-1), Bm.reshape(-1)):
        ST.base.append(T(x) == T(y))


def _diag_only(M):
    n = M.shape[0]
    return all(_iszero(M[i, j]) for i in range(n) for j in range(n) if i != j)


def sym_inv(M):
    """contract of inv: fresh P with M P = P M = I (side condition det M != 0 recorded as fact user must ensure)"""
    if M.ndim != 2 or M.shape[0] != M.shape[1]:
        raise _np.linalg.LinAlgError(f"{M.ndim}-dimensional array given. Array must be at least two-dimensional and square")
    n = M.shape[0]
    if _diag_only(M):
        P = _np.zeros((n, n), dtype=object)
        for i in range(n): P[i, i] = 1 / SReal.lift(M[i, i])
        return P
    if n <= 3:
        # explicit form of the same contract at a concrete small shape: adj(M)/det(M)  (M P = P M = I iff det != 0)
        det = sym_det(M)
        P = _np.zeros((n, n), dtype=object)
        for i in range(n):
            for j in range(n):
                minor = _np.delete(_np.delete(M, j, axis=0), i, axis=1)
                P[i, j] = ((-1) ** (i + j)) * sym_det(minor) / det
        return P
    P = _freshmat('inv', (n, n))
    I = _np.eye(n).astype(object)
    _add_eq(M @ P, I); _add_eq(P @ M, I)
    return P


def sym_solve(M, b):
    """contract of solve: fresh u with M u = b"""
    if M.ndim != 2 or M.shape[0] != M.shape[1]:
        raise _np.linalg.LinAlgError(f"{M.ndim}-dimensional array given. Array must be at least two-dimensional and square")
    if _diag_only(M):
        d = _np.array([SReal.lift(M[i, i]) for i in range(M.shape[0])], dtype=object)
        return (b.T / d).T if b.ndim == 2 else b / d
    if M.shape[0] <= 3 and M.shape[0] == M.shape[1]:
        return sym_inv(M) @ b
    u = _freshmat('solve', b.shape)
    _add_eq(M @ u, b)
    return u


def sym_solve_triangular(a, b, lower=False, trans=0, **k):
    """contract of scipy.linalg.solve_triangular: only the triangle selected by `lower` is read"""
    a = _obj(a); b = _obj(b)
    tri = _np.tril(a) if lower else _np.triu(a)
    if trans in (1, 'T', 2, 'C'): tri = tri.T
    return sym_solve(tri, b)


def sym_cholesky(P, lower=True):
    """contract of cholesky: fresh lower L, diag>0, L L^T = P"""
    n = P.shape[0]
    if _diag_only(P):
        L = _np.zeros((n, n), dtype=object)
        for i in range(n): L[i, i] = _np.sqrt(SReal.lift(P[i, i]))
        return L
    L = _np.zeros((n, n), dtype=object)
    if n <= 3:
        # the unique factor with positive diagonal, by the Cholesky recurrences (definitional square roots)
        for j in range(n):
            acc = SReal.lift(P[j, j])
            for k in range(j): acc = acc - L[j, k] * L[j, k]
            L[j, j] = acc.sqrt()
            for i in range(j + 1, n):
                acc = SReal.lift(P[i, j])
                for k in range(j): acc = acc - L[i, k] * L[j, k]
                L[i, j] = acc / L[j, j]
        return L
    for i in range(n):
        for j in range(i + 1):
            s = fresh('chol'); L[i, j] = SReal(s)
            if i == j: ST.base.append(s > 0)
    _add_eq(L @ L.T, P)
    return L


# ---------------------------------------------------------------------------------------------
# installation
# ---------------------------------------------------------------------------------------------
_SAVED = []
NP = NPShim()
NP_REAL_MODULES = {'cuqi.operator._operator'}      # modules that only build constant matrices: numpy stays the real one


def default_table():
    """module globals rebound in addition to `np` (DESIGN appendix A)"""
    sps = SPS()
    return {
        'cuqi.solver._solver': dict(LA=NP.linalg),
        'cuqi.distribution._gamma': dict(sps=sps), 'cuqi.distribution._inverse_gamma': dict(sps=sps),
        'cuqi.distribution._beta': dict(sps=sps), 'cuqi.distribution._cauchy': dict(sps=sps),
        'cuqi.distribution._normal': dict(erf=erf_shim),
        'cuqi.distribution._gaussian': dict(nplinalg=NP.linalg, sps=sps, spa=SPA(), splinalg=SPLinalg(), sparse_cholesky=sparse_cholesky_shim),
        'cuqi.utilities._utilities': dict(issparse=SPA().issparse),
        'cuqi.model._model': dict(csc_matrix=csc_matrix_shim, hstack=hstack_shim),
        'cuqi.testproblem._testproblem': dict(fftconvolve=fftconvolve_shim),
        'cuqi.geometry._geometry': dict(dst=dst_shim, idst=idst_shim),
    }


CLOSE_MODEL = ['exact']     # 'exact': allclose idealised as equality (default, listed assumption); 'tolerance': numpy's documented test


def install(extra=None):
    """rebind `np` (and names given in extra: {module: {name: obj}}) in all loaded cuqi modules"""
    CLOSE_MODEL[0] = 'exact'
    tab = default_table()
    for k, v in (extra or {}).items(): tab.setdefault(k, {}).update(v)
    extra = tab
    for mname, mod in list(sys.modules.items()):
        if mod is None or not (mname == 'cuqi' or mname.startswith('cuqi.')): continue
        d = getattr(mod, '__dict__', None)
        if d is None: continue
        if mname in NP_REAL_MODULES: continue
        if 'np' in d and d['np'] is _np:
            _SAVED.append((mod, 'np', d['np'])); d['np'] = NP
    for mname, names in (extra or {}).items():
        mod = sys.modules.get(mname)
        if mod is None:
            __import__(mname); mod = sys.modules[mname]
        for k, v in names.items():
            _SAVED.append((mod, k, mod.__dict__.get(k, _MISSING))); mod.__dict__[k] = v
    return NP


_MISSING = object()


def rebind(mname, **names):
    mod = sys.modules.get(mname)
    if mod is None:
        __import__(mname); mod = sys.modules[mname]
    for k, v in names.items():
        _SAVED.append((mod, k, mod.__dict__.get(k, _MISSING))); mod.__dict__[k] = v


def uninstall():
    while _SAVED:
        mod, k, v = _SAVED.pop()
        if v is _MISSING: mod.__dict__.pop(k, None)
        else: mod.__dict__[k] = v


# ---------------------------------------------------------------------------------------------
# scipy.stats / scipy.special : the textbook formula of the named law with the GIVEN arguments
# ---------------------------------------------------------------------------------------------
def _ew(f, *args):
    """apply scalar term function f element-wise with numpy broadcasting"""
    arrs = _np.broadcast_arrays(*[_np.asarray(a, dtype=object) for a in args])
    out = _np.empty(arrs[0].shape, dtype=object)
    for i in _np.ndindex(out.shape):
        out[i] = f(*[SReal.lift(a[i]) for a in arrs])
    return out if out.ndim else out[()]


def _lg(x): return SReal(core.LGAMMA(T(x)))
GAMMA_CDF = z3.Function('uf_gamma_cdf', R, R, R)        # regularised lower incomplete gamma P(a, z)
BETA_CDF = z3.Function('uf_beta_cdf', R, R, R, R)       # regularised incomplete beta I_x(a, b)


class _Law:
    def __init__(self, name): self.name = name
    def rvs(self, *a, size=None, random_state=None, **k):
        _hit(f'scipy.stats.{self.name}.rvs')
        gen = NP.random if random_state is None else random_state
        ident = 'global' if random_state is None else getattr(random_state, 'ident', repr(random_state))
        shape = size
        syms = [fresh(f"rvs_{self.name}") for _ in range(int(_np.prod(shape)) if shape else 1)]
        RNG_LOG.append((ident, f'{self.name}.rvs', (self.name, k), syms))
        out = _np.array([SReal(s) for s in syms], dtype=object)
        return out.reshape(shape) if shape else out[0]


class _GammaLaw(_Law):
    def logpdf(self, x, a, loc=0, scale=1):
        _hit('scipy.stats.gamma.logpdf')
        def f(x, a, loc, sc):
            if not bool(x - loc > 0):
                if bool(x - loc < 0): return float('-inf')
                raise core.Concretised("density evaluated at the boundary of the support")
            return (a - 1) * ((x - loc).log() - sc.log()) - (x - loc) / sc - _lg(a) - sc.log()
        return _ew(f, x, a, loc, scale)
    def cdf(self, x, a, loc=0, scale=1):
        _hit('scipy.stats.gamma.cdf')
        return _ew(lambda x, a, loc, sc: SReal(GAMMA_CDF(a.t, ((x - loc) / sc).t)), x, a, loc, scale)


class _InvGammaLaw(_Law):
    def logpdf(self, x, a, loc=0, scale=1):
        _hit('scipy.stats.invgamma.logpdf')
        # p(y) = y^(-a-1) exp(-1/y) / Gamma(a),  y = (x-loc)/scale,  density / scale
        def f(x, a, loc, sc):
            if not bool(x - loc > 0):
                if bool(x - loc < 0): return float('-inf')
                raise core.Concretised("density evaluated at the boundary of the support")
            return (-a - 1) * ((x - loc).log() - sc.log()) - sc / (x - loc) - _lg(a) - sc.log()
        return _ew(f, x, a, loc, scale)
    def cdf(self, x, a, loc=0, scale=1):
        _hit('scipy.stats.invgamma.cdf')
        return _ew(lambda x, a, loc, sc: 1 - SReal(GAMMA_CDF(a.t, (sc / (x - loc)).t)), x, a, loc, scale)


class _BetaLaw(_Law):
    def logpdf(self, x, a, b, loc=0, scale=1):
        _hit('scipy.stats.beta.logpdf')
        def f(x, a, b):
            if not bool(SBool(z3.And(x.t > 0, x.t < 1))):
                if bool(SBool(z3.Or(x.t < 0, x.t > 1))): return float('-inf')
                raise core.Concretised("density evaluated at the boundary of the support")
            return (a - 1) * x.log() + (b - 1) * (1 - x).log() - (_lg(a) + _lg(b) - _lg(a + b))
        return _ew(f, x, a, b)
    def cdf(self, x, a, b, loc=0, scale=1):
        _hit('scipy.stats.beta.cdf')
        def f(x, a, b):
            if bool(x >= 1): return SReal(z3.RealVal(1))
            if bool(x <= 0): return SReal(z3.RealVal(0))
            return SReal(BETA_CDF(x.t, a.t, b.t))
        return _ew(f, x, a, b)


class _CauchyLaw(_Law):
    def logpdf(self, x, loc=0, scale=1):
        return _ew(lambda x, loc, sc: -(NP.pi * sc * (1 + ((x - loc) / sc) ** 2)).log(), x, loc, scale)
    def cdf(self, x, loc=0, scale=1):
        _hit('scipy.stats.cauchy.cdf')
        return _ew(lambda x, loc, sc: 0.5 + SReal(core.ATAN(((x - loc) / sc).t)) / NP.pi, x, loc, scale)


class SPS(Forward):
    def __init__(self):
        import scipy.stats as _sps
        super().__init__(_sps, 'scipy.stats')
        object.__setattr__(self, 'gamma', _GammaLaw('gamma')); object.__setattr__(self, 'invgamma', _InvGammaLaw('invgamma'))
        object.__setattr__(self, 'beta', _BetaLaw('beta')); object.__setattr__(self, 'cauchy', _CauchyLaw('cauchy'))


def symbolize_operators(obj):
    """entry-exact object copies (STag) of the constant sparse matrices held by cuqi Operators reachable from obj,
    so that they can meet symbolic operands (scipy.sparse refuses object dtype)"""
    seen = set()
    def visit(o):
        if id(o) in seen or o is None: return
        seen.add(id(o))
        m = getattr(o, '_matrix', None)
        if m is not None and _sparse.issparse(m):
            o._matrix = STag(_to_obj_matrix(m), m.format)
        for nm in ('_prec_op', '_diff_op', 'model'):
            try:
                if hasattr(o, nm): visit(getattr(o, nm))
            except Exception: pass
        for fn in ('_forward_func', '_adjoint_func'):
            f = getattr(o, fn, None)
            for cell in (getattr(f, '__closure__', None) or ()):
                try: v = cell.cell_contents
                except ValueError: continue
                if hasattr(v, '_matrix'): visit(v)
    visit(obj)
    return obj


def erf_shim(x):
    _hit('scipy.special.erf')
    if _issym(x): return _ew(lambda x: SReal(core.ERF(x.t)), x)
    import scipy.special
    return scipy.special.erf(x)


# ---------------------------------------------------------------------------------------------
# scipy.sparse / scipy.linalg : sparse algebra = dense algebra on the same entries (STag)
# ---------------------------------------------------------------------------------------------
class _SpLinalg(Forward):
    def __init__(self):
        import scipy.sparse.linalg as _l
        super().__init__(_l, 'scipy.sparse.linalg')
    def inv(self, M):
        if isinstance(M, STag) or _issym(M): _hit('scipy.sparse.linalg.inv'); return STag(sym_inv(_obj(M)))
        return self._real.inv(M)
    def spsolve(self, M, b):
        if isinstance(M, STag) or _issym(M, b):
            _hit('scipy.sparse.linalg.spsolve')
            if not isinstance(M, STag): M = _to_obj_matrix(M)
            bb = _obj(b)
            r = sym_solve(_obj(M), bb)
            return r[:, 0] if (r.ndim == 2 and r.shape[1] == 1) else r
        return self._real.spsolve(M, b)


class _CsGraph(Forward):
    def __init__(self):
        import scipy.sparse.csgraph as _c
        super().__init__(_c, 'scipy.sparse.csgraph')
    def structural_rank(self, M):
        if isinstance(M, STag):
            _hit('scipy.sparse.csgraph.structural_rank')
            a = M.a; n = a.shape[0]
            if all(not _iszero(a[i, i]) for i in range(n)): return n
            raise core.Concretised("structural_rank of symbolic pattern with zero diagonal")
        return self._real.structural_rank(M)


class SPA(Forward):
    def __init__(self):
        super().__init__(_sparse, 'scipy.sparse')
        object.__setattr__(self, 'linalg', _SpLinalg()); object.__setattr__(self, 'csgraph', _CsGraph())
    def issparse(self, x): return isinstance(x, STag) or _sparse.issparse(x)
    def isspmatrix_dia(self, x): return (isinstance(x, STag) and x.format == 'dia') or _sparse.isspmatrix_dia(x)
    def isspmatrix(self, x): return self.issparse(x)
    def identity(self, n, dtype=None, format=None):
        return STag(_np.eye(n).astype(object), format or 'dia')
    def eye(self, n, *a, **k):
        if a or any(key not in ('format', 'dtype') for key in k): return _sparse.eye(n, *a, **k)
        return STag(_np.eye(n).astype(object), k.get('format') or 'dia')
    def diags(self, d, offsets=0, shape=None, format=None, dtype=None):
        if _issym(d):
            _hit('scipy.sparse.diags')
            if offsets != 0: raise core.Concretised("symbolic off-diagonal diags")
            v = _obj(d).reshape(-1); n = len(v)
            M = _np.zeros((n, n), dtype=object)
            for i in range(n):
                for j in range(n): M[i, j] = v[i] if i == j else 0.0
            return STag(M, format or 'dia')
        return _sparse.diags(d, offsets, shape=shape, format=format, dtype=dtype)
    def csr_matrix(self, a, *args, **k):
        if isinstance(a, STag): return a.tocsr()
        if _issym(a): return STag(_obj(a), 'csr')
        return _sparse.csr_matrix(a, *args, **k)
    def csc_matrix(self, a, *args, **k):
        if isinstance(a, STag): return a.tocsc()
        if _issym(a): return STag(_obj(a), 'csc')
        return _sparse.csc_matrix(a, *args, **k)


class SPLinalg(Forward):
    """scipy.linalg"""
    def __init__(self):
        import scipy.linalg as _l
        super().__init__(_l, 'scipy.linalg')
    def solve(self, M, b, **k):
        if _issym(M, b): _hit('scipy.linalg.solve'); return sym_solve(_obj(M), _obj(b))
        return self._real.solve(M, b, **k)
    def solve_triangular(self, a, b, trans=0, lower=False, **k):
        if _issym(a, b): _hit('scipy.linalg.solve_triangular'); return sym_solve_triangular(a, b, lower=lower, trans=trans)
        return self._real.solve_triangular(a, b, trans=trans, lower=lower, **k)
    def cholesky(self, M, lower=False, **k):
        if _issym(M):
            _hit('scipy.linalg.cholesky'); L = sym_cholesky(_obj(M)); return L if lower else L.T
        return self._real.cholesky(M, lower=lower, **k)
    def eigh(self, M, **k):
        if _issym(M):
            _hit('scipy.linalg.eigh'); return sym_eigh(_obj(M))
        return self._real.eigh(M, **k)
    def inv(self, M, **k):
        if _issym(M): return sym_inv(_obj(M))
        return self._real.inv(M, **k)


def sym_eigh(M):
    """contract of eigh for a symmetric matrix: fresh eigenvalues s (ascending) and orthonormal u with M u = u diag(s)"""
    n = M.shape[0]
    s = _np.array([SReal(fresh('eigval')) for _ in range(n)], dtype=object)
    u = _freshmat('eigvec', (n, n))
    I = _np.eye(n).astype(object)
    _add_eq(u.T @ u, I); _add_eq(u @ u.T, I)
    _add_eq(M @ u, u * s)          # column j scaled by s_j
    for i in range(n - 1): ST.base.append(T(s[i]) <= T(s[i + 1]))
    return _EigVals(s), u


class _EigVals(_np.ndarray):
    """eigenvalue vector that pretends to be float64 for dtype inspection (eigvalsh_to_eps)"""
    def __new__(cls, a): return _np.asarray(a, dtype=object).view(cls)


def sym_matrix_rank(M):
    n = M.shape[0]
    if M.shape[0] != M.shape[1]: raise core.Concretised("rank of non-square symbolic matrix")
    d = sym_det(M)
    if bool(d != 0): return n
    raise core.Concretised("rank of singular symbolic matrix")


def sparse_cholesky_shim(A):
    """contract of cuqi.utilities.sparse_cholesky: upper triangular U with U^T U = A (positive diagonal)"""
    _hit('cuqi.utilities.sparse_cholesky (contract)')
    a = _obj(A)
    L = sym_cholesky(a)
    return STag(L.T, 'csc')


# ---------------------------------------------------------------------------------------------
# convolution / sparse assembly used by cuqi.model and cuqi.testproblem
# ---------------------------------------------------------------------------------------------
# ---------------------------------------------------------------------------------------------
# discrete sine transform pair used by the KL expansion (scipy.fftpack.dst / idst, type II, unnormalised)
# ---------------------------------------------------------------------------------------------
def _dst_pair(N):
    """contract of the pair for length N: both are linear along the last axis, idst(v) = S v and dst(f) = 2N R f with R S = I
    (scipy.fftpack documents the unnormalised pair: dst(idst(x)) == 2N x).  S, R are matrices of symbolic constants; R S = I is a
    hypothesis of the path and is registered as product rewrite rules for the normaliser."""
    S = _np.array([[SReal(z3.Real(f'dstS{N}_{i}_{k}')) for k in range(N)] for i in range(N)], dtype=object)
    Rm = _np.array([[SReal(z3.Real(f'dstR{N}_{i}_{k}')) for k in range(N)] for i in range(N)], dtype=object)
    first = None
    for i in range(N):
        for k in range(N):
            rest = z3.RealVal(1 if i == k else 0)
            for j in range(1, N): rest = rest - T(Rm[i, j]) * T(S[j, k])
            hyp = T(Rm[i, 0]) * T(S[0, k]) == rest
            if first is None:
                first = hyp
                if any(h.eq(first) for h in ST.base): return S, Rm
            ST.base.append(hyp)
            core.PRODUCT_RULES.append((T(Rm[i, 0]), T(S[0, k]), rest))
    return S, Rm


def idst_shim(x, *a, **k):
    import scipy.fftpack
    if not _issym(x): return scipy.fftpack.idst(x, *a, **k)
    if a or k: raise core.Concretised("idst with options")
    _hit('scipy.fftpack.idst')
    x = _obj(x); N = x.shape[-1]
    S, Rm = _dst_pair(N)
    return x @ S.T


def dst_shim(x, *a, **k):
    import scipy.fftpack
    if not _issym(x): return scipy.fftpack.dst(x, *a, **k)
    if a or k: raise core.Concretised("dst with options")
    _hit('scipy.fftpack.dst')
    x = _obj(x); N = x.shape[-1]
    S, Rm = _dst_pair(N)
    return (2 * N) * (x @ Rm.T)


def fftconvolve_shim(a, b, mode='full', axes=None):
    """contract of scipy.signal.fftconvolve: the direct-sum definition of the (full / valid / same) convolution"""
    import scipy.signal
    if not _issym(a, b): return scipy.signal.fftconvolve(a, b, mode=mode, axes=axes)
    _hit('scipy.signal.fftconvolve')
    a = _np.asarray(a, dtype=object); b = _np.asarray(b, dtype=object)
    if a.ndim == 1:
        a = a[:, None]; b = b[:, None]; one_d = True
    else: one_d = False
    (m1, n1), (m2, n2) = a.shape, b.shape
    full = _np.empty((m1 + m2 - 1, n1 + n2 - 1), dtype=object)
    for i in range(full.shape[0]):
        for j in range(full.shape[1]):
            acc = SReal(z3.RealVal(0))
            for p in range(m2):
                for q in range(n2):
                    ii, jj = i - p, j - q
                    if 0 <= ii < m1 and 0 <= jj < n1: acc = acc + a[ii, jj] * b[p, q]
            full[i, j] = acc
    if mode == 'full': out = full
    elif mode == 'valid':
        out = full[m2 - 1:m1, n2 - 1:n1]
    elif mode == 'same':
        r0, c0 = (m2 - 1) // 2, (n2 - 1) // 2
        out = full[r0:r0 + m1, c0:c0 + n1]
    else: raise ValueError(mode)
    return out[:, 0] if one_d else out


def csc_matrix_shim(a, *args, **k):
    if isinstance(a, tuple) and len(a) == 2 and all(isinstance(v, (int, _np.integer)) for v in a):
        return STag(_np.zeros(a, dtype=object), 'csc')
    if isinstance(a, STag): return a.tocsc()
    if _issym(a): return STag(_obj(a), 'csc')
    return _sparse.csc_matrix(a, *args, **k)


def hstack_shim(blocks, *args, **k):
    if any(isinstance(b, STag) or _issym(b) for b in blocks):
        return STag(_np.hstack([_np.asarray(_obj(b), dtype=object) for b in blocks]), 'csc')
    return _sparse.hstack(blocks, *args, **k)
