"""Contract context: one contract text, two evaluations.

mode 'sym': values are symbolic (SReal / AVec / uninterpreted functions); `eq/holds` record proof
            obligations (hypotheses = precondition facts + path condition at that point).
mode 'num': values are floats (given inputs for a replay, or generated from VERIF_SEED); the same
            `eq/holds` are checked natively on the real, un-shimmed code (numeric twin / replay).
"""
import math, traceback, os
import numpy as np
import z3
from . import core
from .core import SReal, SBool, T, ST, R
from . import avec as av


class Reject(Exception):
    """numeric mode: generated input violates the precondition"""


class Obl:
    __slots__ = ('name', 'hyps', 'goal', 'path', 'note', 'kind')
    def __init__(self, name, hyps, goal, path, note='', kind='eq'):
        self.name = name; self.hyps = hyps; self.goal = goal; self.path = path; self.note = note; self.kind = kind


class NumFail:
    def __init__(self, name, detail): self.name = name; self.detail = detail


class Ctx:
    def __init__(self, mode, inputs=None, rng=None, rtol=1e-6, atol=1e-8, numdim=None):
        self.mode = mode
        self.inputs = inputs          # num mode: name -> float (replay) ; None -> generate
        self.rng = rng
        self.rtol = rtol; self.atol = atol
        self.numdim = numdim or 4
        self._patched = None
        self._gradctr = 0
        self.pre = None
        self.begin_path()
        self.functions = set()
        self.assumptions = set()

    # -- per path -----------------------------------------------------------------------------
    def begin_path(self):
        self.obls = []
        self.numfails = []
        self.numchecks = 0
        self.symnames = {}           # input symbol name -> z3 const (sym) / float (num)
        self._vecs = {}
        self._ufs = {}
        self._numq = {'uniform': [], 'normal': []}
        self.unpatch()
        if self.sym:
            from . import shims
            shims.PRESET['uniform'].clear(); shims.PRESET['normal'].clear()

    @property
    def sym(self): return self.mode == 'sym'

    # -- inputs -------------------------------------------------------------------------------
    def _gen(self, name, pos, nonneg, lo, hi, nz):
        if self.inputs is not None and name in self.inputs:
            return float(self.inputs[name])
        r = self.rng
        if lo is not None and hi is not None: v = r.uniform(lo, hi)
        elif pos: v = float(np.exp(r.uniform(-1.2, 1.2)))
        elif nonneg: v = float(r.choice([0.0, np.exp(r.uniform(-1.2, 1.2))], p=[0.15, 0.85]))
        else: v = float(r.uniform(-2.5, 2.5))
        if lo is not None and hi is None: v = lo + abs(v) + 1e-3
        if hi is not None and lo is None: v = hi - abs(v) - 1e-3
        if nz and abs(v) < 1e-2: v = 0.37
        return float(v)

    def real(self, name, pos=False, nonneg=False, lo=None, hi=None, nz=False):
        """a universally quantified real input.  lo/hi are strict bounds"""
        if self.sym:
            s = z3.Real(name); self.symnames[name] = s
            if pos: ST.base.append(s > 0)
            if nonneg: ST.base.append(s >= 0)
            if lo is not None: ST.base.append(s > core.rv(lo))
            if hi is not None: ST.base.append(s < core.rv(hi))
            if nz: ST.base.append(s != 0)
            return SReal(s)
        if name in self.symnames: return self.symnames[name]        # the same named input is the same value
        v = self._gen(name, pos, nonneg, lo, hi, nz)
        self.symnames[name] = v
        return v

    def vec(self, name, n, **kw):
        if self.sym:
            return np.array([self.real(f"{name}{i}", **kw) for i in range(n)], dtype=object)
        return np.array([self.real(f"{name}{i}", **kw) for i in range(n)], dtype=float)

    def mat(self, name, m, n, **kw):
        dt = object if self.sym else float
        return np.array([[self.real(f"{name}{i}_{j}", **kw) for j in range(n)] for i in range(m)], dtype=dt)

    def lower(self, name, n):
        """lower-triangular matrix with positive diagonal (Cholesky-factor shaped)"""
        dt = object if self.sym else float
        G = np.zeros((n, n), dtype=dt)
        if self.sym:
            for i in range(n):
                for j in range(n): G[i, j] = SReal(z3.RealVal(0))
        for i in range(n):
            for j in range(i + 1):
                G[i, j] = self.real(f"{name}{i}_{j}", pos=(i == j))
        return G

    def assume(self, cond):
        if self.sym:
            ST.base.append(T(cond) if not isinstance(cond, z3.ExprRef) else cond)
        else:
            if not bool(cond): raise Reject()

    # abstract-vector domain --------------------------------------------------------------------
    def avec(self, name):
        """sym: abstract vector of unknown dimension; num: float vector of dimension numdim"""
        if self.sym: return av.AVec.atom(name)
        if name not in self._vecs:
            self._vecs[name] = np.array([self.real(f"{name}{i}") for i in range(self.numdim)], dtype=float)
        return self._vecs[name].copy()

    def vfun(self, name, extended=False):
        """arbitrary function vector -> real (a target's log-density, ...)"""
        if self.sym: return av.vfun(name)
        if name not in self._ufs:
            W = np.array([[self.real(f"{name}_w{k}_{i}", lo=-1, hi=1) for i in range(self.numdim)] for k in range(3)])
            b = np.array([self.real(f"{name}_b{k}", lo=-1, hi=1) for k in range(3)])
            self._ufs[name] = lambda v, W=W, b=b: float(np.sum(np.sin(W @ np.asarray(v, dtype=float).ravel() + b)) - 0.1 * np.sum(np.asarray(v, dtype=float) ** 2))
        return self._ufs[name]

    def vvfun(self, name):
        """arbitrary function vector -> vector"""
        if self.sym: return av.vvfun(name)
        if name not in self._ufs:
            W = np.array([[self.real(f"{name}_w{k}_{i}", lo=-1, hi=1) for i in range(self.numdim)] for k in range(self.numdim)])
            self._ufs[name] = lambda v, W=W: np.tanh(W @ np.asarray(v, dtype=float).ravel())
        return self._ufs[name]

    def linop(self, name, mdim=None):
        """arbitrary linear operator with transpose: returns fun(v, flag) with flag 1 forward, 2 adjoint"""
        if self.sym:
            A = av.ALin(name)
            return (lambda v, flag: A.apply(v, tr=(flag == 2))), A
        m = mdim or self.numdim + 1
        M = np.array([[self.real(f"{name}{i}_{j}") for j in range(self.numdim)] for i in range(m)])
        return (lambda v, flag: (M @ v if flag == 1 else M.T @ v)), M

    def uf(self, name, *args):
        """uninterpreted real function of real arguments (sym) / fixed smooth function (num)"""
        if self.sym:
            f = z3.Function('uf_' + name, *([R] * len(args)), R)
            return SReal(f(*[T(a) for a in args]))
        seed = sum(ord(ch) for ch in name)
        return float(np.sin(seed + sum((k + 1.3) * float(a) for k, a in enumerate(args))))

    # -- random stream as an input ---------------------------------------------------------------
    def next_uniform(self, name='u'):
        """the next U(0,1) draw the code takes from the global generator is this universally quantified value"""
        from . import shims
        u = self.real(name, lo=0, hi=1)
        if self.sym: shims.PRESET['uniform'].append(u)
        else: self._numq['uniform'].append(u); self._patch_random()
        return u

    def boundary_uniform(self, name, log_threshold):
        """like next_uniform; in the numeric twin the value is placed just below or just above exp(min(0, log_threshold())) (side chosen
        by the generated input), so that a kernel whose acceptance threshold differs from the specified one is exposed by a single
        transition instead of with the small probability that a random u falls between the two thresholds"""
        from . import shims
        u = self.real(name, lo=0, hi=1)
        if self.sym:
            shims.PRESET['uniform'].append(u); return u
        if not (self.inputs is not None and name in self.inputs):      # (a replay uses the recorded value as it is)
            t = float(log_threshold())
            if np.isfinite(t):
                p = float(np.exp(min(0.0, t)))
                Ctx._boundary_count = getattr(Ctx, '_boundary_count', 0) + 1
                below = Ctx._boundary_count % 2 == 0             # sides alternate deterministically over the runs of a job
                if p >= 1.0: v = 1.0 - 1e-9                         # always accepted
                else: v = p * (1 - 1e-6) if below else min(p * (1 + 1e-6), 1.0 - 1e-12)
                if 0.0 < v < 1.0:
                    u = v; self.symnames[name] = v
        self._numq['uniform'].append(u); self._patch_random()
        return u

    def next_normal(self, name='xi', n=None):
        """the next standard-normal draw (abstract vector if n is None, else n-vector)"""
        from . import shims
        z = self.avec(name) if n is None else (self.vec(name, n) if n else self.real(name))
        if self.sym: shims.PRESET['normal'].append(z)
        else: self._numq['normal'].append(z); self._patch_random()
        return z

    def _patch_random(self):
        if self._patched: return
        import numpy.random as nr
        q = self._numq
        saved = {k: getattr(nr, k) for k in ('rand', 'random', 'uniform', 'randn', 'standard_normal', 'normal')}
        def take(fam, shape):
            if not q[fam]:
                # a draw the contract did not name (the code may draw the same law in another form): served from the seeded
                # generator of this run and recorded among the inputs, so that a replay sees the same value
                n = int(np.prod(shape)) if shape not in (None, ()) else 1
                self._auto = getattr(self, '_auto', 0) + 1
                vals = []
                for i in range(n):
                    nm = f'_unnamed_{fam}{self._auto}_{i}'
                    if self.inputs is not None and nm in self.inputs: x = float(self.inputs[nm])
                    else: x = float(self.rng.uniform(1e-9, 1 - 1e-9)) if fam == 'uniform' else float(self.rng.standard_normal())
                    self.symnames[nm] = x; vals.append(x)
                v = np.array(vals) if shape not in (None, ()) else vals[0]
            else:
                v = q[fam].pop(0)
            if shape not in (None, ()):
                # numpy returns an array of the requested shape (also for one element): the named draw fills it
                try:
                    n = int(np.prod(shape))
                    if np.size(v) == n: v = np.reshape(np.asarray(v, dtype=float), shape)
                except Exception: pass
            return v
        nr.rand = lambda *sh: take('uniform', sh or None)
        nr.random = lambda size=None: take('uniform', size)
        nr.uniform = lambda low=0.0, high=1.0, size=None: low + (high - low) * take('uniform', size)
        nr.randn = lambda *sh: take('normal', sh or None)
        nr.standard_normal = lambda size=None: take('normal', size)
        nr.normal = lambda loc=0.0, scale=1.0, size=None: loc + scale * take('normal', size)
        self._patched = saved

    def unpatch(self):
        if self._patched:
            import numpy.random as nr
            for k, v in self._patched.items(): setattr(nr, k, v)
            self._patched = None

    # -- helpers usable in both modes -----------------------------------------------------------
    def log(self, x): return np.log(x)
    def sqrt(self, x): return np.sqrt(x)
    def dot(self, a, b): return a @ b
    def norm(self, v):
        if isinstance(v, av.AVec): return av.norm(v)
        if core.is_sym(v): return np.sqrt(np.sum(np.asarray(v, dtype=object) ** 2))
        return float(np.linalg.norm(v))
    def minimum(self, a, b):
        if self.sym: return SReal(z3.If(T(a) <= T(b), T(a), T(b)))
        return min(a, b)
    def maximum1(self, a):
        """max(1, a)"""
        if self.sym: return SReal(z3.If(T(a) >= 1, T(a), z3.RealVal(1)))
        return max(1, a)
    def And(self, *cs):
        if self.sym: return SBool(z3.And(*[_b(c) for c in cs]))
        return all(bool(c) for c in cs)
    def Or(self, *cs):
        if self.sym: return SBool(z3.Or(*[_b(c) for c in cs]))
        return any(bool(c) for c in cs)
    def Not(self, c):
        if self.sym: return SBool(z3.Not(_b(c)))
        return not bool(c)
    def Implies(self, a, b):
        if self.sym: return SBool(z3.Implies(_b(a), _b(b)))
        return (not bool(a)) or bool(b)
    def Iff(self, a, b):
        if self.sym: return SBool(_b(a) == _b(b))
        return bool(a) == bool(b)
    def close(self, a, b, tol=None):
        """equality usable inside conditions: exact in sym mode, within tolerance natively"""
        if self.sym: return SBool(T(a) == T(b))
        a = float(a); b = float(b)
        if math.isinf(a) or math.isinf(b): return a == b          # (inf <= inf would make an infinite value close to everything)
        return abs(a - b) <= self.atol + (tol or self.rtol) * max(abs(a), abs(b))
    def le(self, a, b, tol=None):
        if self.sym: return SBool(T(a) <= T(b))
        a = float(a); b = float(b)
        return a <= b + self.atol + (tol or self.rtol) * max(abs(a), abs(b))
    def lt(self, a, b):
        if self.sym: return SBool(T(a) < T(b))
        return float(a) < float(b)
    def lgamma(self, x):
        if self.sym: return SReal(core.LGAMMA(T(x)))
        import scipy.special
        return float(scipy.special.gammaln(x))
    def grad_of(self, fun, x, h=1e-6):
        """derivative of the scalar fun at x (x: array of input symbols): term differentiation / central differences"""
        if self.sym:
            from . import diff
            return np.array(diff.grad(fun(x), list(x)), dtype=object)
        g = np.zeros(len(x))
        for i in range(len(x)):
            e = np.zeros(len(x)); e[i] = h
            g[i] = (float(fun(x + e)) - float(fun(x - e))) / (2 * h)
        return g
    def grad_at(self, fun, point, h=1e-6):
        """derivative of the scalar fun evaluated at an arbitrary (term-valued) point"""
        point = np.asarray(point, dtype=object if self.sym else float).reshape(-1)
        if self.sym:
            from . import diff
            n = len(point)
            vs = [z3.Real(f"gradat!{self._gradctr}_{i}") for i in range(n)]
            self._gradctr += 1
            x = np.array([SReal(v) for v in vs], dtype=object)
            val = fun(x)
            g = diff.grad(val, list(x))
            sub = [(v, T(p)) for v, p in zip(vs, point)]
            return np.array([SReal(z3.substitute(gi.t, *sub)) for gi in g], dtype=object)
        return self.grad_of(fun, point, h)
    def hessian_of(self, fun, n):
        """(constant) Hessian of a quadratic scalar fun of n variables: term differentiation twice / finite differences"""
        if self.sym:
            from . import diff
            vs = [z3.Real(f"hess!{self._gradctr}_{i}") for i in range(n)]; self._gradctr += 1
            x = np.array([SReal(v) for v in vs], dtype=object)
            g = diff.grad(fun(x), list(x))
            return np.array([[SReal(z3.simplify(diff.d(gi.t, v))) for v in vs] for gi in g], dtype=object)
        H = np.zeros((n, n)); h = 1e-4; x0 = np.zeros(n)
        for i in range(n):
            for j in range(n):
                ei = np.zeros(n); ej = np.zeros(n); ei[i] = h; ej[j] = h
                H[i, j] = (fun(x0 + ei + ej) - fun(x0 + ei - ej) - fun(x0 - ei + ej) + fun(x0 - ei - ej)) / (4 * h * h)
        return H
    def pathcond(self):
        """sym: conjunction of decisions so far (for reading thresholds off the path condition)"""
        return list(ST.pc)

    # -- obligations ----------------------------------------------------------------------------
    def _hyps(self): return ST.facts() + list(ST.pc)

    def holds(self, name, cond, note=''):
        if self.sym:
            g = _b(cond)
            self.obls.append(Obl(name, self._hyps(), g, None, note, 'holds'))
        else:
            self.numchecks += 1
            if not bool(cond): self.numfails.append(NumFail(name, f"condition false {note}"))

    def fail(self, name, note=''):
        """this point must be unreachable under the precondition"""
        if self.sym:
            self.obls.append(Obl(name, self._hyps(), z3.BoolVal(False), None, note, 'unreachable'))
        else:
            self.numchecks += 1
            self.numfails.append(NumFail(name, f"reached forbidden point {note}"))

    def eq(self, name, a, b, note='', tol=None, approx=False):
        """a == b (scalars, arrays element-wise, abstract vectors by normal form).
        approx=True: coefficients come from floating-point data; the difference must vanish as a polynomial in the symbols
        up to the tolerance (decided by the rational-function normaliser)"""
        if isinstance(a, av.AVec) or isinstance(b, av.AVec):
            if not (isinstance(a, av.AVec) and isinstance(b, av.AVec)):
                return self.fail(name, f"abstract/concrete mismatch {type(a).__name__} vs {type(b).__name__}")
            self.obls.append(Obl(name, self._hyps(), a.same(b), None, note, 'eq')); return
        if self.sym:
            fa, fb = _flat(a), _flat(b)
            if fa is None or fb is None or _shape(a) != _shape(b):
                if fa is not None and fb is not None and len(fa) == len(fb) and (len(fa) == 1):
                    pass
                else:
                    return self.obls.append(Obl(name + ':shape', self._hyps(), z3.BoolVal(False), None,
                                                f"shape/type mismatch: {_shape(a)} ({type(a).__name__}) vs {_shape(b)} ({type(b).__name__}) {note}", 'shape'))
            if not core.is_sym(np.asarray(fa, dtype=object)) and not core.is_sym(np.asarray(fb, dtype=object)):
                # closed comparison of two concrete values: numeric, within tolerance
                rt = tol or self.rtol
                ok = all((x == y) or (not (math.isinf(float(x)) or math.isinf(float(y))) and abs(float(x) - float(y)) <= self.atol + rt * max(abs(float(x)), abs(float(y)))) or (math.isnan(float(x)) and math.isnan(float(y)))
                         for x, y in zip(fa, fb))
                self.obls.append(Obl(name, self._hyps(), z3.BoolVal(bool(ok)), None, note + ' (closed numeric comparison)', 'closed')); return
            if approx:
                from . import field
                worst = 0.0; ok = True; why = ''
                for x, y in zip(fa, fb):
                    r, info = field.approx_equal(T(x), T(y), tol or 1e-7)
                    if r is None: ok = None; why = str(info); break
                    if not r: ok = False
                    worst = max(worst, info)
                if ok is None:
                    self.obls.append(Obl(name, self._hyps(), z3.And(*[T(x) == T(y) for x, y in zip(fa, fb)]), None, note + f' (approx fallback: {why})', 'eq')); return
                self.obls.append(Obl(name, self._hyps(), z3.BoolVal(bool(ok)), None, note + f' (polynomial identity up to coefficient tolerance; max relative coefficient deviation {worst:.2e})', 'approx')); return
            conj = [T(x) == T(y) for x, y in zip(fa, fb)]
            if len(conj) <= 4:
                g = z3.And(*conj) if len(conj) != 1 else conj[0]
                self.obls.append(Obl(name, self._hyps(), g, None, note, 'eq'))
            else:
                for k, g in enumerate(conj):
                    self.obls.append(Obl(f"{name}[{k}]", self._hyps(), g, None, note, 'eq'))
        else:
            self.numchecks += 1
            try:
                A = np.asarray(_dense(a), dtype=float); Bv = np.asarray(_dense(b), dtype=float)
            except Exception as e:
                self.numfails.append(NumFail(name, f"not numeric: {type(a).__name__} vs {type(b).__name__}: {e}")); return
            if A.shape != Bv.shape and not (A.size == 1 and Bv.size == 1):
                self.numfails.append(NumFail(name, f"shape {A.shape} vs {Bv.shape}")); return
            A = A.reshape(-1); Bv = Bv.reshape(-1)
            rt = tol or self.rtol
            for k, (x, y) in enumerate(zip(A, Bv)):
                if math.isnan(x) and math.isnan(y): continue
                if x == y: continue
                if math.isinf(x) or math.isinf(y) or not (abs(x - y) <= self.atol + rt * max(abs(x), abs(y))):      # an infinite value equals only itself
                    self.numfails.append(NumFail(name, f"[{k}] observed {x!r} expected {y!r}")); return

    def expect_raise(self, name, fn, exc=Exception, note=''):
        """fn() must raise on every path"""
        try:
            r = fn()
        except (core.Abort, core.Concretised, Reject):
            raise
        except exc as e:
            if self.sym and not _raised_by_repo_or_contract(e):
                raise core.Concretised(f"engine-level exception inside expect_raise: {type(e).__name__}: {e}")
            if not self.sym: self.numchecks += 1
            else: self.obls.append(Obl(name, self._hyps(), z3.BoolVal(True), None, note, 'raises'))
            return True
        self.fail(name, f"no exception raised; returned {type(r).__name__} {note}")
        return False

    def no_raise(self, name, fn, note=''):
        try:
            return fn()
        except (core.Abort, core.Concretised, Reject):
            raise
        except Exception as e:
            if self.sym and not _raised_by_repo_or_contract(e):
                raise core.Concretised(f"engine-level exception inside no_raise: {type(e).__name__}: {e}")
            self.fail(name, f"raised {type(e).__name__}: {e} {note}")
            return None


def _raised_by_repo_or_contract(e):
    """innermost Python frame of the traceback lies in the repository under verification or in a contract stub"""
    tb = e.__traceback__; last = None
    while tb is not None: last = tb; tb = tb.tb_next
    if last is None: return True
    fn = os.path.abspath(last.tb_frame.f_code.co_filename)
    repo = os.path.abspath(os.environ.get('VERIF_REPO', '/repo'))
    return fn.startswith(repo + os.sep) or (os.sep + 'contracts' + os.sep) in fn


def _b(c):
    if isinstance(c, SBool): return c.t
    if isinstance(c, z3.ExprRef): return c
    if isinstance(c, (bool, np.bool_)): return z3.BoolVal(bool(c))
    if isinstance(c, np.ndarray) and c.size == 1: return _b(c.reshape(-1)[0])
    raise TypeError(f"not a condition: {type(c)}")


def _dense(a):
    if hasattr(a, 'toarray'): return a.toarray()
    if hasattr(a, 'to_numpy'): return a.to_numpy()
    return a


def _shape(a):
    a = _dense(a)
    if isinstance(a, np.ndarray): return tuple(a.shape)
    if isinstance(a, (list, tuple)): return np.asarray(a, dtype=object).shape
    return ()


def _flat(a):
    a = _dense(a)
    if isinstance(a, (SReal, SBool, int, float, np.integer, np.floating)): return [a]
    if isinstance(a, np.ndarray): return list(a.reshape(-1))
    if isinstance(a, (list, tuple)): return list(np.asarray(a, dtype=object).reshape(-1))
    if a is None: return None
    return None
