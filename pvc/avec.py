"""abstract vectors of unknown dimension: normal form = linear combination of opaque atoms.
Code that runs on AVec is verified for every dimension at once."""
import z3
import numpy as np
from .core import SReal, SBool, R, T, rv, Concretised, def_sqrt

V = z3.DeclareSort('V')
VADD = z3.Function('vadd', V, V, V)
VSC = z3.Function('vsc', R, V, V)
VZERO = z3.Const('vzero', V)
DOT = z3.Function('dot', V, V, R)


def _is0(c):
    return z3.is_rational_value(c) and c.as_fraction() == 0


class AVec:
    """sum_k coef_k * atom_k ; atoms are z3 consts/apps of sort V; coefs z3 Real terms.
    comb maps atom-id -> (atom, coef) so that atoms are compared as z3 terms."""
    __array_ufunc__ = None
    __array_priority__ = 2000

    def __init__(self, comb=None):
        self.comb = {}
        if comb:
            for a, c in (comb.values() if isinstance(comb, dict) else comb):
                self._acc(a, c)
            self._norm()

    def _acc(self, a, c):
        k = a.get_id()
        if k in self.comb: self.comb[k] = (a, self.comb[k][1] + c)
        else: self.comb[k] = (a, c)

    def _norm(self):
        for k in list(self.comb):
            a, c = self.comb[k]
            c = z3.simplify(c)
            if _is0(c): del self.comb[k]
            else: self.comb[k] = (a, c)

    @staticmethod
    def atom(name): return AVec([(z3.Const(name, V), z3.RealVal(1))])
    @staticmethod
    def zero(): return AVec()

    def items(self): return list(self.comb.values())

    def term(self):
        items = sorted(self.comb.values(), key=lambda ac: str(ac[0]))
        t = None
        for a, c in items:
            e = a if (z3.is_rational_value(c) and c.as_fraction() == 1) else VSC(c, a)
            t = e if t is None else VADD(t, e)
        return VZERO if t is None else t

    def _lin(self, o, so, oo):
        if isinstance(o, (int, float)) and o == 0: o = AVec()
        if not isinstance(o, AVec): return NotImplemented
        r = AVec()
        for a, c in self.comb.values(): r._acc(a, so * c)
        for a, c in o.comb.values(): r._acc(a, oo * c)
        r._norm(); return r

    def __add__(s, o): return s._lin(o, 1, 1)
    __radd__ = __add__
    def __sub__(s, o): return s._lin(o, 1, -1)
    def __rsub__(s, o):
        if isinstance(o, (int, float)) and o == 0: return -s
        return o._lin(s, 1, -1) if isinstance(o, AVec) else NotImplemented
    def __neg__(s): return AVec([(a, -c) for a, c in s.comb.values()])
    def __pos__(s): return s
    def __mul__(s, o):
        if isinstance(o, AVec): raise Concretised("component-wise product of abstract vectors")
        try: o = SReal.lift(o)
        except TypeError: return NotImplemented
        return AVec([(a, c * o.t) for a, c in s.comb.values()])
    __rmul__ = __mul__
    def __truediv__(s, o):
        o = SReal.lift(o); return AVec([(a, c / o.t) for a, c in s.comb.values()])
    def __matmul__(s, o):
        if not isinstance(o, AVec): return NotImplemented
        tot = z3.RealVal(0)
        for a, c in s.comb.values():
            for b, d in o.comb.values():
                p, q = sorted([a, b], key=lambda e: e.get_id())
                tot = tot + c * d * DOT(p, q)
        return SReal(tot)
    __rmatmul__ = __matmul__
    def dot(s, o): return s @ o
    def copy(s): return AVec(list(s.comb.values()))
    def __copy__(s): return s.copy()
    def __deepcopy__(s, memo): return s.copy()
    def flatten(s, *a, **k): return s
    ravel = flatten
    def reshape(s, *a, **k): return s
    def squeeze(s): return s
    def to_numpy(s): return s
    @property
    def T(s): return s
    def __iadd__(s, o):
        r = s + o; s.comb = r.comb; return s
    def __isub__(s, o):
        r = s - o; s.comb = r.comb; return s
    def __imul__(s, o):
        r = s * o; s.comb = r.comb; return s
    def __len__(s): raise Concretised("len() of abstract vector")
    def __iter__(s): raise Concretised("iteration over abstract vector")
    def __getitem__(s, k): raise Concretised("component of abstract vector")
    def __setitem__(s, k, v): raise Concretised("component of abstract vector")
    @property
    def shape(s): raise Concretised("shape of abstract vector")
    @property
    def size(s):
        from .shims import ADIM                       # the number of components is the (one) unknown dimension
        return ADIM
    ndim = 1
    def same(s, o):
        """z3 Bool: the two abstract vectors have the same normal form"""
        keys = set(s.comb) | set(o.comb)
        cs = []
        for k in keys:
            a = s.comb[k][1] if k in s.comb else z3.RealVal(0)
            b = o.comb[k][1] if k in o.comb else z3.RealVal(0)
            cs.append(a == b)
        return z3.And(*cs) if cs else z3.BoolVal(True)
    def __repr__(s): return f"AVec({s.term()})"


def norm(v):
    """Euclidean norm of an abstract vector (definitional square root of v.v)"""
    return SReal(def_sqrt((v @ v).t))


def vfun(name):
    """uninterpreted function V -> R applied to AVec"""
    f = z3.Function('uf_' + name, V, R)
    return lambda v: SReal(f(v.term()))


def vvfun(name):
    """uninterpreted function V -> V"""
    f = z3.Function('uf_' + name, V, V)
    return lambda v: AVec([(f(v.term()), z3.RealVal(1))])


class ALin:
    """abstract linear operator between abstract spaces with a transpose: distributes over combos.
    <A a, b> = <a, A^T b> is applied as a rewrite in `adj_facts` (ground instances)."""
    def __init__(self, name):
        self.name = name
        self.f = z3.Function('lin_' + name, V, V); self.ft = z3.Function('lin_' + name + "_T", V, V)
    def apply(self, v, tr=False):
        f = self.ft if tr else self.f
        return AVec([(f(a), c) for a, c in v.comb.values()])
    def __call__(self, v): return self.apply(v, False)
    @property
    def T(self):
        o = ALin.__new__(ALin); o.name = self.name + '_T'; o.f = self.ft; o.ft = self.f; return o
    def __matmul__(self, v): return self.apply(v, False)


class AMat:
    """abstract matrix (no __call__): supports `M @ v` and `M.T @ v` on abstract vectors"""
    def __init__(self, lin): self.lin = lin
    def __matmul__(self, v): return self.lin.apply(v, False)
    def dot(self, v): return self.lin.apply(v, False)
    @property
    def T(self): return AMat(self.lin.T)
