"""Rational-function normaliser: decides equalities of terms built from + - * / numerals, variables and opaque
atoms, modulo the defining equations r*r = t of the definitional square-root symbols.  An equality is proved
when  num(lhs - rhs)  reduces to the zero polynomial; every denominator met on the way is returned so that the
caller can discharge `den != 0` with the SMT solver (division safety).  Incomplete (opaque atoms are compared
syntactically), never used to refute.  Part of the trusted base (like the differentiator)."""
from fractions import Fraction
import z3
from . import core


class TooBig(Exception):
    pass


LIMIT = 60000      # monomials


class Poly:
    __slots__ = ('d',)
    def __init__(self, d=None): self.d = d or {}
    @staticmethod
    def const(c):
        c = Fraction(c)
        return Poly({(): c} if c != 0 else {})
    @staticmethod
    def var(k): return Poly({((k, 1),): Fraction(1)})
    def is_zero(self): return not self.d
    def is_one(self): return len(self.d) == 1 and self.d.get(()) == 1
    def __add__(self, o):
        r = dict(self.d)
        for m, c in o.d.items():
            v = r.get(m, 0) + c
            if v == 0: r.pop(m, None)
            else: r[m] = v
        return Poly(r)
    def __neg__(self): return Poly({m: -c for m, c in self.d.items()})
    def __sub__(self, o): return self + (-o)
    def __mul__(self, o):
        if len(self.d) * len(o.d) > LIMIT * 20: raise TooBig()
        r = {}
        for m1, c1 in self.d.items():
            for m2, c2 in o.d.items():
                m = _mmul(m1, m2)
                v = r.get(m, 0) + c1 * c2
                if v == 0: r.pop(m, None)
                else: r[m] = v
        if len(r) > LIMIT: raise TooBig()
        return Poly(r)
    def __eq__(self, o): return self.d == o.d
    def __hash__(self): return hash(frozenset(self.d.items()))
    def pow(self, n):
        r = Poly.const(1)
        for _ in range(n): r = r * self
        return r
    def vars(self):
        s = set()
        for m in self.d:
            for k, _ in m: s.add(k)
        return s


def _mmul(m1, m2):
    if not m1: return m2
    if not m2: return m1
    d = dict(m1)
    for k, p in m2: d[k] = d.get(k, 0) + p
    return tuple(sorted(d.items()))


class Rat:
    __slots__ = ('n', 'd')
    def __init__(self, n, d=None): self.n = n; self.d = d or Poly.const(1)
    def __add__(self, o):
        if self.d == o.d: return Rat(self.n + o.n, self.d)
        if self.d.is_one(): return Rat(self.n * o.d + o.n, o.d)
        if o.d.is_one(): return Rat(self.n + o.n * self.d, self.d)
        return Rat(self.n * o.d + o.n * self.d, self.d * o.d)
    def __neg__(self): return Rat(-self.n, self.d)
    def __sub__(self, o): return self + (-o)
    def __mul__(self, o):
        if self.d == o.n and not self.d.is_one(): return Rat(self.n, o.d)
        if o.d == self.n and not o.d.is_one(): return Rat(o.n, self.d)
        return Rat(self.n * o.n, self.d * o.d if not (self.d.is_one() and o.d.is_one()) else Poly.const(1))
    def inv(self): return Rat(self.d, self.n)


class Normaliser:
    def __init__(self, sub=None):
        self.sub = sub or []   # substitution (from hypotheses) applied to the radicands of sqrt symbols as well
        self.atoms = {}        # z3 id -> (index, term)
        self.memo = {}
        self.dens = {}         # denominators met (as z3 terms, by id)
        self.sq = {}           # atom index of a sqrt symbol -> radicand Rat
        self.rules = None      # (i, j) atom-index pair -> Poly: the product atom_i*atom_j may be replaced by the polynomial

    def atom(self, t):
        k = t.get_id()
        if k not in self.atoms: self.atoms[k] = (len(self.atoms), t)
        return self.atoms[k][0]

    def norm(self, t):
        k = t.get_id()
        if k in self.memo: return self.memo[k]
        r = self._norm(t)
        self.memo[k] = r
        return r

    def _norm(self, t):
        if z3.is_rational_value(t): return Rat(Poly.const(t.as_fraction()))
        if z3.is_app(t):
            kind = t.decl().kind(); ch = t.children()
            if kind == z3.Z3_OP_ADD:
                r = self.norm(ch[0])
                for c in ch[1:]: r = r + self.norm(c)
                return r
            if kind == z3.Z3_OP_SUB:
                r = self.norm(ch[0])
                for c in ch[1:]: r = r - self.norm(c)
                return r
            if kind == z3.Z3_OP_UMINUS: return -self.norm(ch[0])
            if kind == z3.Z3_OP_MUL:
                r = self.norm(ch[0])
                for c in ch[1:]: r = r * self.norm(c)
                return r
            if kind == z3.Z3_OP_DIV:
                self.dens[ch[1].get_id()] = ch[1]
                return self.norm(ch[0]) * self.norm(ch[1]).inv()
            if kind == z3.Z3_OP_POWER and z3.is_rational_value(ch[1]) and ch[1].as_fraction().denominator == 1:
                n = int(ch[1].as_fraction()); b = self.norm(ch[0])
                if n < 0:
                    self.dens[ch[0].get_id()] = ch[0]; b = b.inv(); n = -n
                r = Rat(Poly.const(1))
                for _ in range(n): r = r * b
                return r
            if z3.is_const(t) and t.get_id() in core.SQRT_OF:
                i = self.atom(t)
                if i not in self.sq:
                    self.sq[i] = None
                    rad = core.SQRT_OF[t.get_id()]
                    if self.sub: rad = z3.substitute(rad, *self.sub)
                    self.sq[i] = self.norm(rad)
                return Rat(Poly.var(i))
        return Rat(Poly.var(self.atom(t)))

    def _load_rules(self):
        """product rewrite rules registered by dependency contracts (core.PRODUCT_RULES: hypotheses `a*b == rhs` over constants)"""
        self.rules = {}
        for (ta, tb, rhs) in core.PRODUCT_RULES:
            ka, kb = ta.get_id(), tb.get_id()
            if ka not in self.atoms or kb not in self.atoms: continue       # a rule about symbols that do not occur
            r = self.norm(rhs)
            if not r.d.is_one(): continue
            i, j = self.atoms[ka][0], self.atoms[kb][0]
            self.rules[(min(i, j), max(i, j))] = r.n

    def apply_rules(self, p):
        """rewrite every monomial containing a registered product a*b (each to the first power) by its right-hand side; the rules
        come from hypotheses, so the value of p under the hypotheses is unchanged"""
        if not core.PRODUCT_RULES: return p
        for _ in range(64):
            self._load_rules()
            if not self.rules: return p
            out = Poly(); hit = False
            for m, c in p.d.items():
                dm = dict(m); done = False
                for (i, j), rhs in self.rules.items():
                    if dm.get(i, 0) >= 1 and dm.get(j, 0) >= 1 and i != j:
                        rest = dict(dm); rest[i] -= 1; rest[j] -= 1
                        rest = tuple(sorted((k, e) for k, e in rest.items() if e > 0))
                        out = out + Poly({rest: c}) * rhs
                        done = True; hit = True; break
                if not done: out = out + Poly({m: c})
            p = out
            if not hit: return p
        raise TooBig()

    def reduce(self, p):
        """reduce powers of sqrt symbols in polynomial p modulo r^2 = tn/td (result is p times a nonzero factor)"""
        p = self.apply_rules(p)
        changed = True
        guard = 0
        while changed:
            changed = False; guard += 1
            if guard > 40: raise TooBig()
            for i in sorted(self.sq, reverse=True):
                rad = self.sq[i]
                if rad is None: continue
                K = 0
                for m in p.d:
                    for k, e in m:
                        if k == i and e >= 2: K = max(K, e // 2)
                if K == 0: continue
                changed = True
                tn, td = rad.n, rad.d
                pw_n = [Poly.const(1)]; pw_d = [Poly.const(1)]
                for _ in range(K): pw_n.append(pw_n[-1] * tn); pw_d.append(pw_d[-1] * td)
                out = Poly()
                groups = {}
                for m, c in p.d.items():
                    e = dict(m).get(i, 0)
                    rest = tuple((k, q) for k, q in m if k != i)
                    if e % 2: rest = tuple(sorted(rest + ((i, 1),)))
                    groups.setdefault(e // 2, {})[rest] = groups.setdefault(e // 2, {}).get(rest, 0) + c
                for h, g in groups.items():
                    g = {m: c for m, c in g.items() if c != 0}
                    out = out + Poly(g) * pw_n[h] * pw_d[K - h]
                p = out
        return self.apply_rules(p)


def prove_eq(goal, sub=None):
    """goal: z3 equality (or conjunction of equalities) of Real terms.  returns (True, [denominator terms]) or (False, reason)"""
    eqs = []
    def collect(g):
        if z3.is_and(g):
            for c in g.children(): collect(c)
        elif z3.is_eq(g) and g.arg(0).sort() == core.R: eqs.append(g)
        elif z3.is_true(g): pass
        else: raise ValueError("not an equality")
    try:
        collect(goal)
    except ValueError as e:
        return False, str(e)
    if not eqs: return False, 'no equalities'
    N = Normaliser(sub)
    try:
        for e in eqs:
            l, r = N.norm(e.arg(0)), N.norm(e.arg(1))
            num = l.n * r.d - r.n * l.d
            num = N.reduce(num)
            if not num.is_zero(): return False, 'numerator does not reduce to zero'
    except TooBig:
        return False, 'too big'
    except RecursionError:
        return False, 'recursion'
    return True, list(N.dens.values())


def approx_zero(term, tol=1e-7):
    """is the rational function `term` identically zero up to coefficient tolerance?  (float-derived coefficients:
    exact rational identity is too strict).  Denominator must reduce to a non-zero constant.  -> (ok, max |coef|)"""
    N = Normaliser()
    try:
        r = N.norm(term)
        num = N.reduce(r.n)
    except (TooBig, RecursionError):
        return None, 'too big'
    if any(m != () for m in r.d.d):
        return None, 'non-constant denominator'
    d0 = float(r.d.d.get((), 0))
    if d0 == 0: return None, 'zero denominator'
    worst = max([abs(float(c)) / abs(d0) for c in num.d.values()] + [0.0])
    return worst <= tol, worst


def approx_equal(lhs, rhs, tol=1e-7):
    """coefficient-wise comparison (relative tolerance) of two polynomial terms with float-derived coefficients"""
    N = Normaliser()
    try:
        a, b = N.norm(lhs), N.norm(rhs)
        an, bn = N.reduce(a.n), N.reduce(b.n)
    except (TooBig, RecursionError):
        return None, 'too big'
    for r in (a, b):
        if any(m != () for m in r.d.d): return None, 'non-constant denominator'
    da, db = float(a.d.d.get((), 0)), float(b.d.d.get((), 0))
    if da == 0 or db == 0: return None, 'zero denominator'
    worst = 0.0
    for m in set(an.d) | set(bn.d):
        x = float(an.d.get(m, 0)) / da; y = float(bn.d.get(m, 0)) / db
        rel = abs(x - y) / max(abs(x), abs(y), 1.0)
        worst = max(worst, rel)
    return worst <= tol, worst
