"""symbolic integers and ghost containers: arrays of symbolic shape whose subscripts are recorded as terms,
and append-only ghost sequences with an access log."""
import z3
import numpy as np
from .core import SBool, decide, Concretised

I = z3.IntSort()


class SInt:
    __slots__ = ('t',)
    def __init__(self, t): self.t = t if isinstance(t, z3.ExprRef) else z3.IntVal(int(t))
    @staticmethod
    def lift(v):
        if isinstance(v, SInt): return v
        if isinstance(v, (bool, np.bool_)): raise TypeError
        if isinstance(v, (int, np.integer)): return SInt(z3.IntVal(int(v)))
        raise TypeError(type(v))
    def _b(s, o, f):
        try: o = SInt.lift(o)
        except TypeError: return NotImplemented
        return SInt(f(s.t, o.t))
    def _c(s, o, f):
        try: o = SInt.lift(o)
        except TypeError: return NotImplemented
        return SBool(f(s.t, o.t))
    def __add__(s, o): return s._b(o, lambda a, b: a + b)
    __radd__ = __add__
    def __sub__(s, o): return s._b(o, lambda a, b: a - b)
    def __rsub__(s, o): return s._b(o, lambda a, b: b - a)
    def __mul__(s, o): return s._b(o, lambda a, b: a * b)
    __rmul__ = __mul__
    def __floordiv__(s, o): return s._b(o, lambda a, b: a / b)
    def __mod__(s, o): return s._b(o, lambda a, b: a % b)
    def __neg__(s): return SInt(-s.t)
    def __lt__(s, o): return s._c(o, lambda a, b: a < b)
    def __le__(s, o): return s._c(o, lambda a, b: a <= b)
    def __gt__(s, o): return s._c(o, lambda a, b: a > b)
    def __ge__(s, o): return s._c(o, lambda a, b: a >= b)
    def __eq__(s, o): return s._c(o, lambda a, b: a == b)
    def __ne__(s, o): return s._c(o, lambda a, b: a != b)
    __hash__ = object.__hash__
    def __index__(s): raise Concretised("symbolic integer used as a concrete index")
    def __int__(s): raise Concretised("int() of symbolic integer")
    def __bool__(s): return decide(s.t != 0)
    def __repr__(s): return f"SInt({z3.simplify(s.t)})"


def sint(name): return SInt(z3.Int(name))


class GhostArray:
    """array of symbolic shape with opaque content.  Subscripts are recorded, never evaluated."""
    def __init__(self, name, shape, base=None, subs=()):
        self.name = name; self._shape = tuple(shape); self.base = base if base is not None else self; self.subs = tuple(subs)
    @property
    def shape(self): return self._shape
    @property
    def ndim(self): return len(self._shape)
    def __getitem__(self, key):
        return GhostArray(self.name, self._shape[:-1] + (SInt(z3.FreshInt('len')),), self.base, self.subs + (key,))
    def __setitem__(self, key, v): raise Concretised("write into ghost array")
    def __len__(self): raise Concretised("len() of ghost array")
    def __iter__(self): raise Concretised("iteration over ghost array")
    def __array__(self, *a, **k): raise Concretised("ghost array converted to numpy")
    def __repr__(self): return f"GhostArray({self.name}{list(self.subs)})"


class GhostSeq(list):
    """append-only history with opaque entries: a real list (so that len/slices are Python's) plus an access log"""
    def __init__(self, items=(), log=None):
        super().__init__(items); self.log = log if log is not None else []
    def append(self, v): self.log.append(('append', v)); super().append(v)
    def __getitem__(self, k): self.log.append(('getitem', k)); return super().__getitem__(k)
    def __setitem__(self, k, v): self.log.append(('setitem', k, v)); super().__setitem__(k, v)
    def __delitem__(self, k): self.log.append(('delitem', k)); super().__delitem__(k)
    def pop(self, *a): self.log.append(('pop',) + a); return super().pop(*a)
    def insert(self, i, v): self.log.append(('insert', i, v)); super().insert(i, v)
    def extend(self, it): self.log.append(('extend',)); super().extend(it)
    def clear(self): self.log.append(('clear',)); super().clear()
    def mutations(self): return [e for e in self.log if e[0] not in ('getitem',)]
