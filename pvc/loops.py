"""Mechanical loop extraction.  On every run the k-th top-level `while`/`for` of a real function is
split into  pre (statements before the loop) / cond / body / post ; each piece is compiled into a function
over the dictionary of the enclosing function's local names and executed against the function's *live*
globals.  Nothing is dropped from the statements; added: load/store of locals; `return e` inside a piece
becomes ('__ret', e); `break`/`continue` directly inside the loop body become ('__break', locals) /
('__next', locals).  Not preserved: try/finally or `with` spanning the cut, generators, nonlocal."""
import ast, inspect, textwrap


class NotExtractable(Exception):
    pass


def _find_loops(body, path=()):
    out = []
    for i, st in enumerate(body):
        if isinstance(st, (ast.While, ast.For)):
            out.append((path + (i,), st))
    return out


_CTR = [0]
ANCHORS = {}        # set by the runner from baseline/<property>.json: qualified name -> dict(canon=..., names=[...]) of the tree the contracts were written against
SEEN = {}           # what this run saw (written back by --update-baseline)


def _canon(fn):
    """(hash of the function's AST with every local name replaced by its first-occurrence index, the local names in that order).
    Two functions with the same hash differ only by a consistent renaming of locals / parameters."""
    import hashlib, copy
    params = [a.arg for a in ast.walk(fn) if isinstance(a, ast.arg)]
    local = {n.id for n in ast.walk(fn) if isinstance(n, ast.Name) and isinstance(n.ctx, (ast.Store, ast.Del))} | set(params)
    occ = sorted(((n.lineno, n.col_offset, n.id if isinstance(n, ast.Name) else n.arg) for n in ast.walk(fn)
                  if (isinstance(n, ast.Name) and n.id in local) or (isinstance(n, ast.arg) and n.arg in local)))
    order = []
    for _, _, nm in occ:
        if nm not in order: order.append(nm)
    idx = {nm: f"v{i}" for i, nm in enumerate(order)}
    t = _Rename(idx).visit(copy.deepcopy(fn))
    t.name = '_'
    return hashlib.sha256(ast.dump(t, include_attributes=False).encode()).hexdigest()[:24], order


class _Rename(ast.NodeTransformer):
    def __init__(self, m): self.m = m
    def visit_Name(self, n):
        if n.id in self.m: n.id = self.m[n.id]
        return n
    def visit_arg(self, n):
        if n.arg in self.m: n.arg = self.m[n.arg]
        return n


def _realign(func, fn):
    """if the function differs from the tree the contracts were anchored on ONLY by a consistent renaming of locals, rename them back (alpha
    conversion - mechanical and meaning preserving) so that contracts that address loop-head state by local name keep working"""
    key = f"{func.__module__}:{func.__qualname__}"
    canon, order = _canon(fn)
    SEEN[key] = dict(canon=canon, names=order)
    st = ANCHORS.get(key)
    if st and st['canon'] == canon and st['names'] != order and len(st['names']) == len(order):
        fn = _Rename(dict(zip(order, st['names']))).visit(fn)
    return fn


def split_loop(func, ordinal=0, container=None):
    """returns (pre, cond, body, post, names, info).  Each piece: piece(self_or_None, state_dict, *func_args?)
    All pieces take (st) where st maps local names (incl. parameters, incl. 'self') to values, and return
    ('__next'|'__break'|'__ret', value)."""
    src = textwrap.dedent(inspect.getsource(func))
    fn = _realign(func, ast.parse(src).body[0])
    _CTR[0] += 1
    NM = f"__names_{_CTR[0]}" 
    if any(isinstance(n, (ast.Yield, ast.YieldFrom, ast.Nonlocal)) for n in ast.walk(fn)):
        raise NotExtractable("generator / nonlocal")
    stmts = fn.body
    # optionally descend into a single enclosing `with`/`if`/`for` given by container path (list of indices)
    prefix_stmts = []
    if container:
        for idx in container:
            prefix_stmts += stmts[:idx]
            stmts = stmts[idx].body
    loops = _find_loops(stmts)
    if ordinal >= len(loops): raise NotExtractable(f"loop #{ordinal} not found")
    (li,), loop = loops[ordinal]
    params = [a.arg for a in fn.args.posonlyargs + fn.args.args + fn.args.kwonlyargs]
    if fn.args.vararg: params.append(fn.args.vararg.arg)
    if fn.args.kwarg: params.append(fn.args.kwarg.arg)
    names = sorted({n.id for n in ast.walk(fn) if isinstance(n, ast.Name) and isinstance(n.ctx, ast.Store)} | set(params))

    class RetX(ast.NodeTransformer):
        def __init__(self, in_loop_body): self.depth = 0; self.in_body = in_loop_body
        def visit_Return(self, n):
            return ast.Return(ast.Tuple([ast.Constant('__ret'), n.value or ast.Constant(None)], ast.Load()))
        def visit_FunctionDef(self, n): return n
        def visit_Lambda(self, n): return n
        def visit_While(self, n):
            self.depth += 1; self.generic_visit(n); self.depth -= 1; return n
        visit_For = visit_While
        def visit_Break(self, n):
            if self.in_body and self.depth == 0:
                return ast.parse("return ('__break', {k: v for k, v in locals().items() if k in NMNM})".replace('NMNM', NM)).body[0]
            return n
        def visit_Continue(self, n):
            if self.in_body and self.depth == 0:
                return ast.parse("return ('__next', {k: v for k, v in locals().items() if k in NMNM})".replace('NMNM', NM)).body[0]
            return n

    def mk(name, body_stmts, ret, in_body=False):
        load = [ast.parse(f"if '{n}' in __st: {n} = __st['{n}']").body[0] for n in names]
        tail = ast.parse("return ('__next', {k: v for k, v in locals().items() if k in NMNM})".replace('NMNM', NM) if ret is None else f"return {ret}").body
        args = ast.arguments(posonlyargs=[], args=[ast.arg('__st')], kwonlyargs=[], kw_defaults=[], defaults=[])
        tx = RetX(in_body)
        return ast.FunctionDef(name=name, args=args, body=load + [tx.visit(s) for s in body_stmts] + tail,
                               decorator_list=[], type_params=[])

    info = dict(kind=type(loop).__name__, names=names, lineno=loop.lineno)
    if isinstance(loop, ast.While):
        cond_src = ast.unparse(loop.test)
        pieces = [mk('__pre', prefix_stmts + stmts[:li], None), mk('__cond', [], cond_src),
                  mk('__body', loop.body, None, True), mk('__post', list(loop.orelse) + stmts[li + 1:], None)]
    else:
        # for target in iter: body  -- cond piece returns the iterable; the caller binds the target
        info['target'] = ast.unparse(loop.target); info['iter'] = ast.unparse(loop.iter)
        pieces = [mk('__pre', prefix_stmts + stmts[:li], None), mk('__cond', [], ast.unparse(loop.iter)),
                  mk('__body', loop.body, None, True), mk('__post', list(loop.orelse) + stmts[li + 1:], None)]
    mod = ast.Module(body=pieces, type_ignores=[])
    ast.fix_missing_locations(mod)
    g = func.__globals__
    g[NM] = set(names)
    ns = {}
    exec(compile(mod, f"<loop {func.__qualname__}#{ordinal}>", 'exec'), g, ns)
    return _guard(ns['__pre']), _guard(ns['__cond']), _guard(ns['__body']), _guard(ns['__post']), names, info


class StaleAnchor(Exception):
    """the contract addresses a local variable of the cut function by a name the function no longer has (or does not supply one the
    cut piece needs): the contract is out of date with the code - an undecided outcome, never a violation"""


class LoopState(dict):
    """locals at the cut point, by name"""
    def __missing__(self, k):
        raise StaleAnchor(f"the cut function has no local variable '{k}' at this point (contract anchored on a local name that no longer exists)")


def _guard(piece):
    def run(st):
        try:
            r = piece(st)
        except NameError as e:                          # UnboundLocalError is a NameError
            tb = e.__traceback__
            while tb.tb_next is not None: tb = tb.tb_next
            if tb.tb_frame.f_code.co_filename.startswith('<loop '):
                raise StaleAnchor(f"the cut piece reads local '{getattr(e, 'name', '?')}' which the contract's loop-head state does not supply (local renamed or added)") from e
            raise
        if isinstance(r, tuple) and len(r) == 2 and type(r[1]) is dict: r = (r[0], LoopState(r[1]))
        return r
    run.__name__ = piece.__name__
    return run
