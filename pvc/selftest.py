"""Engine self-test (conformance of the dependency contracts and of the symbolic value classes).

Every case builds symbolic inputs, runs a shim / an operator of the value classes on them, evaluates the resulting TERMS at random
numeric values with an independent evaluator, and compares with what the real library function returns at the same values.
A wrong shim, a wrong operator overload, a wrong definitional square root or a wrong derivative rule shows up as a mismatch here
before any property is looked at.  Run:  .venv/bin/python -m pvc.selftest   (exit 0 = all cases agree)."""
import math, sys, os
import numpy as np
import z3

sys.path.insert(0, os.environ.get('VERIF_REPO', '/repo'))
from . import core, shims, diff, field
from .core import SReal, T


def evalf(t, env):
    """value of a z3 Real/Bool term under env (z3 id of a constant -> float); definitional roots via their radicands"""
    memo = {}
    def ev(t):
        k = t.get_id()
        if k in memo: return memo[k]
        r = _ev(t); memo[k] = r; return r
    def _ev(t):
        if z3.is_rational_value(t): return float(t.as_fraction())
        if z3.is_true(t): return True
        if z3.is_false(t): return False
        if z3.is_const(t) and t.decl().kind() == z3.Z3_OP_UNINTERPRETED:
            if t.get_id() in core.SQRT_OF: return math.sqrt(ev(core.SQRT_OF[t.get_id()]))
            nm = t.decl().name()
            if nm == 'pi': return math.pi
            if nm == 'eps': return float(np.finfo(float).eps)
            return env[nm]
        kind = t.decl().kind(); ch = t.children()
        if kind == z3.Z3_OP_ADD: return sum(ev(c) for c in ch)
        if kind == z3.Z3_OP_SUB:
            r = ev(ch[0])
            for c in ch[1:]: r -= ev(c)
            return r
        if kind == z3.Z3_OP_UMINUS: return -ev(ch[0])
        if kind == z3.Z3_OP_MUL:
            r = 1.0
            for c in ch: r *= ev(c)
            return r
        if kind == z3.Z3_OP_DIV: return ev(ch[0]) / ev(ch[1])
        if kind == z3.Z3_OP_POWER: return ev(ch[0]) ** ev(ch[1])
        if kind == z3.Z3_OP_ITE: return ev(ch[1]) if ev(ch[0]) else ev(ch[2])
        if kind == z3.Z3_OP_LE: return ev(ch[0]) <= ev(ch[1])
        if kind == z3.Z3_OP_LT: return ev(ch[0]) < ev(ch[1])
        if kind == z3.Z3_OP_GE: return ev(ch[0]) >= ev(ch[1])
        if kind == z3.Z3_OP_GT: return ev(ch[0]) > ev(ch[1])
        if kind == z3.Z3_OP_EQ: return ev(ch[0]) == ev(ch[1])
        if kind == z3.Z3_OP_NOT: return not ev(ch[0])
        if kind == z3.Z3_OP_AND: return all(ev(c) for c in ch)
        if kind == z3.Z3_OP_OR: return any(ev(c) for c in ch)
        if kind == z3.Z3_OP_UNINTERPRETED:
            nm = t.decl().name(); a = [ev(c) for c in ch]
            f = {'log': math.log, 'exp': math.exp, 'sin': math.sin, 'cos': math.cos, 'atan': math.atan, 'lgamma': math.lgamma, 'erf': math.erf}.get(nm)
            if f: return f(*a)
        raise NotImplementedError(str(t)[:80])
    return ev(t)


class Case:
    def __init__(self): self.env = {}; self.rng = np.random.default_rng(12345)
    def sym(self, name, lo=-2.0, hi=2.0):
        v = float(self.rng.uniform(lo, hi)); self.env[name] = v
        return SReal(z3.Real(name)), v
    def vec(self, name, n, **kw):
        ps = [self.sym(f'{name}{i}', **kw) for i in range(n)]
        return np.array([p[0] for p in ps], dtype=object), np.array([p[1] for p in ps])
    def mat(self, name, m, n, **kw):
        ps = [[self.sym(f'{name}{i}_{j}', **kw) for j in range(n)] for i in range(m)]
        return np.array([[p[0] for p in r] for r in ps], dtype=object), np.array([[p[1] for p in r] for r in ps])
    def val(self, x):
        if isinstance(x, SReal): return evalf(T(x), self.env)
        if isinstance(x, core.SBool): return bool(evalf(x.t, self.env))
        if isinstance(x, shims.STag): x = x.a
        a = np.asarray(x, dtype=object)
        return np.array([self.val(e) if isinstance(e, (SReal, core.SBool)) else float(e) for e in a.reshape(-1)], dtype=float).reshape(a.shape)


def run():
    NP = shims.NP; fails = []; n_cases = [0]
    def check(name, got, want, tol=1e-9):
        n_cases[0] += 1
        g = np.asarray(got, dtype=float); w = np.asarray(want, dtype=float)
        if g.shape != w.shape or not np.allclose(g, w, rtol=tol, atol=tol):
            fails.append(f"{name}: shim/term value {g.tolist()} vs library {w.tolist()}")
    c = Case()
    core.ST.reset([]); core.ST.defs.clear(); core.SQRT_OF.clear()
    a, av = c.vec('a', 3); b, bv = c.vec('b', 3); p, pv = c.vec('p', 3, lo=0.2, hi=3.0)
    M, Mv = c.mat('M', 3, 3); s, sv = c.sym('s', 0.3, 2.5)
    # ---- value-class operators and the overridden numpy functions
    for nm, f in (('add', lambda x, y: x + y), ('sub', lambda x, y: x - y), ('mul', lambda x, y: x * y), ('div', lambda x, y: x / (y * y + 1)),
                  ('rsub', lambda x, y: 2.5 - x), ('rdiv', lambda x, y: 1.5 / (y * y + 1)), ('neg', lambda x, y: -x), ('pow3', lambda x, y: x ** 3), ('powm2', lambda x, y: (y * y + 1) ** -2)):
        check(f'operator:{nm}', c.val(f(a, b)), f(av, bv))
    check('np.sum', c.val(NP.sum(a * b)), np.sum(av * bv)); check('np.prod', c.val(NP.prod(p)), np.prod(pv))
    check('np.dot', c.val(NP.dot(a, b)), np.dot(av, bv)); check('matmul', c.val(M @ a), Mv @ av); check('matmul.T', c.val(M.T @ M), Mv.T @ Mv)
    check('np.sqrt', c.val(NP.sqrt(p)), np.sqrt(pv)); check('np.log', c.val(NP.log(p)), np.log(pv)); check('np.exp', c.val(NP.exp(a)), np.exp(av))
    check('np.abs', c.val(NP.abs(a)), np.abs(av)); check('np.sign', c.val(NP.sign(a)), np.sign(av))
    check('np.maximum', c.val(NP.maximum(a, b)), np.maximum(av, bv)); check('np.minimum', c.val(NP.minimum(a, 0.3)), np.minimum(av, 0.3))
    check('np.power.int', c.val(NP.power(a, 2)), np.power(av, 2)); check('np.power.half', c.val(NP.power(p, 0.5)), np.power(pv, 0.5))
    check('np.power.symbolic_exponent', c.val(NP.power(p[0], a[0])), np.power(pv[0], av[0]))
    check('np.where', c.val(NP.where(np.array([True, False, True]), a, b)), np.where(np.array([True, False, True]), av, bv))
    check('np.diag', c.val(NP.diag(a)), np.diag(av)); check('np.tril', c.val(NP.tril(M)), np.tril(Mv)); check('np.triu', c.val(NP.triu(M)), np.triu(Mv))
    check('np.max', c.val(NP.max(a)), np.max(av)); check('np.min', c.val(NP.min(a)), np.min(av))
    check('np.inner', c.val(NP.inner(a, b)), np.inner(av, bv))
    check('norm', c.val(NP.linalg.norm(a)), np.linalg.norm(av))
    check('reshape_F', c.val(M.reshape(-1, order='F')), Mv.reshape(-1, order='F'))
    # ---- linear algebra contracts (explicit small-shape forms)
    G, Gv = c.mat('G', 3, 3); SPD = G @ G.T + 0.5 * np.eye(3); SPDv = Gv @ Gv.T + 0.5 * np.eye(3)
    check('linalg.inv', c.val(shims.sym_inv(SPD)), np.linalg.inv(SPDv), 1e-7)
    check('linalg.det', c.val(shims.sym_det(SPD)), np.linalg.det(SPDv), 1e-7)
    check('linalg.solve', c.val(shims.sym_solve(SPD, a)), np.linalg.solve(SPDv, av), 1e-7)
    check('linalg.cholesky', c.val(shims.sym_cholesky(SPD)), np.linalg.cholesky(SPDv), 1e-7)
    check('linalg.inv2', c.val(shims.sym_inv(SPD[:2, :2])), np.linalg.inv(SPDv[:2, :2]), 1e-7)
    import scipy.linalg
    Lw = np.tril(SPD); Lwv = np.tril(SPDv)
    check('solve_triangular.lower', c.val(shims.sym_solve_triangular(SPD, a, lower=True)), scipy.linalg.solve_triangular(SPDv, av, lower=True), 1e-7)
    check('solve_triangular.upper.trans', c.val(shims.sym_solve_triangular(SPD, a, lower=False, trans=1)), scipy.linalg.solve_triangular(SPDv, av, lower=False, trans=1), 1e-7)
    # ---- scipy.stats laws (textbook formulas of the shims) against scipy
    import scipy.stats as st
    sps = shims.SPS()
    x, xv = c.sym('x', 0.2, 2.0); al, alv = c.sym('al', 0.5, 4.0); be, bev = c.sym('be', 0.5, 4.0); u, uv = c.sym('u', 0.05, 0.95)
    check('gamma.logpdf', c.val(sps.gamma.logpdf(x, a=al, loc=0, scale=1 / be)), st.gamma.logpdf(xv, a=alv, loc=0, scale=1 / bev), 1e-8)
    check('invgamma.logpdf', c.val(sps.invgamma.logpdf(x, a=al, loc=0, scale=be)), st.invgamma.logpdf(xv, a=alv, loc=0, scale=bev), 1e-8)
    check('beta.logpdf', c.val(sps.beta.logpdf(u, a=al, b=be)), st.beta.logpdf(uv, a=alv, b=bev), 1e-8)
    check('cauchy.logpdf', c.val(sps.cauchy.logpdf(x, loc=al, scale=be)), st.cauchy.logpdf(xv, loc=alv, scale=bev), 1e-8)
    check('cauchy.cdf', c.val(sps.cauchy.cdf(x, loc=al, scale=be)), st.cauchy.cdf(xv, loc=alv, scale=bev), 1e-8)
    check('erf', c.val(shims.erf_shim(a[0])), math.erf(av[0]))
    # ---- convolution and the DST pair
    import scipy.signal, scipy.fftpack
    K, Kv = c.mat('K', 2, 2); I2, I2v = c.mat('I', 3, 3)
    for mode in ('full', 'valid', 'same'):
        check(f'fftconvolve.{mode}', c.val(shims.fftconvolve_shim(I2, K, mode=mode)), scipy.signal.fftconvolve(I2v, Kv, mode=mode), 1e-8)
    # the DST pair is a contract over symbolic matrices: instantiate S with the real idst matrix, R with its inverse / 2N, and check
    # that the contract's hypotheses R S = I hold for the real pair and that the real pair is linear along the last axis
    N = 5; E = np.eye(N)
    Sreal = np.array([scipy.fftpack.idst(E[k]) for k in range(N)]).T
    Dreal = np.array([scipy.fftpack.dst(E[k]) for k in range(N)]).T
    check('dst_pair.contract_R_S_is_identity_for_scipy', (Dreal / (2 * N)) @ Sreal, np.eye(N), 1e-9)
    z = c.rng.standard_normal((2, N))
    check('dst_pair.idst_linear_along_last_axis', scipy.fftpack.idst(z), z @ Sreal.T, 1e-9)
    check('dst_pair.dst_linear_along_last_axis', scipy.fftpack.dst(z), z @ Dreal.T, 1e-9)
    # ---- term differentiation against central differences
    f = lambda v: (v[0] * v[1] + NP.log(v[2] * v[2] + 1.0)) * NP.exp(v[0] / 3) + NP.sqrt(v[1] * v[1] + 2.0) / (1.0 + v[2] * v[2]) + (v[0] ** 3)
    w, wv = c.vec('w', 3, lo=0.3, hi=1.5)
    g = diff.grad(f(w), list(w))
    fnum = lambda vv: (vv[0] * vv[1] + math.log(vv[2] ** 2 + 1)) * math.exp(vv[0] / 3) + math.sqrt(vv[1] ** 2 + 2) / (1 + vv[2] ** 2) + vv[0] ** 3
    gnum = []
    for i in range(3):
        e = np.zeros(3); e[i] = 1e-6; gnum.append((fnum(wv + e) - fnum(wv - e)) / 2e-6)
    check('term_differentiation', c.val(np.array(g, dtype=object)), gnum, 1e-6)
    # ---- rational-function normaliser: a true identity is proved, a false one is not
    q1 = T((a[0] + a[1]) ** 2 / (p[0] * p[1])); q2 = T((a[0] * a[0] + 2 * a[0] * a[1] + a[1] * a[1]) / p[1] / p[0])
    ok, _ = field.prove_eq(q1 == q2); n_cases[0] += 1
    if not ok: fails.append('normaliser: did not prove a true rational identity')
    ok, _ = field.prove_eq(q1 == q2 + 1); n_cases[0] += 1
    if ok: fails.append('normaliser: PROVED A FALSE IDENTITY')
    r = p[0].sqrt()
    ok, _ = field.prove_eq(T(r * r * r) == T(p[0] * r)); n_cases[0] += 1
    if not ok: fails.append('normaliser: sqrt reduction failed')
    ok, _ = field.prove_eq(T(r * r) == T(p[0] + 1)); n_cases[0] += 1
    if ok: fails.append('normaliser: PROVED A FALSE SQRT IDENTITY')
    # ---- prover: a valid and an invalid obligation
    v1 = core.prove([T(p[0]) > 0], T(p[0] * p[0]) > 0); n_cases[0] += 1
    if v1.status != 'proved': fails.append(f'prove: valid obligation not proved ({v1.status})')
    v2 = core.prove([], T(a[0] * a[0]) > 0); n_cases[0] += 1
    if v2.status != 'refuted': fails.append(f'prove: invalid obligation not refuted ({v2.status})')
    # ---- numeric twin comparator: agreeing values pass, disagreeing ones fail - including infinite and NaN values
    from .ctx import Ctx
    def twin_fails(a_, b_, tol=None):
        cx = Ctx('num', rng=np.random.default_rng(0)); cx.begin_path(); cx.eq('t', a_, b_, tol=tol); return len(cx.numfails)
    for nm, a_, b_, want in (('equal', np.array([1.0, 2.0]), np.array([1.0, 2.0 + 1e-12]), 0), ('different', np.array([1.0, 2.0]), np.array([1.0, 2.1]), 1),
                             ('minus_inf_vs_finite', -np.inf, -3.0, 1), ('finite_vs_inf', np.array([1.0, 5.0]), np.array([1.0, np.inf]), 1), ('inf_vs_inf', np.inf, np.inf, 0),
                             ('inf_vs_minus_inf', np.inf, -np.inf, 1), ('nan_vs_nan', np.nan, np.nan, 0), ('nan_vs_finite', np.nan, 1.0, 1), ('shape', np.ones(2), np.ones(3), 1)):
        n_cases[0] += 1
        if twin_fails(a_, b_) != want: fails.append(f'numeric twin comparator: case {nm} gave {twin_fails(a_, b_)} failures, expected {want}')
    cx = Ctx('num', rng=np.random.default_rng(0)); n_cases[0] += 1
    if cx.close(-np.inf, 2.0) or not cx.close(2.0, 2.0 + 1e-13): fails.append('numeric twin close(): infinite value close to a finite one')
    # ---- loop cutting: re-alignment of renamed locals accepts pure renamings only
    import ast as _ast
    from . import loops as _loops
    f0 = _ast.parse("def f(self, n):\n    acc = 0\n    for k in range(n):\n        t = k * 2\n        acc += t\n    return acc").body[0]
    f1 = _ast.parse("def f(self, m):\n    total = 0\n    for i in range(m):\n        u = i * 2\n        total += u\n    return total").body[0]
    f2 = _ast.parse("def f(self, n):\n    acc = 0\n    for k in range(n):\n        t = k * 2\n        acc += k\n    return acc").body[0]
    f3 = _ast.parse("def f(self, n):\n    acc = 0\n    for k in range(n):\n        t = acc * 2\n        acc += t\n    return acc").body[0]
    c0, o0 = _loops._canon(f0); c1, o1 = _loops._canon(f1); c2, _o2 = _loops._canon(f2); c3, _o3 = _loops._canon(f3)
    n_cases[0] += 4
    if c0 != c1: fails.append('loops: a pure renaming of locals changed the canonical form')
    if o0 != ['self', 'n', 'acc', 'k', 't'] or o1 != ['self', 'm', 'total', 'i', 'u']: fails.append(f'loops: local order {o0} {o1}')
    if c0 == c2: fails.append('loops: A DIFFERENT DATA FLOW HAS THE SAME CANONICAL FORM')
    if c0 == c3: fails.append('loops: A DIFFERENT DATA FLOW (swapped variable) HAS THE SAME CANONICAL FORM')
    return n_cases[0], fails


if __name__ == '__main__':
    n, fails = run()
    for f in fails: print('SELFTEST-MISMATCH', f)
    print(f'selftest: {n} cases, {len(fails)} mismatches')
    sys.exit(1 if fails else 0)
