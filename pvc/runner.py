"""Job runner: generates obligations from the real code (symbolic exploration of sidecar contracts),
discharges them, replays refutations natively, applies the verdict policy, writes evidence."""
import os, sys, json, time, hashlib, inspect, traceback, signal, re, importlib, math, subprocess
import multiprocessing as mp
import numpy as np
import z3

VERIF = os.path.dirname(os.path.dirname(os.path.abspath(__file__)))
REPO = os.environ.get('VERIF_REPO', '/repo')


class Job:
    def __init__(self, id, fn, level='Pbox', functions=(), extra=None, tiers=('quick', 'thorough'), num=True,
                 numdim=4, timeout=600, maxpaths=512, rtol=1e-6, atol=1e-8, nnum=None, assumptions=(), setup=None,
                 rlimit=None, allow_exc=False, pre=None):
        self.allow_exc = allow_exc; self.pre = pre
        self.id = id; self.fn = fn; self.level = level; self.functions = list(functions)
        self.extra = extra; self.tiers = tiers; self.num = num; self.numdim = numdim
        self.timeout = timeout; self.maxpaths = maxpaths; self.rtol = rtol; self.atol = atol
        self.nnum = nnum; self.assumptions = list(assumptions); self.setup = setup; self.rlimit = rlimit


def _load_contracts(prop):
    sys.path.insert(0, VERIF) if VERIF not in sys.path else None
    return importlib.import_module(f"contracts.{prop}")


def _src_hash(qualname):
    """source hash of a function given as 'module:Class.func'"""
    try:
        mname, path = qualname.split(':')
        obj = importlib.import_module(mname)
        for part in path.split('.'): obj = getattr(obj, part)
        if isinstance(obj, property): obj = obj.fget
        src = inspect.getsource(obj)
        return hashlib.sha1(src.encode()).hexdigest()[:12]
    except Exception as e:
        return f"unbound({type(e).__name__})"


class _Timeout(Exception): pass
def _alarm(signum, frame): raise _Timeout()


def _in_repo(tb):
    """was the exception raised by a `raise` in repository code (innermost frame under REPO)?"""
    last = None
    while tb is not None:
        last = tb; tb = tb.tb_next
    if last is None: return False
    fn = last.tb_frame.f_code.co_filename
    return os.path.abspath(fn).startswith(os.path.abspath(REPO) + os.sep)


def _constructed(obj):
    """did the object go through its class's constructor?  (harness objects are made with __new__ and given only the attributes a contract needs.)
    True unless some attribute that an __init__ in the MRO assigns unconditionally (top-level `self.X = ...`) is absent."""
    import ast, textwrap
    try: have = set(vars(obj))
    except TypeError: return True
    for k in type(obj).__mro__:
        init = k.__dict__.get('__init__')
        if init is None or not hasattr(init, '__code__'): continue
        try: fn = ast.parse(textwrap.dedent(inspect.getsource(init))).body[0]
        except Exception: continue
        for st in fn.body:
            tg = st.targets if isinstance(st, ast.Assign) else [st.target] if isinstance(st, (ast.AnnAssign, ast.AugAssign)) else []
            for t in tg:
                if isinstance(t, ast.Attribute) and isinstance(t.value, ast.Name) and t.value.id == 'self':
                    x = t.attr
                    if x in have or ('_' + x) in have: continue
                    if isinstance(getattr(type(obj), x, None), property): continue       # stored under another name: cannot tell
                    return False
    return True


def _harness_fault(e):
    """reason (str) when the exception shows that the CONTRACT / harness is out of date with the code rather than that the code misbehaves:
    (a) a loop-cut contract addresses a local name the function no longer has; (b) repository code reads an attribute that the class's own
    constructor assigns but the object lacks - the harness built the object with __new__ and did not supply it.  Such outcomes are undecided."""
    from .loops import StaleAnchor
    if isinstance(e, StaleAnchor): return f"stale anchor: {e}"
    from .loops import NotExtractable
    if isinstance(e, NotExtractable): return f"stale anchor: the loop the contract cuts is no longer where it was ({e})"
    if isinstance(e, AttributeError) and getattr(e, 'obj', None) is not None and getattr(e, 'name', None):
        obj, name = e.obj, e.name
        try:
            if name in vars(obj): return None
        except TypeError: return None
        if _constructed(obj): return None               # went through its constructor: a missing attribute is the code's problem
        pub = name[1:] if name.startswith('_') else None
        for k in type(obj).__mro__:
            if k is object: continue
            try: src = inspect.getsource(k)
            except Exception: continue
            if re.search(rf"self\.{re.escape(name)}\s*=[^=]", src) or (pub and isinstance(getattr(type(obj), pub, None), property) and re.search(rf"self\.{re.escape(pub)}\s*=[^=]", src)):
                return f"harness object of {type(obj).__name__} was built without its constructor and lacks '{name}', which the class assigns during its normal life cycle (the code under contract now reads it)"
    return None


def run_job(args):
    """worker: returns a dict with obligations and statistics for one job"""
    prop, jobid, tier, seed = args
    from . import core, shims
    from .ctx import Ctx, Reject, Obl
    t0 = time.time()
    out = dict(job=jobid, obligations=[], paths=0, unsupported=[], numeric=dict(runs=0, checks=0, fails=[], harness=[]),
               shims=[], error=None, level=None, functions={}, assumptions=[], wall=0.0)
    try:
        mod = _load_contracts(prop)
        from . import loops as _loops
        _loops.SEEN.clear(); _loops.ANCHORS.clear()
        try: _loops.ANCHORS.update(json.load(open(os.path.join(VERIF, 'baseline', f'{prop}.json'))).get('anchors', {}))
        except Exception: pass
        job = {j.id: j for j in mod.jobs(tier)}[jobid]
        out['level'] = job.level
        out['functions'] = {q: _src_hash(q) for q in job.functions}
        out['assumptions'] = list(job.assumptions)
        signal.signal(signal.SIGALRM, _alarm); signal.alarm(int(job.timeout))
        nnum = job.nnum if job.nnum is not None else (12 if tier == 'quick' else 100)
        pre_obj = job.pre() if job.pre else None          # built natively, before any dependency is rebound
        # ---------------- symbolic phase -------------------------------------------------------
        if job.level != 'B':
            shims.HIT.clear()
            shims.install(job.extra() if callable(job.extra) else job.extra)
            core.ST.defs.clear(); core.SQRT_OF.clear(); del core.PRODUCT_RULES[:]
            if job.rlimit: core.ST.rlimit = job.rlimit
            c = Ctx('sym'); c.pre = pre_obj
            def run():
                c.begin_path(); shims.RNG_LOG.clear()
                if job.setup: job.setup(c)
                try:
                    job.fn(c)
                except (core.Abort, core.Concretised, RecursionError, _Timeout):
                    raise
                except Exception as e:
                    tb = e.__traceback__
                    kind = 'exc' if (_in_repo(tb) and not _harness_fault(e)) else 'unsupported'
                    return (kind, f"{type(e).__name__}: {e}", ''.join(traceback.format_tb(tb)[-3:]), list(c.obls), dict(c.symnames))
                return ('ret', None, None, list(c.obls), dict(c.symnames))
            try:
                paths = core.explore(run, maxpaths=job.maxpaths)
            finally:
                shims.uninstall()
            out['paths'] = len(paths)
            out['shims'] = sorted(shims.HIT)
            seen = {}
            for p in paths:
                if p.kind == 'unsupported':
                    out['unsupported'].append(f"path {p.index}: {type(p.value).__name__}: {p.value}")
                    continue
                kind, msg, tb, obls, symnames = p.value
                if kind == 'unsupported':
                    out['unsupported'].append(f"path {p.index}: {msg} | {tb.strip().splitlines()[-2:] if tb else ''}")
                    continue
                if kind == 'exc' and not job.allow_exc:
                    obls = obls + [Obl('no_exception', p.facts + p.pc, z3.BoolVal(False), None, f"{msg}", 'unreachable')]
                for o in obls:
                    key = (o.name, o.goal.get_id(), tuple(sorted(h.get_id() for h in o.hyps)))
                    if key in seen: continue
                    seen[key] = True
                    v = core.prove(o.hyps, o.goal, recheck=(tier == 'thorough'), rlimit=job.rlimit)
                    rec = dict(name=o.name, path=p.index, status=v.status, backend=v.backend, time=round(v.time, 4),
                               exact=v.exact, note=o.note, kind=o.kind, reason=v.reason)
                    if v.status == 'refuted' and not v.exact:
                        rec['analytic_free'] = core.is_analytic_free(list(o.hyps) + [o.goal])
                    if v.status in ('refuted', 'undecided'):
                        rec['goal'] = str(z3.simplify(o.goal))[:600]
                        rec['pc'] = [str(z3.simplify(x))[:200] for x in p.pc][:12]
                    if v.status == 'refuted' and v.model is not None:
                        inputs = {}
                        for nm, s in symnames.items():
                            val = core.model_value(v.model, s)
                            if val is not None: inputs[nm] = val
                        rec['inputs'] = inputs
                        rec['model'] = str(v.model)[:1500]
                    out['obligations'].append(rec)
        # ---------------- numeric twin: replay of refutations + generated inputs --------------
        if job.num:
            pre_obj = job.pre() if job.pre else None          # a fresh one: the symbolic phase may have converted matrices in place
            def native(inputs, rng):
                c = Ctx('num', inputs=inputs, rng=rng, rtol=job.rtol, atol=job.atol, numdim=job.numdim); c.pre = pre_obj
                for _ in range(50):
                    c.begin_path()
                    try:
                        if job.setup: job.setup(c)
                        job.fn(c)
                    except Reject:
                        c.unpatch()
                        if inputs is not None: return None, 'precondition not satisfied by the model values', dict(c.symnames)
                        continue
                    except _Timeout: c.unpatch(); raise
                    except Exception as e:
                        c.unpatch()
                        hf = _harness_fault(e)
                        if hf:
                            if hf not in out['numeric']['harness']: out['numeric']['harness'].append(hf)
                            return None, hf, dict(c.symnames)
                        return c, f"raised {type(e).__name__}: {e}", dict(c.symnames)
                    c.unpatch()
                    return c, None, dict(c.symnames)
                return None, 'no admissible input generated', {}
            for rec in out['obligations']:
                if rec['status'] == 'refuted' and rec.get('inputs'):
                    rng = np.random.default_rng(seed)
                    try:
                        c, err, used = native(rec['inputs'], rng)
                    except Exception as e:
                        c, err, used = None, f"replay crashed: {e}", {}
                    fails = []
                    if c is not None:
                        fails = [f"{f.name}: {f.detail}" for f in c.numfails]
                    if err and c is not None and not job.allow_exc: fails.append(err)
                    rec['native'] = dict(reproduced=bool(fails), detail=fails[:5] if fails else [err or 'all contract clauses hold natively at the model values'],
                                         inputs=used)
            rng = np.random.default_rng(seed + 1)
            for k in range(nnum):
                c, err, used = native(None, rng)
                if c is None: continue
                out['numeric']['runs'] += 1
                out['numeric']['checks'] += c.numchecks
                fl = [dict(name=f.name, detail=f.detail, inputs=used) for f in c.numfails]
                if err and not job.allow_exc: fl.append(dict(name='no_exception', detail=err, inputs=used))
                for f in fl:
                    if len(out['numeric']['fails']) < 20: out['numeric']['fails'].append(f)
        signal.alarm(0)
    except _Timeout:
        out['error'] = 'timeout'
    except core.PathCap as e:
        out['error'] = f'pathcap: {e}'
    except Exception as e:
        out['error'] = f"{type(e).__name__}: {e}\n" + traceback.format_exc()[-1500:]
    finally:
        try: signal.alarm(0)
        except Exception: pass
    out['wall'] = round(time.time() - t0, 3)
    try:
        from . import loops as _loops
        out['anchors'] = dict(_loops.SEEN)
    except Exception: out['anchors'] = {}
    return out


# ---------------------------------------------------------------------------------------------
def load_known():
    p = os.path.join(VERIF, 'known_findings.json')
    if not os.path.exists(p): return []
    return json.load(open(p)).get('entries', [])


def match_known(known, prop, jobid, oname):
    for e in known:
        if e.get('kind') != 'finding' or e.get('property') != prop: continue
        if re.fullmatch(e['job'], jobid) and re.fullmatch(e.get('obligation', '.*'), oname):
            return e
    return None


def main(argv=None):
    import argparse, subprocess
    ap = argparse.ArgumentParser()
    ap.add_argument('prop')
    ap.add_argument('--tier', default=os.environ.get('VERIF_TIER', 'quick'))
    ap.add_argument('--replay')
    ap.add_argument('--update-baseline', action='store_true')
    ap.add_argument('--jobs-partial-ok', dest='jobs_partial_ok', action='store_true', help=argparse.SUPPRESS)
    ap.add_argument('--jobs', default=None, help='regex filter on job ids (debugging; evidence not written)')
    ap.add_argument('--procs', type=int, default=min(16, os.cpu_count() or 4))
    ap.add_argument('-v', action='store_true')
    a = ap.parse_args(argv)
    prop = a.prop; tier = a.tier if a.tier in ('quick', 'thorough') else 'quick'
    seed = int(os.environ.get('VERIF_SEED', '0') or 0)
    t0 = time.time()
    sys.path.insert(0, REPO)
    import warnings; warnings.filterwarnings('ignore')
    try:
        import cuqi
        assert os.path.abspath(cuqi.__file__).startswith(os.path.abspath(REPO)), cuqi.__file__
        mod = _load_contracts(prop)
        joblist = mod.jobs(tier)
    except Exception as e:
        traceback.print_exc()
        print(f"ENGINE-ERROR property={prop}: cannot import repository/contracts: {e}")
        return 3
    if a.replay:
        return replay(prop, a.replay, tier, seed)
    # engine self-test (conformance of the dependency contracts and value classes) in a child process: a mismatch means nothing the
    # engine reports can be believed -> machinery failure, not a verdict on the repository
    st = subprocess.run([sys.executable, '-W', 'ignore', '-m', 'pvc.selftest'], cwd=VERIF, capture_output=True, text=True)
    a.selftest = (st.stdout.strip().splitlines() or ['selftest: no output'])[-1]
    if st.returncode != 0:
        for l in st.stdout.splitlines()[-6:]: print(l)
        print(f"ENGINE-ERROR property={prop}: engine self-test failed ({a.selftest})")
        return 3
    if a.jobs: joblist = [j for j in joblist if re.search(a.jobs, j.id)]
    ids = [j.id for j in joblist]
    assert len(ids) == len(set(ids)), "duplicate job ids: " + str([i for i in ids if ids.count(i) > 1][:3])
    work = [(prop, j.id, tier, seed) for j in joblist]
    ctx = mp.get_context('fork')
    results = []
    if a.procs <= 1 or len(work) == 1:
        for w in work: results.append(run_job(w))
    else:
        with ctx.Pool(min(a.procs, len(work)), maxtasksperchild=1) as pool:
            for r in pool.imap_unordered(run_job, work, chunksize=1): results.append(r)
    results.sort(key=lambda r: ids.index(r['job']))
    return report(prop, tier, seed, joblist, results, time.time() - t0, a, mod)


def replay(prop, path, tier, seed):
    from .ctx import Ctx
    rp = json.load(open(path))
    mod = _load_contracts(prop)
    job = {j.id: j for j in mod.jobs('thorough')}.get(rp['job']) or {j.id: j for j in mod.jobs('quick')}.get(rp['job'])
    if job is None:
        print(f"replay: job {rp['job']} not found"); return 3
    c = Ctx('num', inputs=rp.get('inputs') or {}, rng=np.random.default_rng(seed), rtol=job.rtol, atol=job.atol, numdim=job.numdim)
    c.pre = job.pre() if job.pre else None
    c.begin_path(); err = None
    try:
        if job.setup: job.setup(c)
        job.fn(c)
    except Exception as e:
        err = f"raised {type(e).__name__}: {e}"
    fails = [f"{f.name}: {f.detail}" for f in c.numfails] + ([err] if err else [])
    print(f"replay of {rp['job']} :: {rp['obligation']} on {REPO}")
    print(f"  inputs: {rp.get('inputs')}")
    if fails:
        for f in fails: print("  FAILS:", f)
        print(f"VIOLATION property={prop} replay={path}")
        return 1
    print("  all contract clauses hold natively at these inputs (see solver output in the replay file)")
    return 0


def report(prop, tier, seed, joblist, results, wall, a, mod):
    known = load_known()
    os.makedirs(os.path.join(VERIF, 'replays', prop), exist_ok=True)
    os.makedirs(os.path.join(VERIF, 'evidence'), exist_ok=True)
    n_obl = n_dis = 0
    per_level = {}
    per_backend = {}
    violations = []; knowns = []; undecided = []; engine_errors = []
    proved_ids = set(); all_ids = {}
    _bp = os.path.join(VERIF, 'baseline', f'{prop}.json')
    base_proved = set(json.load(open(_bp)).get(tier, [])) if os.path.exists(_bp) else set()
    solver_time = 0.0
    functions = {}; shimset = set(); assumptions = set(getattr(mod, 'ASSUMPTIONS', []))
    samples = []
    num_runs = num_checks = 0
    bounded_jobs = 0
    paths_total = 0
    for r in results:
        job = r['job']; lvl = r['level'] or '?'
        functions.update(r['functions']); shimset.update(r['shims']); assumptions.update(r['assumptions'])
        paths_total += r['paths']
        if r['error']:
            engine_errors.append(f"{job}: {r['error'].splitlines()[0]}")
            undecided.append((job, '*', f"engine: {r['error'].splitlines()[0]}"))
        for u in r['unsupported']:
            undecided.append((job, 'path-unsupported', u[:300]))
        if lvl == 'B': bounded_jobs += 1
        for o in r['obligations']:
            oid = f"{job}:{o['name']}"
            n_obl += 1; solver_time += o['time']
            pl = per_level.setdefault(lvl, dict(obligations=0, discharged=0))
            pl['obligations'] += 1
            st = o['status']
            prev = all_ids.get(oid)
            if st == 'proved':
                n_dis += 1; pl['discharged'] += 1
                per_backend[o['backend']] = per_backend.get(o['backend'], 0) + 1
                if prev is None: all_ids[oid] = 'proved'
                if len(samples) < 4 and o['kind'] == 'eq': samples.append(dict(id=oid, path=o['path'], status=st, backend=o['backend'], time_s=o['time']))
            elif st == 'undecided':
                k = match_known(known, prop, job, o['name'])
                if k:
                    all_ids[oid] = 'refuted'; knowns.append((job, o, 'undecided-but-known', k))
                else:
                    all_ids[oid] = 'undecided'
                    undecided.append((job, o['name'], o.get('reason', '')))
            elif st == 'refuted':
                nat = o.get('native')
                if not (nat and nat['reproduced']):
                    # abstract-domain counter-models cannot be concretised: use a failing input of the numeric twin, if any
                    for f in r['numeric']['fails']:
                        if f['name'] == o['name']:
                            nat = dict(reproduced=True, detail=[f['detail']], inputs=f['inputs']); o['native'] = nat; break
                k = match_known(known, prop, job, o['name'])
                if nat and nat['reproduced']:
                    all_ids[oid] = 'refuted'
                    (knowns if k else violations).append((job, o, 'native', k))
                elif o['exact'] and o['name'] != 'no_exception':
                    all_ids[oid] = 'refuted'
                    (knowns if k else violations).append((job, o, 'exact-no-input', k))
                elif oid in base_proved and o.get('analytic_free') and o['name'] != 'no_exception' and not a.jobs_partial_ok:
                    # discharged on the unchanged tree for ALL values of the functions the contract quantifies over, and now refuted by a
                    # counter-model that only chooses such values (no uninterpreted analytic function involved): the contract is violated
                    # as stated, although no native input reproduces it
                    all_ids[oid] = 'refuted'
                    (knowns if k else violations).append((job, o, 'baseline-obligation-refuted', k))
                else:
                    all_ids[oid] = 'undecided'
                    undecided.append((job, o['name'], 'refuted only in the abstraction (uninterpreted function values or engine-level exception); no native failing input'))
        num_runs += r['numeric']['runs']; num_checks += r['numeric']['checks']
        for hf in r['numeric'].get('harness', []):
            undecided.append((job, 'harness-out-of-date', hf))
        for f in r['numeric']['fails']:
            k = match_known(known, prop, job, f['name'])
            o = dict(name=f['name'], note=f['detail'], inputs=f['inputs'], native=dict(reproduced=True, detail=[f['detail']], inputs=f['inputs']),
                     path=None, goal='(numeric twin)', model='', kind='twin', exact=False)
            all_ids[f"{job}:{f['name']}"] = 'refuted'
            (knowns if k else violations).append((job, o, 'twin', k))
    proved_ids = {i for i, s in all_ids.items() if s == 'proved'}

    # ---- output lines ------------------------------------------------------------------------
    lines = []
    seen_k = set()
    for job, o, how, k in knowns:
        key = (k['job'], k.get('obligation', ''), k['what'])
        if key in seen_k: continue
        seen_k.add(key)
        lines.append(f"KNOWN-FINDING: property={prop} {k['what']} [{job}:{o['name']}]")
    seen_v = set(); vcount = 0
    for job, o, how, k in violations:
        key = (job, o['name'])
        if key in seen_v: continue
        seen_v.add(key); vcount += 1
        fn = re.sub(r'[^A-Za-z0-9_.=,-]+', '_', f"{job}__{o['name']}")[:150] + '.json'
        rp = os.path.join(VERIF, 'replays', prop, fn)
        nat = o.get('native') or {}
        json.dump(dict(property=prop, job=job, obligation=o['name'], how=how, inputs=(nat.get('inputs') or o.get('inputs') or {}),
                       solver_model=o.get('model', ''), goal=o.get('goal', ''), path_condition=o.get('pc', []), note=o.get('note', ''),
                       native=nat, tier=tier, repo=REPO,
                       replay_cmd=f"./check {prop} --replay {rp}"), open(rp, 'w'), indent=1, default=str)
        suffix = '' if (nat.get('reproduced')) else ' no-failing-input-found'
        lines.append(f"VIOLATION property={prop} replay={rp}{suffix}")
        lines.append(f"  obligation {job}:{o['name']} ({how}) {str(o.get('note',''))[:200]} {str(nat.get('detail',''))[:300]}")
    for job, name, why in undecided[:40]:
        lines.append(f"UNDECIDED obligation={job}:{name} reason={why[:240]}")
    # ---- baseline ----------------------------------------------------------------------------
    bpath = os.path.join(VERIF, 'baseline', f'{prop}.json')
    lost = []
    base = {}
    if os.path.exists(bpath): base = json.load(open(bpath))
    if a.update_baseline and not a.jobs:
        os.makedirs(os.path.dirname(bpath), exist_ok=True)
        base[tier] = sorted(proved_ids)
        anchors = dict(base.get('anchors', {}))
        for r in results: anchors.update(r.get('anchors', {}))
        base['anchors'] = anchors
        json.dump(base, open(bpath, 'w'), indent=0)
    elif tier in base and not a.jobs:
        known_ids = {f for f in base[tier]}
        lost = sorted(known_ids - proved_ids)
        for l in lost[:40]:
            if all_ids.get(l) != 'refuted': lines.append(f"LOST-PROOF obligation={l} now={all_ids.get(l, 'not generated')}")
    for l in lines: print(l)
    status = 0
    if vcount: status = 1
    sym_jobs = [r for r in results if r['level'] != 'B']
    if not vcount and (n_obl == 0 and sym_jobs) :
        print(f"ENGINE-ERROR property={prop}: zero obligations generated"); status = 3
    if not vcount and tier in base and not a.jobs and base[tier] and not (set(base[tier]) & set(all_ids)):
        print(f"ENGINE-ERROR property={prop}: none of the baseline obligations was generated"); status = 3
    # ---- vacuity per job: a job that evaluated no clause at all (every path raised or was unsupported) decides nothing ----
    vacuous = sorted(r['job'] for r in results if not r['obligations'] and not r['numeric']['checks'] and not r['numeric']['fails'] and not r.get('error'))
    for j in vacuous[:20]: print(f"VACUOUS job={j} (no clause evaluated on any path or native run)")
    # ---- evidence ----------------------------------------------------------------------------
    n_known_obl = sum(1 for _, o, how, _ in knowns if how != 'twin')
    n_claim = n_obl - n_known_obl          # obligations not covered by a listed known finding
    level = 'proof' if (n_claim > 0 and not undecided and not lost and not violations and n_dis == n_claim) else 'exploration'
    cov = dict(
        obligations=n_claim, discharged=n_dis, obligations_refuted_by_known_findings=n_known_obl,
        checker_cmd=f"./check {prop} --tier {tier}",
        trusted_base=sorted(shimset) + ["CPython 3.12 as interpreter of the non-symbolic part", "pvc value classes (SReal/SBool/AVec) and term differentiator", "z3 5.1 / cvc5 1.0.3", "spec functions in /verif/contracts"],
        per_level=per_level, per_backend=per_backend, solver_time_s=round(solver_time, 3),
        engine_selftest=getattr(a, 'selftest', ''),
        jobs=len(results), paths_explored=paths_total,
        functions_under_contract=functions,
        undecided=[f"{j}:{n}: {w}"[:300] for j, n, w in undecided][:60],
        jobs_without_any_evaluated_clause=vacuous,
        lost_proofs=lost[:60],
        known_findings=sorted({k['what'] for _, _, _, k in knowns}),
        refuted_known=len(knowns), refuted_new=vcount,
        bounded_numeric_twin=dict(label="B (bounded stand-in, never counted as proved)", runs=num_runs, clause_evaluations=num_checks, bounded_only_jobs=bounded_jobs),
        evaluations=max(1, n_obl + num_runs), distinct_nontrivial=max(0, len(all_ids)),
        rule="one evaluation = one solver obligation (distinct by job, clause and path) or one native twin run; distinct_nontrivial counts distinct (job, clause) pairs",
        samples=samples or [dict(note="no equality obligation proved in this run")],
        explanation=getattr(mod, 'EXPLANATION', ''),
    )
    ev = dict(property_id=prop, tier=tier, seed=seed, level=level, coverage=cov,
              assumptions=sorted(assumptions) + ["floating point treated as real arithmetic", "tolerance comparisons (allclose) treated as exact equality in symbolic mode"],
              wall_s=round(wall, 2), violations=vcount)
    if not a.jobs:
        # evidence/<id>.json describes the tree the registered commands check (/repo); runs against a scratch copy (VERIF_REPO, used by the
        # seeded-change and refactoring regressions) leave it alone and write next to it
        own = os.path.abspath(REPO) == os.path.abspath(os.environ.get('VERIF_DEFAULT_REPO', '/repo'))
        ev['repo'] = os.path.abspath(REPO)
        json.dump(ev, open(os.path.join(VERIF, 'evidence', f'{prop}.json' if own else f'.scratch_{prop}.json'), 'w'), indent=1, default=str)
    print(f"[{prop}] tier={tier} jobs={len(results)} paths={paths_total} obligations={n_obl} discharged={n_dis} "
          f"known-findings={len(seen_k)} violations={vcount} undecided={len(undecided)} lost={len(lost)} "
          f"twin-runs={num_runs} twin-checks={num_checks} level={level} wall={wall:.1f}s exit={status}")
    if engine_errors and a.v:
        for r in results:
            if r['error']: print('---', r['job'], '\n', r['error'])
    return status


if __name__ == '__main__':
    sys.exit(main())
