"""Symbolic differentiation over the z3 term language (+ - * / log exp, definitional sqrt, If, integer powers,
uninterpreted functions with partial-derivative atoms).  Part of the trusted base; cross-checked numerically
by the twin (central differences) in the contracts that use it."""
import z3
from . import core
from .core import R, SReal, T


class NotDifferentiable(Exception):
    pass


def _zero(): return z3.RealVal(0)


def partial_atom(decl, i):
    """uninterpreted partial derivative of the uninterpreted function `decl` w.r.t. its i-th argument"""
    n = decl.arity()
    return z3.Function(f"{decl.name()}__d{i}", *([R] * n), R)


def d(t, x, memo=None):
    """d t / d x   (x a z3 Real constant)"""
    if memo is None: memo = {}
    k = t.get_id()
    if k in memo: return memo[k]
    r = _d(t, x, memo)
    memo[k] = r
    return r


def _d(t, x, memo):
    if z3.is_rational_value(t) or z3.is_algebraic_value(t): return _zero()
    if z3.is_const(t):
        if t.eq(x): return z3.RealVal(1)
        tid = t.get_id()
        if tid in core.SQRT_OF:
            rad = core.SQRT_OF[tid]
            dr = d(rad, x, memo)
            if _is0(dr): return _zero()
            return dr / (2 * t)
        return _zero()
    if not z3.is_app(t): raise NotDifferentiable(str(t)[:80])
    kind = t.decl().kind(); ch = t.children()
    if kind == z3.Z3_OP_ADD: return _sum([d(c, x, memo) for c in ch])
    if kind == z3.Z3_OP_SUB:
        ds = [d(c, x, memo) for c in ch]
        r = ds[0]
        for e in ds[1:]: r = _sub(r, e)
        return r
    if kind == z3.Z3_OP_UMINUS: return _neg(d(ch[0], x, memo))
    if kind == z3.Z3_OP_MUL:
        terms = []
        for i, c in enumerate(ch):
            dc = d(c, x, memo)
            if _is0(dc): continue
            rest = [ch[j] for j in range(len(ch)) if j != i]
            p = dc
            for e in rest: p = p * e
            terms.append(p)
        return _sum(terms)
    if kind == z3.Z3_OP_DIV:
        a, b = ch
        da, db = d(a, x, memo), d(b, x, memo)
        if _is0(db): return _zero() if _is0(da) else da / b
        return (da * b - a * db) / (b * b)
    if kind == z3.Z3_OP_POWER:
        a, n = ch
        if z3.is_rational_value(n):
            da = d(a, x, memo)
            if _is0(da): return _zero()
            return n * (a ** (n - 1)) * da
        raise NotDifferentiable("power with symbolic exponent")
    if kind == z3.Z3_OP_ITE:
        c, a, b = ch
        da, db = d(a, x, memo), d(b, x, memo)
        if _is0(da) and _is0(db): return _zero()
        return z3.If(c, da, db)
    if kind == z3.Z3_OP_TO_REAL: return _zero()
    if kind == z3.Z3_OP_UNINTERPRETED:
        nm = t.decl().name()
        das = [d(c, x, memo) for c in ch]
        if all(_is0(e) for e in das): return _zero()
        if nm == 'log': return das[0] / ch[0]
        if nm == 'exp': return t * das[0]
        if nm == 'sin': return core.COS(ch[0]) * das[0]
        if nm == 'cos': return -core.SIN(ch[0]) * das[0]
        if nm == 'atan': return das[0] / (1 + ch[0] * ch[0])
        if nm.startswith('uf_'):
            tot = []
            for i, (c, dc) in enumerate(zip(ch, das)):
                if _is0(dc): continue
                tot.append(partial_atom(t.decl(), i)(*ch) * dc)
            return _sum(tot)
        raise NotDifferentiable(f"function {nm}")
    raise NotDifferentiable(f"operator {t.decl().name()}")


def _is0(e): return z3.is_rational_value(e) and e.as_fraction() == 0
def _sum(es):
    es = [e for e in es if not _is0(e)]
    if not es: return _zero()
    r = es[0]
    for e in es[1:]: r = r + e
    return r
def _sub(a, b):
    if _is0(b): return a
    if _is0(a): return -b
    return a - b
def _neg(a): return _zero() if _is0(a) else -a


def grad(value, xs):
    """gradient of a scalar SReal w.r.t. a list/array of SReal input symbols"""
    t = T(value); memo_all = []
    out = []
    for x in xs:
        out.append(SReal(z3.simplify(d(t, T(x)))))
    return out
