"""pvc core: symbolic reals/booleans over z3, path forking by re-execution, obligation discharge.

The interpreter for everything that is not symbolic is CPython itself: the real cuqi function
objects are called on SReal values (alone, or as elements of numpy object arrays).  Every Python-level
decision on a symbolic value goes through `decide`, which forks the path.
"""
import math, time, itertools, sys, os, subprocess, tempfile
from fractions import Fraction
import numbers
import numpy as np
import z3

R = z3.RealSort()
B = z3.BoolSort()
LOG = z3.Function('log', R, R)
EXP = z3.Function('exp', R, R)
LGAMMA = z3.Function('lgamma', R, R)
ERF = z3.Function('erf', R, R)
SIN = z3.Function('sin', R, R)
COS = z3.Function('cos', R, R)
ATAN = z3.Function('atan', R, R)
UNINTERP = {'log', 'exp', 'lgamma', 'erf', 'sin', 'cos', 'atan', 'pow'}
PI = z3.Real('pi')
EPS = z3.Real('eps')


class Concretised(Exception):
    """the code forced a symbolic value to a concrete Python number: path unsupported"""


class Abort(Exception):
    """infeasible path"""


class PathCap(Exception):
    pass


# ----------------------------------------------------------------------------------------------
# path state
# ----------------------------------------------------------------------------------------------
class State:
    def __init__(self):
        self.base = []        # precondition facts (z3 Bool), rebuilt on every re-execution
        self.defs = {}        # definitional symbols (sqrt, abs ...): key -> (symbol, facts)
        self.reset([])
        self.rlimit = 2_000_000
        self.nq = 0
        self.fresh_ctr = 0

    def reset(self, prefix):
        self.prefix = list(prefix)
        self.pos = 0
        self.pc = []
        self.open = []        # positions where both branches are feasible
        self.base = []
        self.fresh_ctr = 0
        self.deffacts = []
        self.defseen = set()

    def facts(self):
        return list(GLOBAL_FACTS) + list(self.base) + list(self.deffacts)


GLOBAL_FACTS = [PI > z3.RealVal("3.14159"), PI < z3.RealVal("3.1416"), EPS > 0, EPS < z3.RealVal("0.000001")]
ST = State()


def fresh(name, sort=R):
    ST.fresh_ctr += 1
    return z3.Const(f"{name}!{ST.fresh_ctr}", sort)


def _solver():
    s = z3.Solver()
    s.set('rlimit', ST.rlimit); s.set('timeout', DECIDE_TIMEOUT_MS)
    return s


def _feasible(extra):
    s = _solver()
    s.add(*ST.facts()); s.add(*ST.pc); s.add(extra)
    ST.nq += 1
    return s.check() != z3.unsat      # unknown counts as feasible (sound: explores more)


def decide(cond):
    """fork point: returns a Python bool for the z3 Bool `cond` on the current path"""
    cond = z3.simplify(cond)
    if z3.is_true(cond): return True
    if z3.is_false(cond): return False
    if ST.pos > 600: raise Concretised("more than 600 decisions on one path (unbounded symbolic loop?)")
    if ST.pos < len(ST.prefix):
        d = ST.prefix[ST.pos]
    else:
        t_ok = _feasible(cond)
        f_ok = _feasible(z3.Not(cond))
        if t_ok and f_ok:
            d = True; ST.open.append(ST.pos)
        elif t_ok: d = True
        elif f_ok: d = False
        else: raise Abort("infeasible path")
        ST.prefix.append(d)
    ST.pos += 1
    ST.pc.append(cond if d else z3.Not(cond))
    return d


# ----------------------------------------------------------------------------------------------
# values
# ----------------------------------------------------------------------------------------------
def rv(v):
    """exact rational z3 value of a Python/numpy number"""
    if isinstance(v, (bool, np.bool_)): return z3.RealVal(int(v))
    if isinstance(v, (int, np.integer)): return z3.RealVal(int(v))
    if isinstance(v, Fraction): return z3.RealVal(str(v))
    v = float(v)
    if math.isnan(v) or math.isinf(v): raise Concretised("non-finite constant")
    if v in CONST:
        k = CONST[v]
        return k() if callable(k) else k
    return z3.RealVal(str(Fraction(v)))


CONST = {}
def _reg(v, t): CONST[float(v)] = t


class SBool:
    __slots__ = ('t',)
    def __init__(self, t): self.t = t
    def __bool__(self): return decide(self.t)
    def __invert__(self): return SBool(z3.Not(self.t))
    @staticmethod
    def _o(o):
        if isinstance(o, SBool): return o.t
        if isinstance(o, (bool, np.bool_, int, np.integer)): return z3.BoolVal(bool(o))
        return None
    def __or__(self, o):
        t = SBool._o(o)
        return NotImplemented if t is None else SBool(z3.Or(self.t, t))
    def __and__(self, o):
        t = SBool._o(o)
        return NotImplemented if t is None else SBool(z3.And(self.t, t))
    def __xor__(self, o):
        t = SBool._o(o)
        return NotImplemented if t is None else SBool(z3.Xor(self.t, t))
    __ror__ = __or__; __rand__ = __and__; __rxor__ = __xor__
    def __eq__(self, o):
        t = SBool._o(o)
        return NotImplemented if t is None else SBool(self.t == t)
    def __ne__(self, o):
        t = SBool._o(o)
        return NotImplemented if t is None else SBool(self.t != t)
    __hash__ = object.__hash__
    def __int__(self): return int(bool(self))
    def __index__(self): return int(bool(self))
    def __float__(self): return float(bool(self))
    # arithmetic on booleans (e.g. np.sum(mask), mask*x): fork
    def __add__(self, o): return int(self) + o
    __radd__ = __add__
    def __mul__(self, o): return int(self) * o
    __rmul__ = __mul__
    def any(self): return self
    def all(self): return self
    def __repr__(self): return f"SBool({z3.simplify(self.t)})"


class SReal:
    """symbolic real with the numpy-scalar API"""
    __slots__ = ('t',)
    shape = (); ndim = 0; size = 1; dtype = np.dtype(object)

    def __init__(self, t): self.t = t

    @staticmethod
    def lift(v):
        if isinstance(v, SReal): return v
        if isinstance(v, SBool): return SReal(z3.If(v.t, z3.RealVal(1), z3.RealVal(0)))
        if isinstance(v, z3.ExprRef): return SReal(v)
        if isinstance(v, (int, float, np.integer, np.floating, Fraction, bool, np.bool_)):
            return SReal(rv(v))
        if isinstance(v, np.ndarray) and v.ndim == 0 or (isinstance(v, np.ndarray) and v.size == 1 and v.dtype != object):
            return SReal.lift(v.reshape(-1)[0]) if v.dtype != object else SReal.lift(v.item())
        raise TypeError(type(v))

    def _b(self, o, f, op='?'):
        if isinstance(o, (float, np.floating)) and not math.isfinite(o):
            return _nonfinite_binop(self, float(o), op)
        if isinstance(o, np.ndarray) and o.ndim > 0 and o.size != 1: return NotImplemented
        try: o = SReal.lift(o)
        except TypeError: return NotImplemented
        return SReal(f(self.t, o.t))

    def _c(self, o, f, name):
        if isinstance(o, (float, np.floating)) and not math.isfinite(o):
            o = float(o)
            if math.isnan(o): return name == 'ne'
            # finite real vs +-inf
            return {'lt': o > 0, 'le': o > 0, 'gt': o < 0, 'ge': o < 0, 'eq': False, 'ne': True}[name]
        if isinstance(o, np.ndarray) and o.ndim > 0 and o.size != 1: return NotImplemented
        if o is None: return NotImplemented
        try: o = SReal.lift(o)
        except TypeError: return NotImplemented
        return SBool(f(self.t, o.t))

    def __add__(s, o): return s._b(o, lambda a, b: a + b, 'add')
    def __radd__(s, o): return s._b(o, lambda a, b: b + a, 'add')
    def __sub__(s, o): return s._b(o, lambda a, b: a - b, 'sub')
    def __rsub__(s, o): return s._b(o, lambda a, b: b - a, 'rsub')
    def __mul__(s, o): return s._b(o, lambda a, b: a * b, 'mul')
    def __rmul__(s, o): return s._b(o, lambda a, b: b * a, 'mul')
    def __truediv__(s, o): return s._b(o, _div, 'div')
    def __rtruediv__(s, o): return s._b(o, lambda a, b: _div(b, a), 'rdiv')
    def __matmul__(s, o): return s.__mul__(o)
    def __rmatmul__(s, o): return s.__rmul__(o)
    def __neg__(s): return SReal(-s.t)
    def __pos__(s): return s
    def __abs__(s): return SReal(z3.If(s.t >= 0, s.t, -s.t))
    def __lt__(s, o): return s._c(o, lambda a, b: a < b, 'lt')
    def __le__(s, o): return s._c(o, lambda a, b: a <= b, 'le')
    def __gt__(s, o): return s._c(o, lambda a, b: a > b, 'gt')
    def __ge__(s, o): return s._c(o, lambda a, b: a >= b, 'ge')
    def __eq__(s, o): return s._c(o, lambda a, b: a == b, 'eq')
    def __ne__(s, o): return s._c(o, lambda a, b: a != b, 'ne')
    __hash__ = object.__hash__

    def __pow__(s, o):
        if isinstance(o, SReal):
            o2 = z3.simplify(o.t)
            if z3.is_rational_value(o2):
                fr = o2.as_fraction(); o = int(fr) if fr.denominator == 1 else float(fr)
            else:
                return SReal(EXP(o.t * LOG(s.t)))
        if isinstance(o, (float, np.floating)) and float(o).is_integer(): o = int(o)
        if isinstance(o, (int, np.integer)):
            o = int(o)
            if abs(o) > 12: return SReal(EXP(rv(o) * LOG(s.t)))
            if o == 2 and s.t.get_id() in SQRT_OF: return SReal(SQRT_OF[s.t.get_id()])
            r = z3.RealVal(1)
            for _ in range(abs(o)): r = r * s.t
            return SReal(r if o >= 0 else _div(z3.RealVal(1), r))
        if isinstance(o, (float, np.floating)):
            fr = Fraction(float(o))
            if fr == Fraction(1, 2): return s.sqrt()
            if fr == Fraction(-1, 2): return SReal(_div(z3.RealVal(1), s.sqrt().t))
            if fr.denominator == 2:
                n = fr.numerator
                q = s.sqrt()
                return q ** n
            return SReal(EXP(rv(o) * LOG(s.t)))
        return NotImplemented

    def __rpow__(s, o):
        # o ** s : exp(s*log o)
        try: o = SReal.lift(o)
        except TypeError: return NotImplemented
        return SReal(EXP(s.t * LOG(o.t)))

    # numpy ufunc protocol for object arrays: np.log(objarr) calls elem.log()
    def log(s): return SReal(LOG(s.t))
    def exp(s): return SReal(EXP(s.t))
    def sqrt(s): return SReal(def_sqrt(s.t))
    def square(s): return s ** 2
    def conjugate(s): return s
    conj = conjugate
    def sin(s): return SReal(SIN(s.t))
    def cos(s): return SReal(COS(s.t))
    def arctan(s): return SReal(ATAN(s.t))
    def sign(s): return SReal(z3.If(s.t > 0, z3.RealVal(1), z3.If(s.t < 0, z3.RealVal(-1), z3.RealVal(0))))
    def isnan(s): return False
    def isinf(s): return False
    def isfinite(s): return True
    @property
    def real(s): return s
    @property
    def imag(s): return 0.0

    def _arr(s):
        a = np.empty((), dtype=object); a[()] = s; return a
    def flatten(s, *a, **k): return s._arr().reshape(1)
    ravel = flatten
    def reshape(s, *a, **k): return s._arr().reshape(*a)
    def copy(s): return s
    def item(s): return s
    def squeeze(s): return s
    def astype(s, *a, **k): return s
    def sum(s, *a, **k): return s
    @property
    def T(s): return s
    def __repr__(s): return f"SReal({z3.simplify(s.t)})"
    def __float__(s): raise Concretised("float() of symbolic value")
    def __int__(s): raise Concretised("int() of symbolic value")
    def __index__(s): raise Concretised("index() of symbolic value")
    def __round__(s, *a): raise Concretised("round() of symbolic value")
    def __bool__(s): return decide(s.t != 0)
    def __copy__(s): return s
    def __deepcopy__(s, memo): return s
    def __reduce__(s): raise Concretised("pickling symbolic value")


numbers.Number.register(SReal)
numbers.Real.register(SReal)


def _div(a, b):
    return a / b


def _nonfinite_binop(s, o, op):
    """finite symbolic real  op  (nan | +-inf): IEEE result (forks on the sign where it matters)"""
    if math.isnan(o): return float('nan')
    if op == 'add': return o
    if op == 'sub': return -o
    if op == 'rsub': return o
    if op == 'div': return SReal(z3.RealVal(0))
    if op in ('mul', 'rdiv'):
        if bool(s > 0): return o
        if bool(s < 0): return -o
        return float('nan') if op == 'mul' else o
    raise Concretised("arithmetic of symbolic value with +-inf")


SQRT_OF = {}
PRODUCT_RULES = []      # (a, b, rhs): hypotheses a*b == rhs registered by dependency contracts (used by the normaliser); cleared per job


def def_sqrt(t):
    """definitional square root: fresh r with r>=0 and r*r == t (exact, stays in NRA)"""
    t = z3.simplify(t)
    if z3.is_rational_value(t):
        fr = t.as_fraction()
        if fr >= 0:
            n, d = math.isqrt(fr.numerator), math.isqrt(fr.denominator)
            if n * n == fr.numerator and d * d == fr.denominator:
                return z3.RealVal(str(Fraction(n, d)))
    # peel perfect squares  sqrt(a*a) is |a| -- not attempted; keep definitional
    key = t.get_id()
    if key not in ST.defs:
        r = z3.Real(f"sqrt!{len(ST.defs)}")
        ST.defs[key] = (r, [r >= 0, r * r == t], t)
        SQRT_OF[r.get_id()] = t
    r, facts, _ = ST.defs[key]
    if key not in ST.defseen:
        ST.defseen.add(key)
        ST.deffacts.extend(facts)
    return r


def T(a):
    """z3 term of a value"""
    if isinstance(a, SReal): return a.t
    if isinstance(a, SBool): return a.t
    if isinstance(a, z3.ExprRef): return a
    if isinstance(a, np.ndarray) and a.size == 1: return T(a.reshape(-1)[0])
    return rv(a)


def is_sym(a):
    if isinstance(a, (SReal, SBool)): return True
    if isinstance(a, np.ndarray) and a.dtype == object:
        return any(isinstance(e, (SReal, SBool)) for e in a.reshape(-1))
    return False


def sreal(name): return SReal(z3.Real(name))
def svec(name, n): return np.array([SReal(z3.Real(f"{name}{i}")) for i in range(n)], dtype=object)
def smat(name, m, n): return np.array([[SReal(z3.Real(f"{name}{i}_{j}")) for j in range(n)] for i in range(m)], dtype=object)


# ----------------------------------------------------------------------------------------------
# exploration
# ----------------------------------------------------------------------------------------------
class Path:
    __slots__ = ('pc', 'facts', 'kind', 'value', 'index')
    def __init__(self, pc, facts, kind, value, index):
        self.pc = pc; self.facts = facts; self.kind = kind; self.value = value; self.index = index


def explore(fn, maxpaths=512, on_path_start=None):
    """run fn() on every feasible path. fn's return value / raised exception is the path result."""
    work = [[]]; out = []
    while work:
        prefix = work.pop()
        ST.reset(prefix)
        if on_path_start: on_path_start()
        try:
            res = fn(); kind = 'ret'
        except Abort:
            continue
        except Concretised as e:
            res = e; kind = 'unsupported'
        except RecursionError as e:
            res = e; kind = 'unsupported'
        except Exception as e:
            res = e; kind = 'exc'
        out.append(Path(list(ST.pc), ST.facts(), kind, res, len(out)))
        for pos in ST.open:
            work.append(ST.prefix[:pos] + [False])
        if len(out) > maxpaths:
            raise PathCap(f"more than {maxpaths} paths")
    return out


# ----------------------------------------------------------------------------------------------
# proving
# ----------------------------------------------------------------------------------------------
def _apps(t, seen, acc):
    if t.get_id() in seen: return
    seen.add(t.get_id())
    if z3.is_app(t):
        nm = t.decl().name()
        if t.decl().kind() == z3.Z3_OP_UNINTERPRETED and t.num_args() > 0:
            acc.setdefault(nm, []).append(t)
        for c in t.children(): _apps(c, seen, acc)


def uninterp_apps(terms):
    acc = {}; seen = set()
    for t in terms: _apps(t, seen, acc)
    return acc


def ground_axioms(terms, concave=False):
    """ground instances of the log/exp axioms chosen by the subterms present (two rounds)"""
    ax = []
    apps = uninterp_apps(terms)
    logs = apps.get('log', []); exps = apps.get('exp', [])
    one = z3.RealVal(1); zero = z3.RealVal(0)
    for l in logs:
        a = l.arg(0)
        ax.append(z3.Implies(a > 0, EXP(l) == a))
        ax.append(z3.Implies(a == 1, l == 0))
        if z3.is_mul(a) and a.num_args() >= 2:
            fs = a.children()
            ax.append(z3.Implies(z3.And(*[f > 0 for f in fs]), l == z3.Sum([LOG(f) for f in fs])))
        if z3.is_div(a):
            p, q = a.arg(0), a.arg(1)
            ax.append(z3.Implies(z3.And(p > 0, q > 0), l == LOG(p) - LOG(q)))
    if 2 <= len(logs) <= 7:
        for x, y in itertools.combinations(logs, 2):
            a, b = x.arg(0), y.arg(0)
            ax.append(z3.Implies(z3.And(a > 0, b > 0), LOG(a * b) == x + y))
            ax.append(z3.Implies(z3.And(a > 0, b > 0), LOG(a / b) == x - y))
    # concavity of log (tangent-line bounds): log a <= a - 1 ; log a - log b <= (a - b)/b
    if concave and len(logs) <= 6:
        for l in logs:
            a = l.arg(0)
            ax.append(z3.Implies(a > 0, l <= a - 1))
        for x, y in itertools.permutations(logs, 2):
            a, b = x.arg(0), y.arg(0)
            ax.append(z3.Implies(z3.And(a > 0, b > 0), x - y <= (a - b) / b))
    for e in exps:
        a = e.arg(0)
        ax.append(e > 0)
        if concave: ax.append(e >= 1 + a)
        ax.append(LOG(e) == a)
        ax.append(z3.Implies(a == 0, e == 1))
        if z3.is_add(a) and a.num_args() == 2:
            ax.append(e == EXP(a.arg(0)) * EXP(a.arg(1)))
    # monotonicity between pairs of logs / exps (bounded number)
    for fam, strict in ((logs, True), (exps, False)):
        if len(fam) <= 6:
            for x, y in itertools.combinations(fam, 2):
                a, b = x.arg(0), y.arg(0)
                if fam is logs:
                    ax.append(z3.Implies(z3.And(a > 0, b > 0), (a < b) == (x < y)))
                    ax.append(z3.Implies(z3.And(a > 0, b > 0), (a == b) == (x == y)))
                else:
                    ax.append((a < b) == (x < y))
                    ax.append((a == b) == (x == y))
    return ax


def is_exact(terms):
    """no uninterpreted analytic function takes part"""
    apps = uninterp_apps(terms)
    return not any(k in UNINTERP or k.startswith('uf_') for k in apps)


def is_analytic_free(terms):
    """no uninterpreted ANALYTIC function (log, exp, ...) takes part: a counter-model then only chooses values of the user-supplied
    functions the contract quantifies over (targets, operators, draws), so it refutes the contract as stated"""
    apps = uninterp_apps(terms)
    return not any(k in UNINTERP for k in apps)


class Verdict:
    __slots__ = ('status', 'backend', 'time', 'model', 'exact', 'reason', 'smt2')
    def __init__(self, status, backend, time_, model=None, exact=True, reason='', smt2=None):
        self.status = status; self.backend = backend; self.time = time_; self.model = model
        self.exact = exact; self.reason = reason; self.smt2 = smt2


CVC5_BIN = '/usr/bin/cvc5'
PROVE_TIMEOUT_MS = 12000
DECIDE_TIMEOUT_MS = 1500


def _cvc5(smt2, timeout_s=20):
    with tempfile.NamedTemporaryFile('w', suffix='.smt2', delete=False) as f:
        f.write("(set-logic ALL)\n" + smt2 + "\n(check-sat)\n"); fn = f.name
    try:
        p = subprocess.run([CVC5_BIN, '--lang=smt2', f'--tlimit={int(timeout_s*1000)}', '--nl-ext-tplanes', fn],
                           capture_output=True, text=True, timeout=timeout_s + 5)
        out = p.stdout.strip().splitlines()
        return out[0] if out else 'unknown'
    except Exception:
        return 'unknown'
    finally:
        os.unlink(fn)


def prove(hyps, goal, rlimit=None, want_model=True, use_cvc5=True, recheck=False):
    """validity of (hyps => goal).  returns Verdict(proved|refuted|undecided)"""
    t0 = time.time()
    goal = goal if isinstance(goal, z3.ExprRef) else z3.BoolVal(bool(goal))
    terms = list(hyps) + [goal]
    ax = ground_axioms(terms)
    if ax:
        ax2 = ground_axioms(ax); ax = ax + ax2
        if ax2: ax = ax + ground_axioms(ax2)
    exact = is_exact(terms)
    r = z3.unknown; s = None
    for budget in (3000, None):
        if budget is None:
            # between the two z3 attempts: rational-function normaliser for equalities (denominators discharged by z3)
            v = _try_field(hyps, goal, t0, exact)
            if v is not None: return v
            light = _light(hyps)
            if len(light) < len(hyps):
                sl = z3.Solver(); sl.set('timeout', 4000)
                sl.add(*purify(list(GLOBAL_FACTS) + light + _light(ax) + [z3.Not(goal)]))
                if sl.check() == z3.unsat:
                    return Verdict('proved', 'z3(light)', time.time() - t0, exact=exact)
            budget = PROVE_TIMEOUT_MS
        s = z3.Solver()
        s.set('rlimit', rlimit or 8_000_000); s.set('timeout', budget)
        s.add(*GLOBAL_FACTS); s.add(*hyps); s.add(*ax); s.add(z3.Not(goal))
        r = s.check()
        if r != z3.unknown: break
    if r == z3.unsat:
        v = Verdict('proved', 'z3', time.time() - t0, exact=exact)
        if recheck:
            rr = _cvc5(s.to_smt2().replace('(check-sat)', ''))
            v.backend = 'z3+cvc5' if rr == 'unsat' else 'z3'
        return v
    if r != z3.unsat and not exact:
        # the counter-model (or the time-out) may only exploit that log/exp are uninterpreted: retry once with the tangent-line
        # (concavity / convexity) instances added; these are true facts of the real functions, so a proof with them stands
        extra = ground_axioms(terms, concave=True)
        if len(extra) > len(ground_axioms(terms)):
            sc = z3.Solver(); sc.set('timeout', PROVE_TIMEOUT_MS)
            sc.add(*GLOBAL_FACTS); sc.add(*hyps); sc.add(*ax); sc.add(*extra); sc.add(z3.Not(goal))
            if sc.check() == z3.unsat:
                return Verdict('proved', 'z3(+concavity)', time.time() - t0, exact=exact)
    if r == z3.sat:
        m = s.model() if want_model else None
        return Verdict('refuted', 'z3', time.time() - t0, model=m, exact=exact, smt2=None)
    # third attempt: purified problem (uninterpreted applications -> constants; sound for proving only)
    try:
        pur = purify(list(GLOBAL_FACTS) + list(hyps) + list(ax) + [z3.Not(goal)])
        s3 = z3.Solver(); s3.set('timeout', PROVE_TIMEOUT_MS); s3.add(*pur)
        if s3.check() == z3.unsat:
            return Verdict('proved', 'z3(purified)', time.time() - t0, exact=exact)
    except Exception:
        pass
    # second SMT back end
    if use_cvc5:
        rr = _cvc5(s.to_smt2().replace('(check-sat)', ''))
        if rr == 'unsat':
            return Verdict('proved', 'cvc5', time.time() - t0, exact=exact)
        if rr == 'sat':
            return Verdict('refuted', 'cvc5', time.time() - t0, model=None, exact=exact)
    return Verdict('undecided', 'z3', time.time() - t0, exact=exact, reason='solver unknown: ' + s.reason_unknown())


def purify(terms):
    """replace every application of an uninterpreted function by a constant (same function, same purified
    arguments -> same constant).  The result is an abstraction: unsat of the result implies unsat of the input."""
    memo = {}; table = {}
    def tr(t):
        k = t.get_id()
        if k in memo: return memo[k]
        if z3.is_app(t) and t.num_args() > 0:
            args = [tr(c) for c in t.children()]
            if t.decl().kind() == z3.Z3_OP_UNINTERPRETED:
                key = (t.decl().name(), tuple(a.get_id() for a in args))
                if key not in table:
                    table[key] = (z3.Const(f"pur!{len(table)}", t.sort()), args)
                r = table[key][0]
            else:
                r = t.decl()(*args)
        else:
            r = t
        memo[k] = r
        return r
    return [tr(t) for t in terms]


def _size(t, cap=400):
    seen = set(); stack = [t]
    while stack:
        u = stack.pop()
        if u.get_id() in seen: continue
        seen.add(u.get_id())
        if len(seen) > cap: return cap + 1
        stack.extend(u.children())
    return len(seen)


def _light(hyps, cap=400):
    """the hypotheses whose term DAG is small: dropping hypotheses only weakens the antecedent, so a proof from them stands"""
    return [h for h in hyps if _size(h, cap) <= cap]


def _zero_vars(hyps):
    """variables that the positive equality hypotheses force to zero (e.g. `0 == g00*g10` with g00 > 0): decided by z3, used to
    specialise a goal before the rational-function normaliser (which cannot use hypotheses) sees it"""
    cands = {}
    def walk(t, depth=0):
        if z3.is_const(t) and t.decl().kind() == z3.Z3_OP_UNINTERPRETED and t.sort() == R and t.get_id() not in SQRT_OF: cands[t.get_id()] = t
        elif depth < 6:
            for ch in t.children(): walk(ch, depth + 1)
    for h in hyps:
        if z3.is_eq(h) and h.arg(0).sort() == R: walk(h)
    out = []
    for v in list(cands.values())[:16]:
        s = z3.Solver(); s.set('timeout', 1000); s.add(*GLOBAL_FACTS); s.add(*hyps); s.add(v != 0)
        if s.check() == z3.unsat: out.append((v, z3.RealVal(0)))
    return out


def _try_field(hyps, goal, t0, exact):
    try:
        from . import field
        ok, info = field.prove_eq(goal)
        if not ok and info == 'numerator does not reduce to zero':
            sub = _zero_vars(hyps)
            if sub:
                ok, info = field.prove_eq(z3.substitute(goal, *sub), sub=sub)
    except Exception as e:
        ok, info = False, str(e)
    if not ok:
        if os.environ.get('PVC_DEBUG_FIELD'): print('FIELD: identity not shown:', info, file=sys.stderr)
        return None
    light = _light(hyps)
    for den in info:
        # first with the small hypotheses only, uninterpreted applications abstracted to constants (sound for unsat)
        s1 = z3.Solver(); s1.set('timeout', 4000)
        s1.add(*purify(list(GLOBAL_FACTS) + light + [den == 0]))
        if s1.check() == z3.unsat: continue
        s2 = z3.Solver(); s2.set('timeout', 10000)
        s2.add(*GLOBAL_FACTS); s2.add(*hyps); s2.add(den == 0)
        if s2.check() != z3.unsat:
            if os.environ.get('PVC_DEBUG_FIELD'): print('FIELD: denominator not shown non-zero:', str(den)[:300], file=sys.stderr)
            return None
    return Verdict('proved', 'field+z3', time.time() - t0, exact=exact)


def model_value(m, term):
    """float value of a z3 term in a model (algebraic numbers approximated)"""
    v = m.eval(term, model_completion=True)
    try:
        if z3.is_rational_value(v): return float(v.as_fraction())
        if z3.is_algebraic_value(v): return float(v.approx(20).as_fraction())
    except Exception:
        pass
    try:
        return float(v.as_decimal(17).rstrip('?'))
    except Exception:
        return None


def install_constants():
    _reg(np.pi, PI); _reg(2 * np.pi, 2 * PI)
    _reg(np.log(2 * np.pi), LOG(2 * PI)); _reg(np.log(2), LOG(z3.RealVal(2)))
    _reg(np.finfo(float).eps, EPS)
    _reg(np.sqrt(2.0), lambda: def_sqrt(z3.RealVal(2)))
    _reg(np.sqrt(2 * np.pi), lambda: def_sqrt(2 * PI))
install_constants()
