"""C02 — Metropolis-type kernels accept with exactly the Metropolis-Hastings probability.

Each kernel (experimental `step`, legacy `single_update`) is run on an arbitrary state satisfying the
representation invariant (caches belong to the current point), with an uninterpreted target, symbolic
scale, named proposal noise and named uniform draw.  Post: accepted <=> log u <= min(0, rho) and the
proposal's log-density is finite, rho being the SPEC log-ratio for the proposal the code actually formed;
on accept the state/caches are those of the proposal, on reject the state object is identical and the
caches are unchanged.  MH/pCN/MALA: abstract vectors (every dimension); CWMH: dimension 1..3."""
import types
import numpy as np
import z3
from pvc.runner import Job
from pvc import core, shims
from pvc.shims import ADIM, Forward
from pvc.avec import AVec
import cuqi

EXPLANATION = ("Kernel contracts for MH, CWMH, pCN, MALA in both interfaces on arbitrary invariant-satisfying states, "
               "uninterpreted targets, symbolic scale/noise/uniform; acceptance rule, state/caches, non-finite proposals; "
               "prior-reversibility of the pCN proposal with real Gaussian priors; lemma L-MH (detailed balance).")
ASSUMPTIONS = ["detailed balance implies invariance (textbook; lemma L-MH proves the algebraic step)",
               "a user proposal flagged is_symmetric has an even density (assumed contract of the proposal object)",
               "Normal(mean,std).sample() = mean + std*z and Uniform(0,1).sample() = u with z ~ N(0,I), u ~ U(0,1) (callee contracts, discharged under C05)"]

EXP = 'cuqi.experimental.mcmc'
LEG = 'cuqi.sampler'


class Target:
    """contract stub for any density: uninterpreted log-density and gradient (extended-real via `nonfinite`)"""
    def __init__(self, c, nonfinite=None, dim=None, scalar=False):
        self.c = c; self.nonfinite = nonfinite
        self._dim = dim
        self.f = c.vfun('logpi') if dim is None else None
        self.g = c.vvfun('gradlogpi') if dim is None else None
        self.calls = []
    @property
    def dim(self):
        if self._dim is not None: return self._dim
        return ADIM if self.c.sym else self.c.numdim
    def _f(self, x):
        if self._dim is None: return self.f(x)
        return self.c.uf('logpi', *list(np.asarray(x, dtype=object).reshape(-1)))
    def logd(self, x):
        self.calls.append(x.copy() if hasattr(x, 'copy') else x)
        if self.nonfinite is not None: return self.nonfinite
        return self._f(x)
    def gradient(self, x):
        return self.g(x)


class Proposal:
    is_symmetric = True
    def __init__(self, xi): self.xi = xi
    def sample(self, n=1, **k): return self.xi


def _started(c, s, x):
    """harness objects are built without the constructor: give them the attributes that say where the chain STARTED (distinct from where it is now),
    so that code reading them is analysed instead of failing on a missing attribute"""
    try:
        start = c.avec('x_start') if type(x).__name__ == 'AVec' else c.vec('x_start', len(x))
    except Exception:
        start = None
    for nm in ('x0', 'initial_point'):
        try: object.__setattr__(s, nm, start)
        except Exception: pass
    return s


def _accept_rule(c, u, rho):
    return c.log(u) <= c.minimum(0.0, rho)


def _is1(a):
    return (a == 1) if not isinstance(a, core.SReal) else bool(a == 1)


# ---------------------------------------------------------------------------------------------
def mh(c, iface, nonfinite=None):
    x = c.avec('x'); xi = c.avec('xi'); scale = c.real('scale', pos=True)
    tg = Target(c, nonfinite); F = tg._f
    xs = x + scale * xi
    u = c.boundary_uniform('u', lambda: F(xs) - F(x))
    cache = F(x)
    if iface == 'exp':
        from cuqi.experimental.mcmc import MH
        s = MH.__new__(MH); s._target = tg; s._proposal = Proposal(xi); s.current_point = x
        _started(c, s, x)
        s.scale = scale; s.current_target_logd = cache
        acc = s.step()
        newx, newlogd = s.current_point, s.current_target_logd
    else:
        from cuqi.sampler import MH
        s = MH.__new__(MH); s._target = tg; s._proposal = Proposal(xi); s.scale = scale
        _started(c, s, x)
        newx, newlogd, acc = s.single_update(x, cache)
    c.holds('one_target_evaluation_at_the_proposal', len(tg.calls) == 1)
    c.eq('proposal_is_x_plus_scale_xi', tg.calls[0], xs)
    _post(c, acc, x, xs, newx, [(newlogd, cache, F(xs) if nonfinite is None else nonfinite)],
          None if nonfinite is not None else _accept_rule(c, u, F(xs) - F(x)))


def _post(c, acc, x, xs, newx, caches, rule):
    """caches: list of (new value, old value, value at the proposal).  rule None: the proposal is non-finite -> never accepted"""
    accepted = _is1(acc)
    if rule is None:
        c.holds('nonfinite_proposal_never_accepted', not accepted)
    else:
        c.holds('accept_iff_mh_rule', c.Iff(accepted, rule))
    if accepted:
        c.eq('accepted_state_is_proposal', newx, xs)
        for k, (new, old, atprop) in enumerate(caches):
            if rule is not None: c.eq(f'accepted_cache[{k}]_belongs_to_proposal', new, atprop)
    else:
        c.eq('rejected_state_unchanged', newx, x)
        for k, (new, old, atprop) in enumerate(caches):
            c.eq(f'rejected_cache[{k}]_unchanged', new, old)


# ---------------------------------------------------------------------------------------------
def pcn_kernel(c, iface, nonfinite=None):
    """kernel contract w.r.t. the code's own mechanism: likelihood-only ratio (its equality with the MH ratio is pcn_reversible)"""
    x = c.avec('x'); xi = c.avec('xi'); scale = c.real('scale', lo=0, hi=1)
    tg = Target(c, nonfinite); L = tg._f
    like = types.SimpleNamespace(logd=tg.logd)
    m = c.avec('m')
    u = c.boundary_uniform('u', lambda: L(m + np.sqrt(1 - scale * scale) * (x - m) + scale * (xi - m)) - L(x))
    prior = types.SimpleNamespace(sample=lambda n=1, **k: xi, mean=m)
    cache = L(x)
    if iface == 'exp':
        from cuqi.experimental.mcmc import PCN
        s = PCN.__new__(PCN); s._target = types.SimpleNamespace(prior=prior, likelihood=like, dim=tg.dim)
        _started(c, s, x)
        s.current_point = x; s.scale = scale; s.current_likelihood_logd = cache
        acc = s.step(); newx, newl = s.current_point, s.current_likelihood_logd
    else:
        from cuqi.sampler import pCN
        s = pCN.__new__(pCN); s._target = (like, prior); s.scale = scale; s._loglikelihood = lambda v: like.logd(v)
        _started(c, s, x)
        newx, newl, acc = s.single_update(x, cache)
    xs = tg.calls[0]
    c.holds('one_likelihood_evaluation', len(tg.calls) == 1)
    # documented pCN proposal: prior-mean-centred autoregression (xi is a draw of the prior, mean included)
    c.eq('proposal_is_pcn_combination', xs, m + c.sqrt(1 - scale * scale) * (x - m) + scale * (xi - m))
    _post(c, acc, x, xs, newx, [(newl, cache, L(xs) if nonfinite is None else nonfinite)],
          None if nonfinite is not None else _accept_rule(c, u, L(xs) - L(x)))


def pcn_target_forms(c, iface, form):
    """pCN built through its PUBLIC constructor with the target in each accepted form (a Posterior; for the legacy sampler also the documented tuple
    (likelihood, prior)): the likelihood whose ratio decides acceptance is the target's likelihood, the distribution proposals are drawn from is its prior"""
    import cuqi
    from cuqi.distribution import Gaussian, Posterior
    from cuqi.likelihood import UserDefinedLikelihood
    n = 2
    prior = Gaussian(c.vec('pm', n), c.vec('pv', n, pos=True), name='x')
    like = UserDefinedLikelihood(dim=n, logpdf_func=lambda x: c.uf('loglike', *list(x)))
    tgt = Posterior(like, prior) if form == 'posterior' else (like, prior)
    x0 = c.vec('x0', n); v = c.vec('v', n)
    if iface == 'exp':
        s = cuqi.experimental.mcmc.PCN(tgt, scale=0.3, initial_point=x0); s.initialize()
        c.eq('likelihood_used_by_the_kernel_is_the_targets_likelihood', s._loglikelihood(v), like.logd(v))
        c.holds('prior_used_for_proposals_is_the_targets_prior', s.prior is prior or s.target.prior is prior)
    else:
        s = cuqi.sampler.pCN(tgt, scale=0.3, x0=x0)
        c.eq('likelihood_used_by_the_kernel_is_the_targets_likelihood', s._loglikelihood(v), like.logd(v))
        c.holds('prior_used_for_proposals_is_the_targets_prior', s.prior is prior)
        c.holds('likelihood_attribute_is_the_targets_likelihood', s.likelihood is like)


def pcn_scale_history(c, how):
    """history: the scale of an initialised experimental PCN is changed afterwards - by assigning the public attribute, or by loading a state (checkpoint /
    set_state) that carries another scale: the next proposal is the prior-reversible one for the CURRENT scale,
    x' = mean + sqrt(1 - scale^2) (x - mean) + scale * (xi - mean)  (nothing derived from the old scale survives)"""
    import cuqi
    from cuqi.distribution import Gaussian, Posterior
    from cuqi.likelihood import UserDefinedLikelihood
    n = 2
    m = c.vec('m', n); sd = c.vec('sd', n, pos=True); x0 = c.vec('x0', n); z = c.vec('z', n)
    sc2 = c.real('scale2', lo=0.05, hi=0.95)
    rec = []
    prior = Gaussian(m, sd ** 2, name='x')
    like = UserDefinedLikelihood(dim=n, logpdf_func=lambda v: (rec.append(np.asarray(v)), 0.0 * np.asarray(v).reshape(-1)[0])[1])
    s = cuqi.experimental.mcmc.PCN(Posterior(like, prior), scale=0.3, initial_point=x0); s.initialize()
    if how == 'attribute': s.scale = sc2
    else:
        st = s.get_state(); st['state']['scale'] = sc2; s.set_state(st)
    if c.sym: shims.PRESET['normal'].append(z.reshape(n, 1)); shims.PRESET['uniform'].append(core.SReal(z3.RealVal('1/2')))
    else: c._numq['normal'].append(z.reshape(n, 1)); c._numq['uniform'].append(0.5); c._patch_random()
    rec.clear()
    s.step()
    c.holds('the_kernel_evaluated_the_likelihood_at_one_proposal', len(rec) == 1, note=str(len(rec)))
    xi = m + sd * z
    c.eq('proposal_uses_the_current_scale', np.asarray(rec[0]).reshape(-1), m + c.sqrt(1 - sc2 * sc2) * (x0 - m) + sc2 * (xi - m))


def checkpoint_reload_invariant(c, geom):
    """history 'after state reload' through the checkpoint file: an experimental PCN whose prior carries a geometry (identity-like, or one whose parameter-to-
    function map is NOT the identity) is run until it has moved, saved with save_checkpoint and loaded into a fresh sampler: the reloaded state is the saved
    state as PARAMETER vector, and the cached likelihood value is the likelihood AT that state - so the next acceptance ratio is L(x')/L(x) (bounded: native)"""
    import cuqi, tempfile, os, io, contextlib
    from cuqi.distribution import Gaussian, Posterior
    from cuqi.likelihood import UserDefinedLikelihood
    n = 2
    g = cuqi.geometry.Continuous1D(n) if geom == 'Continuous1D' else cuqi.geometry.MappedGeometry(cuqi.geometry.Continuous1D(n), map=lambda v: np.exp(v), imap=lambda f: np.log(f))
    b = np.array([c.real('b0'), c.real('b1')])
    ll = lambda v: -0.5 * float(np.sum((np.asarray(v, dtype=float).reshape(-1) - b) ** 2))
    def mk():
        prior = Gaussian(np.zeros(n), 1.0, geometry=g, name='x')
        return cuqi.experimental.mcmc.PCN(Posterior(UserDefinedLikelihood(dim=n, logpdf_func=ll, geometry=g), prior), scale=0.4, initial_point=0.3 * np.ones(n))
    np.random.seed(int(c.real('seed', lo=0, hi=10 ** 6)))
    with contextlib.redirect_stderr(io.StringIO()):
        s = mk(); s.sample(12)
        x = np.asarray(s.current_point, dtype=float).copy()
        d = tempfile.mkdtemp(dir=os.environ.get('TMPDIR')); path = os.path.join(d, 'ckpt.pickle')
        s.save_checkpoint(path)
        t = mk(); t.load_checkpoint(path); os.remove(path); os.rmdir(d)
    c.holds('harness:the_chain_has_moved', bool(np.any(x != 0.3)), note=str(x))
    c.eq('reloaded_state_is_the_saved_parameter_vector', np.asarray(t.current_point, dtype=float), x, tol=0)
    c.eq('saving_leaves_the_running_sampler_at_its_state', np.asarray(s.current_point, dtype=float), x, tol=0)
    c.eq('reloaded_cached_likelihood_value_belongs_to_the_reloaded_state', float(t.current_likelihood_logd), ll(x), tol=1e-12)


def langevin_noise_with_own_generator(c, name):
    """the proposal mechanism the Metropolis ratio is computed for is x + (scale/2) grad + sqrt(scale) xi with xi a vector of INDEPENDENT standard normals -
    also when the legacy sampler is given its own generator (rng=): started at the origin of N(0, I_3) (no drift there), the chain leaves the line
    x_1 = x_2 = x_3 at once (a scalar draw broadcast over the components would keep it on that line for ever); bounded stand-in: native"""
    import cuqi, io, contextlib
    n = 3
    tgt = cuqi.distribution.Gaussian(np.zeros(n), 1.0)
    seed = int(c.real('seed', lo=0, hi=10 ** 6))
    for kind, rng in (('global_generator', None), ('RandomState', np.random.RandomState(seed))):
        np.random.seed(seed)
        with contextlib.redirect_stdout(io.StringIO()), contextlib.redirect_stderr(io.StringIO()):
            smp = getattr(cuqi.sampler, name)(tgt, scale=0.3, x0=np.zeros(n), **({'rng': rng} if rng is not None else {}))
            ch = smp.sample(15).samples
        spread = float(np.max(np.abs(ch - ch.mean(axis=0, keepdims=True))))
        c.holds(f'{kind}:the_chain_moves', bool(np.any(ch != 0)))
        c.holds(f'{kind}:noise_components_are_drawn_independently', spread > 1e-8, note=f"largest deviation of a state from the line x1=x2=x3: {spread:.3g}")


def start_outside_the_support(c, iface, name):
    """'a proposal whose target log-density is NaN or minus infinity is never accepted' - also when the CURRENT state has density zero (a starting point outside
    the support: the log-ratio is then nan): the real samplers, started outside a bounded support with a step far too small to reach it, never move
    (bounded stand-in: native; every proposal of the run lies outside the support)"""
    import cuqi, io, contextlib
    from cuqi.distribution import Gaussian, Posterior, UserDefinedDistribution
    from cuqi.likelihood import UserDefinedLikelihood
    n = 2
    inside = lambda v: bool(np.all(np.asarray(v, dtype=float) >= 0) and np.all(np.asarray(v, dtype=float) <= 1))
    logp = lambda v: 0.0 if inside(v) else -np.inf
    x0 = np.array([5.0, 5.0]) + 0.1 * np.array([c.real('d0'), c.real('d1')])
    np.random.seed(int(c.real('seed', lo=0, hi=10 ** 6)))
    with contextlib.redirect_stdout(io.StringIO()), contextlib.redirect_stderr(io.StringIO()):
        if name in ('pCN', 'PCN'):
            tgt = Posterior(UserDefinedLikelihood(dim=n, logpdf_func=logp), Gaussian(5.0 * np.ones(n), 1.0, name='x'))
        else:
            tgt = UserDefinedDistribution(dim=n, logpdf_func=logp, gradient_func=lambda v: np.zeros(n))
        if iface == 'exp':
            s = getattr(cuqi.experimental.mcmc, name)(tgt, initial_point=x0.copy(), **({'scale': 0.05} if name != 'CWMH' else {'scale': 0.05 * np.ones(n)}))
            s.sample(25); ch = s.get_samples().samples
        else:
            s = getattr(cuqi.sampler, name)(tgt, x0=x0.copy(), scale=0.05)
            ch = s.sample(25).samples
    moved = [k for k in range(ch.shape[1]) if not np.array_equal(ch[:, k], x0)]
    c.holds('no_proposal_of_zero_density_is_ever_accepted', not moved, note=f"{len(moved)} of {ch.shape[1]} recorded states differ from the starting point, first: {ch[:, moved[0]] if moved else None}")


def fresh_sampler_invariant(c, name):
    """history 'fresh': a sampler built by its PUBLIC constructor with an explicit starting point x0 (any point, not the default) and initialised
    (also re-initialised) satisfies the invariant the kernel contracts start from - the state is x0 and every cached evaluation is the target's
    value AT x0; so the first transition's acceptance ratio is pi(x')/pi(x0)"""
    import cuqi
    from cuqi.distribution import Gaussian, Posterior, UserDefinedDistribution
    from cuqi.likelihood import UserDefinedLikelihood
    n = 2
    x0 = c.vec('x0', n)
    F = lambda x: c.uf('logpi', *list(np.asarray(x, dtype=object if c.sym else float).reshape(-1)))
    G = lambda x: np.array([c.uf(f'gradlogpi{i}', *list(np.asarray(x, dtype=object if c.sym else float).reshape(-1))) for i in range(n)], dtype=object if c.sym else float)
    if name == 'PCN':
        prior = Gaussian(np.zeros(n), 1.0, name='x')
        like = UserDefinedLikelihood(dim=n, logpdf_func=F)
        tgt = Posterior(like, prior)
    else:
        tgt = UserDefinedDistribution(dim=n, logpdf_func=F, gradient_func=G)
    cls = getattr(cuqi.experimental.mcmc, name)
    s = cls(tgt, initial_point=x0, **({'scale': 0.3} if name != 'CWMH' else {}))
    for rnd in ('initialised', 'reinitialised'):
        s.initialize() if rnd == 'initialised' else s.reinitialize()
        if rnd == 'reinitialised' and not getattr(s, '_is_initialized', True): s.initialize()
        c.eq(f'{rnd}:state_is_the_given_starting_point', np.asarray(s.current_point), x0)
        if name == 'PCN':
            c.eq(f'{rnd}:cached_likelihood_value_belongs_to_the_state', s.current_likelihood_logd, F(x0))
        else:
            c.eq(f'{rnd}:cached_log_density_belongs_to_the_state', s.current_target_logd, F(x0))
        if name == 'MALA':
            c.eq(f'{rnd}:cached_gradient_belongs_to_the_state', np.asarray(s.current_target_grad), G(x0))


def pcn_reversible(c, iface, n=1, prior_kind='Normal'):
    """log p0(x') + log q(x|x') == log p0(x) + log q(x'|x) for the proposal mechanism the code uses with a real
    Gaussian prior with symbolic mean and std: then the likelihood ratio IS the Metropolis-Hastings ratio."""
    m = c.vec('m', n); sd = c.vec('sd', n, pos=True); x = c.vec('x', n); scale = c.real('scale', lo=0, hi=1)
    z = c.vec('z', n); zero = 0.0 * z
    if prior_kind == 'Normal': prior = cuqi.distribution.Normal(m, sd)
    else: prior = cuqi.distribution.Gaussian(m, sd ** 2)
    def propose(xcur, noise):
        rec = []
        like = types.SimpleNamespace(logd=lambda v: (rec.append(v), 0.0 * v[0])[1])
        if c.sym: shims.PRESET['normal'].append(noise if prior_kind == 'Normal' else noise.reshape(n, 1))
        else: c._numq['normal'].append(noise if prior_kind == 'Normal' else noise.reshape(n, 1)); c._patch_random()
        c.next_uniform(f'u{len(c._vecs)}_{id(rec) % 7}') if False else None
        if c.sym: shims.PRESET['uniform'].append(core.SReal(z3.RealVal('1/2')))
        else: c._numq['uniform'].append(0.5)
        if iface == 'exp':
            from cuqi.experimental.mcmc import PCN
            s = PCN.__new__(PCN); s._target = types.SimpleNamespace(prior=prior, likelihood=like, dim=n)
            _started(c, s, x)
            s.current_point = xcur; s.scale = scale; s.current_likelihood_logd = 0.0
            s.step()
        else:
            from cuqi.sampler import pCN
            s = pCN.__new__(pCN); s._target = (like, prior); s.scale = scale; s._loglikelihood = lambda v: like.logd(v)
            _started(c, s, x)
            s.single_update(xcur, 0.0)
        return rec[0]
    xs = propose(x, z)                       # x' = mu(x) + B z
    mu_x = propose(x, zero)                  # mean of q(.|x)
    mu_xs = propose(xs, zero)                # mean of q(.|x')
    # q(.|x) = N(mu(x), B B^T) with B = diag(scale*sd) read off the mechanism: B_i = d x'_i / d z_i
    for i in range(n):
        c.eq(f'proposal_noise_enters_as_scale_times_prior_std[{i}]', xs[i] - mu_x[i], scale * sd[i] * z[i])
    var = (scale * sd) ** 2
    logq_fwd = -0.5 * np.sum((xs - mu_x) ** 2 / var)      # log q(x'|x) up to the common constant
    logq_bwd = -0.5 * np.sum((x - mu_xs) ** 2 / var)      # log q(x|x')
    lp = lambda v: -0.5 * np.sum((v - m) ** 2 / sd ** 2)  # log p0 up to its constant (spec; the prior's own logd is C04)
    c.eq('prior_reversible_proposal', lp(xs) + logq_bwd, lp(x) + logq_fwd)


# ---------------------------------------------------------------------------------------------
class _StubNormal:
    """callee contract of cuqi.distribution.Normal(mean, std).sample(): mean + std*z, z the next standard-normal draw"""
    used = []
    def __init__(self, mean=None, std=None, **k): self.mean = mean; self.std = std
    def sample(self, N=1, rng=None, **k):
        z = shims.PRESET['normal'].pop(0); _StubNormal.used.append((self.mean, self.std, rng))
        return self.mean + self.std * z


class _StubUniform:
    def __init__(self, low=None, high=None, **k): self.low = low; self.high = high
    def sample(self, N=1, rng=None, **k):
        u = shims.PRESET['uniform'].pop(0)
        return self.low + (self.high - self.low) * u


def _mala_extra():
    fw = Forward(cuqi, 'cuqi'); dist = Forward(cuqi.distribution, 'cuqi.distribution')
    object.__setattr__(dist, 'Normal', _StubNormal); object.__setattr__(dist, 'Uniform', _StubUniform)
    object.__setattr__(fw, 'distribution', dist)
    return {'cuqi.experimental.mcmc._langevin_algorithm': dict(cuqi=fw), 'cuqi.sampler._langevin_algorithm': dict(cuqi=fw)}


def mala(c, iface, nonfinite=None):
    x = c.avec('x'); xi = c.next_normal('xi', None if c.sym else c.numdim); eps = c.real('eps', pos=True)
    tg = Target(c, nonfinite); F = tg._f; G = tg.g
    cache, gcache = F(x), G(x)
    def _spec_rho():
        ys = x + (eps / 2) * G(x) + np.sqrt(eps) * xi
        lq = lambda y, xc: -((y - xc - (eps / 2) * G(xc)) @ (y - xc - (eps / 2) * G(xc))) / (2 * eps)
        return F(ys) - F(x) + lq(x, ys) - lq(ys, x)
    if iface == 'exp':
        u = c.boundary_uniform('u', _spec_rho)
        from cuqi.experimental.mcmc import MALA
        s = MALA.__new__(MALA); s._target = tg; s.current_point = x; s.scale = eps
        _started(c, s, x)
        s.current_target_logd = cache; s.current_target_grad = gcache
        acc = s.step(); newx, newl, newg = s.current_point, s.current_target_logd, s.current_target_grad
    else:
        u = c.boundary_uniform('u', _spec_rho)
        from cuqi.sampler import MALA
        s = MALA.__new__(MALA); s._target = tg; s.scale = eps; s.rng = None
        _started(c, s, x)
        if not c.sym: s._dim = len(x)
        newx, newl, newg, acc = s.single_update(x, cache, gcache)
    xs = tg.calls[0]
    c.eq('proposal_is_langevin_step', xs, x + (eps / 2) * G(x) + c.sqrt(eps) * xi)
    # spec log-ratio with the Gaussian Langevin proposal density q(y|x) = N(y; x + eps/2 grad(x), eps I)
    def logq(y, xc):
        d = y - xc - (eps / 2) * G(xc); return -(d @ d) / (2 * eps)
    if nonfinite is None:
        rho = F(xs) - F(x) + logq(x, xs) - logq(xs, x)
        rule = _accept_rule(c, u, rho)
    else:
        rule = None
    _post(c, acc, x, xs, newx, [(newl, cache, F(xs) if nonfinite is None else nonfinite), (newg, gcache, G(xs))], rule)


# ---------------------------------------------------------------------------------------------
def cwmh(c, iface, n=2, nonfinite_at=None, default_proposal=False):
    """component-wise MH: sequential single-site updates, each a MH step w.r.t. the full target"""
    x = c.vec('x', n); z = c.vec('z', n); us = [c.next_uniform(f'u{j}') for j in range(n)]
    scale = c.vec('scale', n, pos=True)
    tg = Target(c, None, dim=n); F = tg._f
    if nonfinite_at is not None:
        j0, val = nonfinite_at
        count = [0]
        def logd(v):
            count[0] += 1; tg.calls.append(v.copy())
            return val if count[0] == j0 + 1 else F(v)
        tg.logd = logd
    cache = F(x)
    if default_proposal:
        if c.sym: shims.PRESET['normal'].append(z)
        else: c._numq['normal'].append(z); c._patch_random()
        prop = None
    else:
        prop = lambda loc, sc: loc + sc * z
    x_in = x.copy()
    if iface == 'exp':
        from cuqi.experimental.mcmc import CWMH
        s = CWMH.__new__(CWMH); s._target = tg; s._proposal = prop; s._is_initialized = True
        s.initial_point = c.vec('x_start', n)                    # where the chain started: not where it is now
        if prop is None: _ = s.proposal
        s.current_point = x; s._scale = scale; s.current_target_logd = cache
        acc = s.step(); newx, newl = s.current_point, s.current_target_logd
    else:
        from cuqi.sampler import CWMH
        s = CWMH.__new__(CWMH); s._target = tg; s.scale = scale
        s.x0 = c.vec('x_start', n)                               # where the chain started: not where it is now
        if prop is None:
            s._proposal = cuqi.distribution.Normal(mean=lambda location: location, std=lambda scale: scale, geometry=n)
        else: s._proposal = prop
        newx, newl, acc = s.single_update(x.copy(), cache)
    # reference: sequential single-site Metropolis-Hastings written from the property
    cand = x_in + scale * z
    cur = x_in.copy(); curl = cache
    c.holds('one_target_evaluation_per_component', len(tg.calls) == n)
    for j in range(n):
        prop_j = cur.copy(); prop_j[j] = cand[j]
        c.eq(f'component[{j}]_proposal_changes_only_that_component', tg.calls[j], prop_j)
        bad = nonfinite_at is not None and nonfinite_at[0] == j
        a = _is1(acc[j])
        if bad:
            c.holds(f'component[{j}]_nonfinite_never_accepted', not a)
        else:
            c.holds(f'component[{j}]_accept_iff_mh_rule', c.Iff(a, _accept_rule(c, us[j], F(prop_j) - curl)))
        if a:
            cur = prop_j; curl = F(prop_j)
    c.eq('final_state', newx, cur)
    c.eq('final_cache_belongs_to_state', newl, curl)
    if iface == 'exp':
        c.eq('input_state_array_not_mutated', x, x_in)


# ---------------------------------------------------------------------------------------------
def lemma_mh(c):
    """L-MH: p * min(1, p'q'/(p q)) * q  is symmetric under exchange -- detailed balance from the acceptance function"""
    p = c.real('p', pos=True); pp = c.real('pp', pos=True); q = c.real('q', pos=True); qq = c.real('qq', pos=True)
    r = (pp * qq) / (p * q); ri = (p * q) / (pp * qq)
    a = c.minimum(1.0, r); ai = c.minimum(1.0, ri)
    c.eq('detailed_balance', p * q * a, pp * qq * ai)


def integer_typed_state(c, iface, name):
    """the kernel acts on the VALUES of the state: an initial point stored in an integer-typed array (np.array([0, 0])) gives the same
    chain as the same point in a float array, from the same random stream (bounded stand-in: native runs of the real samplers)"""
    import cuqi.experimental.mcmc as EX, cuqi.sampler as LG
    from cuqi.distribution import Gaussian, JointDistribution
    from cuqi.model import LinearModel
    seed = int(c.real('seed', lo=0, hi=10 ** 6))
    tgt = Gaussian(np.array([0.3, -0.2]), np.array([0.7, 1.3]), name='x')
    def post():
        x = Gaussian(np.zeros(2), 1.0, name='x'); y = Gaussian(LinearModel(np.array([[1.0, 0.5], [0.0, 1.0]])), 0.5, name='y')
        return JointDistribution(x, y)(y=np.array([0.4, -0.3]))
    def run(x0):
        np.random.seed(seed)
        if iface == 'exp':
            mk = {'MH': lambda: EX.MH(tgt, scale=0.6, initial_point=x0), 'CWMH': lambda: EX.CWMH(tgt, scale=0.6, initial_point=x0),
                  'PCN': lambda: EX.PCN(post(), scale=0.4, initial_point=x0), 'MALA': lambda: EX.MALA(tgt, scale=0.4, initial_point=x0),
                  'ULA': lambda: EX.ULA(tgt, scale=0.05, initial_point=x0), 'NUTS': lambda: EX.NUTS(tgt, max_depth=3, initial_point=x0)}[name]
            s = mk(); s.sample(8); return np.array(s._samples, dtype=float)
        mk = {'MH': lambda: LG.MH(tgt, scale=0.6, x0=x0), 'CWMH': lambda: LG.CWMH(tgt, scale=0.6, x0=x0), 'pCN': lambda: LG.pCN(post(), scale=0.4, x0=x0),
              'MALA': lambda: LG.MALA(tgt, scale=0.4, x0=x0), 'ULA': lambda: LG.ULA(tgt, scale=0.05, x0=x0), 'NUTS': lambda: LG.NUTS(tgt, max_depth=3, x0=x0)}[name]
        return np.array((mk().sample(8, 4) if name == 'NUTS' else mk().sample(8)).samples.T, dtype=float)
    import io, contextlib
    with contextlib.redirect_stdout(io.StringIO()), contextlib.redirect_stderr(io.StringIO()):
        a = run(np.array([1, -1])); b = run(np.array([1.0, -1.0]))
    c.eq('chain_from_integer_typed_initial_point_equals_chain_from_float_typed_one', a, b, tol=1e-12)


def offset_invariance(c, iface, name, C=-2000.0):
    """a Metropolis-type kernel depends on the target only through DIFFERENCES of its log-density: adding a constant (here one far
    outside the range where exp() is representable) leaves the chain unchanged, from the same random stream.  Bounded stand-in
    (native runs): guards the places where the contracts treat machine arithmetic as mathematical (exp/log of large magnitudes)."""
    import cuqi.experimental.mcmc as EX, cuqi.sampler as LG
    from cuqi.distribution import UserDefinedDistribution
    seed = int(c.real('seed', lo=0, hi=10 ** 6))
    w = np.array([1.0, 0.5, 2.0])
    def run(off):
        tgt = UserDefinedDistribution(dim=3, logpdf_func=lambda x: float(-0.5 * np.sum(w * np.asarray(x) ** 2) + off), gradient_func=lambda x: -w * np.asarray(x))
        np.random.seed(seed); x0 = np.array([0.3, -0.2, 0.1])
        if iface == 'exp':
            s = {'MH': lambda: EX.MH(tgt, scale=0.7, initial_point=x0), 'CWMH': lambda: EX.CWMH(tgt, scale=0.7, initial_point=x0),
                 'MALA': lambda: EX.MALA(tgt, scale=0.3, initial_point=x0), 'NUTS': lambda: EX.NUTS(tgt, max_depth=5, step_size=0.9, initial_point=x0)}[name]()
            s.sample(40); return np.array(s._samples, dtype=float)
        s = {'MH': lambda: LG.MH(tgt, scale=0.7, x0=x0), 'CWMH': lambda: LG.CWMH(tgt, scale=0.7, x0=x0), 'MALA': lambda: LG.MALA(tgt, scale=0.3, x0=x0),
             'NUTS': lambda: LG.NUTS(tgt, x0=x0, max_depth=5, adapt_step_size=0.9)}[name]()
        return np.array(s.sample(40).samples.T, dtype=float)
    import io, contextlib
    with contextlib.redirect_stdout(io.StringIO()), contextlib.redirect_stderr(io.StringIO()):
        a = run(0.0); b = run(C); d = run(-C / 4)
    c.eq('chain_unchanged_by_a_large_negative_constant_in_the_log_density', b, a, tol=1e-6)
    c.eq('chain_unchanged_by_a_large_positive_constant_in_the_log_density', d, a, tol=1e-6)


def proposal_validation(c, iface, name):
    """the random-walk samplers accept with min(1, pi(x')/pi(x)), i.e. WITHOUT the Hastings factor q(x|x')/q(x'|x): that is the MH probability only for a symmetric
    proposal, so a proposal distribution that is flagged asymmetric - or does not declare symmetry at all - must be refused (at construction and when assigned
    later); a flagged-symmetric one is accepted"""
    import cuqi
    from cuqi.distribution import Gaussian, Gamma, InverseGamma, UserDefinedDistribution, Normal
    n = 2
    tgt = Gaussian(np.zeros(n), 1.0, name='x')
    mod = cuqi.experimental.mcmc if iface == 'exp' else cuqi.sampler
    cls = getattr(mod, name)
    if name == 'MH':
        good = lambda: Gaussian(np.zeros(n), 1.0)
        bad = {'flagged_asymmetric': lambda: Gamma(2.0 * np.ones(n), 1.0),
               'symmetry_not_declared': lambda: UserDefinedDistribution(dim=n, sample_func=lambda rng=None: np.ones(n)),
               'symmetric_flag_removed': lambda: Gaussian(np.zeros(n), 1.0, is_symmetric=None),
               # the proposal's draws are used as INCREMENTS: a density symmetric about a non-zero mean gives q(x'|x) != q(x|x')
               'flagged_symmetric_but_not_centred_at_zero': lambda: Gaussian(np.ones(n), 1.0)}
    else:   # component-wise: proposals are conditional on location and scale
        good = lambda: Normal(mean=lambda location: location, std=lambda scale: scale, geometry=n)
        bad = {'flagged_asymmetric': lambda: InverseGamma(shape=3.0, location=lambda location: location, scale=lambda scale: scale, geometry=n),
               'symmetric_flag_removed': lambda: Normal(mean=lambda location: location, std=lambda scale: scale, geometry=n, is_symmetric=None)}
    mk = (lambda p: cls(tgt, proposal=p, scale=0.5)) if iface == 'exp' else (lambda p: cls(tgt, proposal=p, scale=0.5, x0=np.zeros(n)))
    c.no_raise('symmetric_proposal_accepted', lambda: mk(good()))
    for tag, b in bad.items():
        c.expect_raise(f'{tag}_proposal_refused_at_construction', lambda b=b: mk(b()), ValueError)
        s = mk(good())
        def assign(b=b): s.proposal = b()
        c.expect_raise(f'{tag}_proposal_refused_when_assigned_later', assign, ValueError)


def jobs(tier):
    J = []
    NF = [None, float('nan'), float('-inf')]
    def fn(mod, *names): return [f"{mod}:{n}" for n in names]
    for iface, mod in (('exp', EXP), ('leg', LEG)):
        tag = 'experimental' if iface == 'exp' else 'legacy'
        for nf in NF:
            nfl = 'finite' if nf is None else str(nf)
            J.append(Job(f'{tag}.MH:kernel:{nfl}', lambda c, i=iface, nf=nf: mh(c, i, nf), 'Pinf',
                         fn(mod + '._mh', 'MH.step' if iface == 'exp' else 'MH.single_update'), nnum=24 if tier == 'quick' else 200))
            J.append(Job(f'{tag}.pCN:kernel:{nfl}', lambda c, i=iface, nf=nf: pcn_kernel(c, i, nf), 'Pinf',
                         fn(mod + '._pcn', 'PCN.step' if iface == 'exp' else 'pCN.single_update'), nnum=24 if tier == 'quick' else 200))
            J.append(Job(f'{tag}.MALA:kernel:{nfl}', lambda c, i=iface, nf=nf: mala(c, i, nf), 'Pinf',
                         fn(mod + '._langevin_algorithm', *(('MALA._accept_or_reject', 'MALA._log_proposal', 'ULA.step') if iface == 'exp' else ('MALA.single_update', 'MALA.log_proposal'))),
                         extra=_mala_extra, numdim=3, nnum=24 if tier == 'quick' else 200))
        for pk in ('Normal', 'Gaussian'):
            for n in ([1] if tier == 'quick' else [1, 2]):
                J.append(Job(f'{tag}.pCN:prior_reversible:{pk}:n={n}', lambda c, i=iface, pk=pk, n=n: pcn_reversible(c, i, n, pk), 'Pbox',
                             fn(mod + '._pcn', 'PCN.step' if iface == 'exp' else 'pCN.single_update'), nnum=24 if tier == 'quick' else 200))
        for n in ([1, 2] if tier == 'quick' else [1, 2, 3]):
            for dp in (False, True):
                J.append(Job(f'{tag}.CWMH:kernel:n={n}:{"default" if dp else "callable"}_proposal', lambda c, i=iface, n=n, dp=dp: cwmh(c, i, n, None, dp), 'Pbox',
                             fn(mod + '._cwmh', 'CWMH.step' if iface == 'exp' else 'CWMH.single_update'), maxpaths=2048))
            for val in (float('nan'), float('-inf')):
                for j0 in range(n):
                    J.append(Job(f'{tag}.CWMH:kernel:n={n}:{val}_at_component_{j0}', lambda c, i=iface, n=n, j0=j0, val=val: cwmh(c, i, n, (j0, val)), 'Pbox',
                                 fn(mod + '._cwmh', 'CWMH.step' if iface == 'exp' else 'CWMH.single_update'), maxpaths=2048))
    for iface, names in (('exp', ('MH', 'CWMH', 'PCN', 'MALA', 'ULA', 'NUTS')), ('leg', ('MH', 'CWMH', 'pCN', 'MALA', 'ULA', 'NUTS'))):
        for name in names:
            J.append(Job(f'{"experimental" if iface == "exp" else "legacy"}.{name}:integer_typed_initial_point', lambda c, i=iface, nm=name: integer_typed_state(c, i, nm), 'B',
                         [f'{EXP if iface == "exp" else LEG}._{"cwmh" if name == "CWMH" else "mh"}:{name}.{"step" if iface == "exp" else "single_update"}'] if name in ('MH', 'CWMH') else [], nnum=2))
    for iface in ('exp', 'leg'):
        for name in ('MH', 'CWMH', 'MALA'):
            J.append(Job(f'{"experimental" if iface == "exp" else "legacy"}.{name}:log_density_offset_invariance', lambda c, i=iface, nm=name: offset_invariance(c, i, nm), 'B', [], nnum=2))
    for iface in ('exp', 'leg'):
        for name in ('MH', 'CWMH'):
            m_ = (EXP if iface == 'exp' else LEG) + ('._mh' if name == 'MH' else '._cwmh')
            J.append(Job(f'{"experimental" if iface == "exp" else "legacy"}.{name}:proposal_validation', lambda c, i=iface, nm=name: proposal_validation(c, i, nm), 'B',
                         [f'{m_}:{name}.validate_proposal' if iface == 'exp' else f'{m_}:{name}.proposal'], nnum=1))
    for iface, form in (('exp', 'posterior'), ('leg', 'posterior'), ('leg', 'tuple')):
        J.append(Job(f'{"experimental" if iface == "exp" else "legacy"}.pCN:public_constructor:target_form={form}', lambda c, i=iface, f=form: pcn_target_forms(c, i, f), 'Pbox',
                     [(EXP if iface == 'exp' else LEG) + '._pcn:' + ('PCN.validate_target' if iface == 'exp' else 'pCN.target')], nnum=3))
    for iface, names in (('exp', ('MH', 'CWMH', 'PCN', 'MALA')), ('leg', ('MH', 'CWMH', 'pCN', 'MALA'))):
        for name in names:
            J.append(Job(f'{"experimental" if iface == "exp" else "legacy"}.{name}:start_outside_the_support', lambda c, i=iface, nm=name: start_outside_the_support(c, i, nm), 'B',
                         [f'{EXP if iface == "exp" else LEG}._{ {"MH": "mh", "CWMH": "cwmh", "PCN": "pcn", "pCN": "pcn", "MALA": "langevin_algorithm"}[name] }:{name}.{"step" if iface == "exp" and name != "MALA" else ("_accept_or_reject" if iface == "exp" else "single_update")}'], nnum=3))
    for name in ('ULA', 'MALA'):
        J.append(Job(f'legacy.{name}:proposal_noise_with_a_sampler_owned_generator', lambda c, nm=name: langevin_noise_with_own_generator(c, nm), 'B',
                     [f'{LEG}._langevin_algorithm:{name}.single_update'], nnum=2))
    for geom in ('Continuous1D', 'Mapped'):
        J.append(Job(f'experimental.PCN:history:checkpoint_reload:prior_geometry={geom}', lambda c, g=geom: checkpoint_reload_invariant(c, g), 'B',
                     [EXP + '._sampler:Sampler.save_checkpoint', EXP + '._sampler:Sampler.load_checkpoint', EXP + '._pcn:PCN.step'], nnum=3))
    for how in ('attribute', 'set_state'):
        J.append(Job(f'experimental.PCN:history:scale_changed_after_initialisation_by_{how}', lambda c, h=how: pcn_scale_history(c, h), 'Pbox',
                     [EXP + '._pcn:PCN.step', EXP + '._pcn:PCN._initialize', EXP + '._sampler:Sampler.set_state'], nnum=6))
    for name in ('MH', 'CWMH', 'PCN', 'MALA'):
        J.append(Job(f'experimental.{name}:fresh_sampler_invariant:explicit_starting_point', lambda c, nm=name: fresh_sampler_invariant(c, nm), 'Pbox',
                     [EXP + '._sampler:ProposalBasedSampler.initialize' if name in ('MH', 'CWMH') else EXP + '._sampler:Sampler.initialize', EXP + '._sampler:Sampler.reinitialize',
                      EXP + {'MH': '._mh:MH._initialize', 'CWMH': '._cwmh:CWMH._initialize', 'PCN': '._pcn:PCN._initialize', 'MALA': '._langevin_algorithm:ULA._initialize'}[name]], nnum=4))
    J.append(Job('lemma:L-MH:detailed_balance', lemma_mh, 'Pinf', []))
    return J
