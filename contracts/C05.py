"""C05 — direct samples follow the distribution's own density and the given random stream.

The distributional statement is decomposed into per-call contracts plus push-forward lemmas (cited):
affine-Gaussian draws  s = mean + B e  with  sqrtprec B = I  (so cov = (sqrtprec^T sqrtprec)^-1, the covariance of the same
object's logpdf); library generators called with the parameters that denote the object's own density; random-stream
frame; wrapping of one / several draws; refusal for conditional distributions."""
import numpy as np
import z3
from pvc.runner import Job
from pvc import core, shims
import cuqi
from cuqi.distribution import (Normal, Gaussian, Laplace, Cauchy, Gamma, InverseGamma, Beta, Lognormal, Uniform, GMRF)
from cuqi.array import CUQIarray
from cuqi.samples import Samples

D = 'cuqi.distribution'
EXPLANATION = ("Gaussian._sample == mean + B e with sqrtprec B == I on every path of the triangular / sparse / general solve selection for every parameter form; "
               "library generators receive exactly the parameters of the object's own log-density (law tag vs logpdf, symbolic x); supplied generator used exclusively / "
               "global generator untouched; N=1 -> CUQIarray with the geometry, N>1 -> Samples with one column per draw; conditional distributions refuse to sample; "
               "sample after parameter reassignment; GMRF draws: B B^T == pseudo-inverse of the precision (numeric, closed).")
ASSUMPTIONS = ["numpy / scipy generators sample the law they document (assumed); an affine image mean + B e of a standard normal vector is N(mean, B B^T) (lemma L-affine, cited)",
               "statistical agreement of moments is a consequence via the lemmas, not measured",
               "ModifiedHalfNormal rejection samplers: not under contract yet (see DESIGN)"]


def _normal_queue(c, shape):
    """name the next standard-normal draw (array of the given shape)"""
    n = int(np.prod(shape))
    z = c.vec('e', n).reshape(shape)
    if c.sym: shims.PRESET['normal'].append(z)
    else: c._numq['normal'].append(z); c._patch_random()
    return z


def gaussian_affine(c, param, form, n=2, N=1):
    mean = c.vec('m', n)
    if form == 'scalar': arg = c.real('v', pos=True)
    elif form == 'vector': arg = c.vec('v', n, pos=True)
    elif form == 'dense_sym':
        a, b, d_ = c.real('ra', pos=True), c.real('rb'), c.real('rd', pos=True)
        arg = np.array([[a, b], [b, d_]], dtype=object if c.sym else float)
        c.assume((a * d_ - b * b) > 0.01)
    elif form in ('lower', 'upper', 'full'):
        a, b, cc, d_ = c.real('ra', pos=True), c.real('rb', nz=True), c.real('rc', nz=True), c.real('rd', pos=True)
        zero = core.SReal(z3.RealVal(0)) if c.sym else 0.0
        arg = np.array({'lower': [[a, zero], [cc, d_]], 'upper': [[a, b], [zero, d_]], 'full': [[a, b], [cc, d_]]}[form], dtype=object if c.sym else float)
        if form == 'full': c.assume((a * d_ - b * cc) * (a * d_ - b * cc) > 0.01)
    elif form == 'sparse_upper':
        a, b, d_ = c.real('ra', pos=True), c.real('rb', nz=True), c.real('rd', pos=True)
        import scipy.sparse as sp
        M = np.array([[a, b], [0.0, d_]], dtype=object if c.sym else float)
        arg = shims.STag(M) if c.sym else sp.csr_matrix(M)
    g = Gaussian(mean, **{param: arg})
    e = _normal_queue(c, (n, N))
    s = g._sample(N)
    c.holds('sample_shape', np.shape(s) == (n, N), note=str(np.shape(s)))
    S = g.sqrtprec; S = S.toarray() if hasattr(S, 'toarray') else (S.a if isinstance(S, shims.STag) else np.asarray(S))
    for k in range(N):
        c.eq(f'draw[{k}]_is_mean_plus_inverse_sqrtprec_times_noise', S @ (np.asarray(s)[:, k] - mean), e[:, k])


def gaussian_reassign(c, n=2):
    """sample, assign a new square-root precision to the same object, sample again (no stale decision survives)"""
    mean = c.vec('m', n)
    g = Gaussian(mean, sqrtprec=c.vec('v', n, pos=True))
    e1 = _normal_queue(c, (n, 1)); s1 = g._sample(1)
    a, b, cc, d_ = c.real('ra', pos=True), c.real('rb', nz=True), c.real('rc', nz=True), c.real('rd', pos=True)
    R = np.array([[a, b], [cc, d_]], dtype=object if c.sym else float)
    c.assume((a * d_ - b * cc) * (a * d_ - b * cc) > 0.01)
    g.sqrtprec = R
    e2 = c.vec('f', n).reshape(n, 1)
    if c.sym: shims.PRESET['normal'].append(e2)
    else: c._numq['normal'].append(e2)
    s2 = g._sample(1)
    c.eq('draw_after_reassignment_uses_the_new_sqrtprec', R @ (np.asarray(s2)[:, 0] - mean), e2[:, 0])


def law_tag(c, fam, n=2):
    """the generator the family calls, with the parameters actually passed, denotes the density of the same object"""
    x = c.vec('x', n)
    if fam == 'Normal':
        m, s = c.vec('m', n), c.vec('s', n, pos=True); d = Normal(m, s)
        want = ('normal', m, s)
    elif fam == 'Laplace':
        m, s = c.vec('m', n), c.real('s', pos=True); d = Laplace(m, s)
        want = ('laplace', m, s)
    elif fam == 'Uniform':
        lo, w = c.vec('lo', n), c.vec('w', n, pos=True); d = Uniform(lo, lo + w)
        want = ('uniform', lo, lo + w)
    elif fam == 'Gamma':
        a, r = c.vec('a', n, pos=True), c.vec('r', n, pos=True); d = Gamma(a, r)
        want = ('gamma', a, 1 / r)
    elif fam == 'Beta':
        a, b = c.vec('a', n, pos=True), c.vec('b', n, pos=True); d = Beta(a, b)
        want = ('beta', dict(a=a, b=b))
    elif fam == 'InverseGamma':
        a, l, s = c.vec('a', n, pos=True), c.vec('l', n), c.vec('s', n, pos=True); d = InverseGamma(a, l, s)
        want = ('invgamma', dict(a=a, loc=l, scale=s))
    elif fam == 'Cauchy':
        l, s = c.vec('l', n), c.vec('s', n, pos=True); d = Cauchy(l, s)
        want = ('cauchy', dict(loc=l, scale=s))
    shims.RNG_LOG.clear()
    out = d._sample(3)
    c.holds('one_column_per_draw', np.shape(out) == (n, 3), note=str(np.shape(out)))
    recs = [r for r in shims.RNG_LOG if r[1] not in ('seed',)]
    c.holds('exactly_one_generator_call', len([r for r in recs if r[1] != 'normal-params']) == 1, note=str([(r[0], r[1]) for r in recs]))
    def same(a, b):
        A, B = np.broadcast_arrays(np.asarray(a, dtype=object), np.asarray(b, dtype=object))
        return c.And(*[c.close(p, q) for p, q in zip(A.reshape(-1), B.reshape(-1))])
    if fam == 'Normal':
        par = [r for r in recs if r[1] == 'normal-params'][0][2]
        c.holds('generator_is_normal_with_the_objects_mean_and_std', c.And(same(par[0], want[1]), same(par[1], want[2])))
    elif fam in ('Laplace', 'Uniform', 'Gamma'):
        r = [r for r in recs if r[1] != 'normal-params'][0]
        c.holds(f'generator_family_is_{want[0]}', r[2][0] == want[0], note=str(r[2][0]))
        c.holds('generator_parameters_are_those_of_the_own_density', c.And(same(r[2][1], want[1]), same(r[2][2], want[2])))
    else:
        r = recs[0]
        c.holds(f'generator_family_is_{want[0]}', r[2][0] == want[0], note=str(r[2][0]))
        kw = r[2][1]
        c.holds('generator_parameters_are_those_of_the_own_density', c.And(*[same(kw[k], v) for k, v in want[1].items()]) and set(kw) >= set(want[1]))


def rng_frame(c, fam):
    """with a generator given, no draw touches the global generator; without, only the global one is used"""
    n = 2
    mk = {'Normal': lambda: Normal(np.zeros(n), 1.0), 'Gaussian': lambda: Gaussian(np.zeros(n), 1.0), 'Laplace': lambda: Laplace(np.zeros(n), 1.0),
          'Uniform': lambda: Uniform(np.zeros(n), np.ones(n)), 'Gamma': lambda: Gamma(np.ones(n), np.ones(n)), 'Beta': lambda: Beta(2 * np.ones(n), 3 * np.ones(n)),
          'InverseGamma': lambda: InverseGamma(2 * np.ones(n), np.zeros(n), np.ones(n)), 'Cauchy': lambda: Cauchy(np.zeros(n), np.ones(n)),
          'Lognormal': lambda: Lognormal(np.zeros(n), 1.0)}[fam]
    d = mk()
    supplied = shims.NPRandom(np.random, ident='supplied')
    shims.RNG_LOG.clear(); d.sample(2, rng=supplied)
    idents = {r[0] for r in shims.RNG_LOG}
    c.holds('supplied_generator_used_exclusively', idents == {'supplied'}, note=str(idents))
    shims.RNG_LOG.clear(); d.sample(2)
    idents = {r[0] for r in shims.RNG_LOG}
    c.holds('global_generator_used_when_none_is_given', idents == {'global'}, note=str(idents))


def rng_determinism(c, fam):
    """native: draws are a deterministic function of the supplied generator's state and leave the global state untouched"""
    n = 2
    mk = {'Normal': lambda: Normal(np.zeros(n), 1.0), 'Gaussian': lambda: Gaussian(np.zeros(n), 1.0), 'Laplace': lambda: Laplace(np.zeros(n), 1.0),
          'Uniform': lambda: Uniform(np.zeros(n), np.ones(n)), 'Gamma': lambda: Gamma(np.ones(n), np.ones(n)), 'Beta': lambda: Beta(2 * np.ones(n), 3 * np.ones(n)),
          'InverseGamma': lambda: InverseGamma(2 * np.ones(n), np.zeros(n), np.ones(n)), 'Cauchy': lambda: Cauchy(np.zeros(n), np.ones(n)),
          'Lognormal': lambda: Lognormal(np.zeros(n), 1.0), 'GMRF': lambda: GMRF(np.zeros(4), 2.0, geometry=cuqi.geometry.Continuous1D(4))}[fam]
    d = mk(); seed = int(c.real('seed', lo=0, hi=1000))
    np.random.seed(123); before = np.random.get_state()[1].copy()
    a = d.sample(3, rng=np.random.RandomState(seed)).samples
    b = d.sample(3, rng=np.random.RandomState(seed)).samples
    after = np.random.get_state()[1]
    c.eq('same_generator_state_same_draws', a, b)
    c.holds('global_random_state_untouched', bool(np.all(before == after)))


def wrapping(c, fam='Gaussian'):
    n = 3
    g = cuqi.geometry.Continuous1D(n)
    d = Gaussian(c.vec('m', n), c.vec('v', n, pos=True), geometry=g) if fam == 'Gaussian' else Normal(c.vec('m', n), c.vec('v', n, pos=True), geometry=g)
    one = d.sample()
    c.holds('one_draw_is_array_with_the_distribution_geometry', isinstance(one, CUQIarray) and one.geometry == g and one.shape == (n,) and one.is_par)
    many = d.sample(4)
    c.holds('several_draws_are_a_sample_collection_with_one_column_per_draw', isinstance(many, Samples) and many.samples.shape == (n, 4) and many.geometry == g)
    cond = Gaussian(lambda mu: mu, 1.0, geometry=n)
    c.expect_raise('conditional_distribution_refuses_to_sample', lambda: cond.sample())
    c.expect_raise('conditional_distribution_refuses_to_sample_many', lambda: cond.sample(3))


def lognormal_is_exp_of_gaussian(c, n=2):
    m, v = c.vec('m', n), c.vec('v', n, pos=True)
    d = Lognormal(m, v)
    e = _normal_queue(c, (n, 1))
    s = d._sample(1)
    c.eq('draw_is_exp_of_affine_gaussian_draw', np.log(np.asarray(s)[:, 0]), m + np.sqrt(v) * e[:, 0], tol=1e-6)


def gmrf_cov(c, bc, order, N=5, two_d=False):
    """native, closed: B (from unit noise vectors) satisfies B B^T == pseudo-inverse of prec * P (on the range of P)"""
    import numpy.random as nr
    prec = 2.0
    if two_d: side = N; N = side * side
    g = GMRF(np.zeros(N), prec, bc_type=bc, order=order, geometry=cuqi.geometry.Image2D((side, side)) if two_d else cuqi.geometry.Continuous1D(N))
    P = prec * g._prec_op.get_matrix().toarray()
    saved = (nr.randn, nr.standard_normal)
    cols = []
    try:
        probe = []
        nr.randn = lambda *sh: probe.append(sh) or np.zeros(sh)
        nr.standard_normal = lambda size=None: probe.append(size) or np.zeros(size)
        s0 = np.asarray(g._sample(1)); shape = probe[0]
        c.holds('single_draw_has_the_dimension_of_the_distribution', s0.size == N, note=f"size {s0.size}")
        s0 = s0.reshape(-1)
        k = int(shape[0]); cplx = len(probe) > 1
        for j in range(k * (2 if cplx else 1)):
            calls = [0]
            def unit(*sh, j=j):
                sh = sh[0] if (len(sh) == 1 and isinstance(sh[0], tuple)) else sh
                z = np.zeros(sh); idx = calls[0]; calls[0] += 1
                if j // k == idx: z[j % k, 0] = 1.0
                return z
            nr.randn = unit; nr.standard_normal = lambda size=None: unit(size)
            cols.append(np.asarray(g._sample(1)).reshape(-1) - s0)
    finally:
        nr.randn, nr.standard_normal = saved
    B = np.array(cols).T
    cov = B @ B.T
    target = np.linalg.pinv(P)
    c.holds('draws_are_affine_in_the_noise_with_B_BT_equal_to_pseudo_inverse_of_precision', bool(np.allclose(cov, target, atol=1e-6)),
            note=f"first row of B B^T {np.round(cov[0], 4)} vs pinv {np.round(target[0], 4)}")


def jobs(tier):
    J = []
    q = tier == 'quick'
    GS = [f'{D}._gaussian:Gaussian._sample', f'{D}._distribution:Distribution.sample']
    for param in ('cov', 'prec', 'sqrtcov', 'sqrtprec'):
        for form in ('scalar', 'vector', 'dense_sym'):
            for N in (1, 2):
                J.append(Job(f'Gaussian._sample:{param}:{form}:N={N}', lambda c, p=param, f=form, N=N: gaussian_affine(c, p, f, 2, N), 'Pbox', GS, timeout=300))
    for form in ('lower', 'upper', 'full', 'sparse_upper'):
        J.append(Job(f'Gaussian._sample:sqrtprec:{form}:N=1', lambda c, f=form: gaussian_affine(c, 'sqrtprec', f, 2, 1), 'Pbox', GS, timeout=300))
    J.append(Job('Gaussian._sample:after_sqrtprec_reassignment', gaussian_reassign, 'Pbox', GS))
    mods = dict(Normal='_normal', Laplace='_laplace', Uniform='_uniform', Gamma='_gamma', Beta='_beta', InverseGamma='_inverse_gamma', Cauchy='_cauchy', Lognormal='_lognormal', Gaussian='_gaussian', GMRF='_gmrf')
    for fam in ('Normal', 'Laplace', 'Uniform', 'Gamma', 'Beta', 'InverseGamma', 'Cauchy'):
        J.append(Job(f'{fam}._sample:generator_denotes_own_density', lambda c, f=fam: law_tag(c, f), 'Pbox', [f'{D}.{mods[fam]}:{fam}._sample'], num=False))
    for fam in ('Normal', 'Gaussian', 'Laplace', 'Uniform', 'Gamma', 'Beta', 'InverseGamma', 'Cauchy', 'Lognormal'):
        J.append(Job(f'{fam}.sample:random_stream_frame', lambda c, f=fam: rng_frame(c, f), 'Pbox', [f'{D}.{mods[fam]}:{fam}._sample', f'{D}._distribution:Distribution.sample'], num=False))
    for fam in ('Normal', 'Gaussian', 'Laplace', 'Uniform', 'Gamma', 'Beta', 'InverseGamma', 'Cauchy', 'Lognormal', 'GMRF'):
        J.append(Job(f'{fam}.sample:deterministic_in_supplied_generator', lambda c, f=fam: rng_determinism(c, f), 'B', [f'{D}.{mods[fam]}:{fam}._sample'], nnum=3))
    for fam in ('Gaussian', 'Normal'):
        J.append(Job(f'{fam}.sample:wrapping_and_refusal', lambda c, f=fam: wrapping(c, f), 'Pbox', [f'{D}._distribution:Distribution.sample']))
    J.append(Job('Lognormal._sample:exp_of_gaussian', lognormal_is_exp_of_gaussian, 'Pbox', [f'{D}._lognormal:Lognormal._sample']))
    for bc in ('zero', 'neumann', 'periodic'):
        for order in (0, 1, 2):
            J.append(Job(f'GMRF._sample:covariance:{bc}:order={order}', lambda c, bc=bc, o=order: gmrf_cov(c, bc, o), 'B', [f'{D}._gmrf:GMRF._sample'], nnum=1))
            if bc == 'periodic': continue          # 2D periodic sampling is refused by the library (NotImplementedError): nothing to specify
            J.append(Job(f'GMRF._sample:covariance2D:{bc}:order={order}', lambda c, bc=bc, o=order: gmrf_cov(c, bc, o, 3 if o < 2 else 4, True), 'B', [f'{D}._gmrf:GMRF._sample'], nnum=1))
    return J
