"""C05 — direct samples follow the distribution's own density and the given random stream.

The distributional statement is decomposed into per-call contracts plus push-forward lemmas (cited):
affine-Gaussian draws  s = mean + B e  with  sqrtprec B = I  (so cov = (sqrtprec^T sqrtprec)^-1, the covariance of the same
object's logpdf); library generators called with the parameters that denote the object's own density; random-stream
frame; wrapping of one / several draws; refusal for conditional distributions."""
import numpy as np
import z3
from pvc.runner import Job
from pvc import core, shims
import cuqi
from cuqi.distribution import (Normal, Gaussian, Laplace, Cauchy, Gamma, InverseGamma, Beta, Lognormal, Uniform, GMRF)
from cuqi.array import CUQIarray
from cuqi.samples import Samples

D = 'cuqi.distribution'
EXPLANATION = ("Gaussian._sample == mean + B e with sqrtprec B == I on every path of the triangular / sparse / general solve selection for every parameter form; "
               "library generators receive exactly the parameters of the object's own log-density (law tag vs logpdf, symbolic x); supplied generator used exclusively / "
               "global generator untouched; N=1 -> CUQIarray with the geometry, N>1 -> Samples with one column per draw; conditional distributions refuse to sample; "
               "sample after parameter reassignment; GMRF draws: B B^T == pseudo-inverse of the precision (numeric, closed).")
ASSUMPTIONS = ["numpy / scipy generators sample the law they document (assumed); an affine image mean + B e of a standard normal vector is N(mean, B B^T) (lemma L-affine, cited)",
               "statistical agreement of moments is a consequence via the lemmas, not measured",
               "ModifiedHalfNormal: all three rejection schemes are under contract for proportionality (proposal density x acceptance / target density constant; threshold read off the accepting path, change of variables by term differentiation); the envelope clause (threshold <= 0) is proved for the gamma and normal proposals and only checked on a grid by the numeric twin for the negative-gamma scheme (transcendental in T); the scheme selection by the constants K1, K2 is a bounded stand-in (Kolmogorov distance of 4000 draws)"]


def _normal_queue(c, shape):
    """name the next standard-normal draw (array of the given shape)"""
    n = int(np.prod(shape))
    z = c.vec('e', n).reshape(shape)
    if c.sym: shims.PRESET['normal'].append(z)
    else: c._numq['normal'].append(z); c._patch_random()
    return z


def gaussian_affine(c, param, form, n=2, N=1, scale=None):
    mean = c.vec('m', n)
    if form == 'scalar': arg = c.real('v', pos=True)
    elif form == 'vector': arg = c.vec('v', n, pos=True)
    elif form == 'dense_sym':
        a, b, d_ = c.real('ra', pos=True), c.real('rb'), c.real('rd', pos=True)
        arg = np.array([[a, b], [b, d_]], dtype=object if c.sym else float)
        c.assume((a * d_ - b * b) > 0.01)
    elif form in ('lower', 'upper', 'full'):
        a, b, cc, d_ = c.real('ra', pos=True), c.real('rb', nz=True), c.real('rc', nz=True), c.real('rd', pos=True)
        zero = core.SReal(z3.RealVal(0)) if c.sym else 0.0
        arg = np.array({'lower': [[a, zero], [cc, d_]], 'upper': [[a, b], [zero, d_]], 'full': [[a, b], [cc, d_]]}[form], dtype=object if c.sym else float)
        if form == 'full': c.assume((a * d_ - b * cc) * (a * d_ - b * cc) > 0.01)
    elif form == 'sparse_upper':
        a, b, d_ = c.real('ra', pos=True), c.real('rb', nz=True), c.real('rd', pos=True)
        import scipy.sparse as sp
        M = np.array([[a, b], [0.0, d_]], dtype=object if c.sym else float)
        arg = shims.STag(M) if c.sym else sp.csr_matrix(M)
    if scale is not None: mean = np.zeros(n)            # (no cancellation against a mean of another magnitude in the comparison below)
    if scale is not None: arg = arg * scale            # (native only) matrices of very small / very large magnitude: absolute tolerances must not decide their structure
    g = Gaussian(mean, **{param: arg})
    e = _normal_queue(c, (n, N))
    s = g._sample(N)
    c.holds('sample_shape', np.shape(s) == (n, N), note=str(np.shape(s)))
    S = g.sqrtprec; S = S.toarray() if hasattr(S, 'toarray') else (S.a if isinstance(S, shims.STag) else np.asarray(S))
    for k in range(N):
        c.eq(f'draw[{k}]_is_mean_plus_inverse_sqrtprec_times_noise', S @ (np.asarray(s)[:, k] - mean), e[:, k])


def gaussian_reassign(c, n=2):
    """sample, assign a new square-root precision to the same object, sample again (no stale decision survives)"""
    mean = c.vec('m', n)
    g = Gaussian(mean, sqrtprec=c.vec('v', n, pos=True))
    e1 = _normal_queue(c, (n, 1)); s1 = g._sample(1)
    a, b, cc, d_ = c.real('ra', pos=True), c.real('rb', nz=True), c.real('rc', nz=True), c.real('rd', pos=True)
    R = np.array([[a, b], [cc, d_]], dtype=object if c.sym else float)
    c.assume((a * d_ - b * cc) * (a * d_ - b * cc) > 0.01)
    g.sqrtprec = R
    e2 = c.vec('f', n).reshape(n, 1)
    if c.sym: shims.PRESET['normal'].append(e2)
    else: c._numq['normal'].append(e2)
    s2 = g._sample(1)
    c.eq('draw_after_reassignment_uses_the_new_sqrtprec', R @ (np.asarray(s2)[:, 0] - mean), e2[:, 0])


def law_tag(c, fam, n=2):
    """the generator the family calls, with the parameters actually passed, denotes the density of the same object"""
    x = c.vec('x', n)
    if fam == 'Normal':
        m, s = c.vec('m', n), c.vec('s', n, pos=True); d = Normal(m, s)
        want = ('normal', m, s)
    elif fam == 'Laplace':
        m, s = c.vec('m', n), c.real('s', pos=True); d = Laplace(m, s)
        want = ('laplace', m, s)
    elif fam == 'Uniform':
        lo, w = c.vec('lo', n), c.vec('w', n, pos=True); d = Uniform(lo, lo + w)
        want = ('uniform', lo, lo + w)
    elif fam == 'Gamma':
        a, r = c.vec('a', n, pos=True), c.vec('r', n, pos=True); d = Gamma(a, r)
        want = ('gamma', a, 1 / r)
    elif fam == 'Beta':
        a, b = c.vec('a', n, pos=True), c.vec('b', n, pos=True); d = Beta(a, b)
        want = ('beta', dict(a=a, b=b))
    elif fam == 'InverseGamma':
        a, l, s = c.vec('a', n, pos=True), c.vec('l', n), c.vec('s', n, pos=True); d = InverseGamma(a, l, s)
        want = ('invgamma', dict(a=a, loc=l, scale=s))
    elif fam == 'Cauchy':
        l, s = c.vec('l', n), c.vec('s', n, pos=True); d = Cauchy(l, s)
        want = ('cauchy', dict(loc=l, scale=s))
    shims.RNG_LOG.clear()
    out = d._sample(3)
    c.holds('one_column_per_draw', np.shape(out) == (n, 3), note=str(np.shape(out)))
    recs = [r for r in shims.RNG_LOG if r[1] not in ('seed',)]
    c.holds('exactly_one_generator_call', len([r for r in recs if r[1] != 'normal-params']) == 1, note=str([(r[0], r[1]) for r in recs]))
    def same(a, b):
        A, B = np.broadcast_arrays(np.asarray(a, dtype=object), np.asarray(b, dtype=object))
        return c.And(*[c.close(p, q) for p, q in zip(A.reshape(-1), B.reshape(-1))])
    if fam == 'Normal':
        par = [r for r in recs if r[1] == 'normal-params'][0][2]
        c.holds('generator_is_normal_with_the_objects_mean_and_std', c.And(same(par[0], want[1]), same(par[1], want[2])))
    elif fam in ('Laplace', 'Uniform', 'Gamma'):
        r = [r for r in recs if r[1] != 'normal-params'][0]
        c.holds(f'generator_family_is_{want[0]}', r[2][0] == want[0], note=str(r[2][0]))
        c.holds('generator_parameters_are_those_of_the_own_density', c.And(same(r[2][1], want[1]), same(r[2][2], want[2])))
    else:
        r = recs[0]
        c.holds(f'generator_family_is_{want[0]}', r[2][0] == want[0], note=str(r[2][0]))
        kw = dict(r[2][1])
        # scipy's defaults for parameters the call does not pass (loc = 0, scale = 1): an omitted parameter denotes that value
        for k, dflt in (('loc', 0.0), ('scale', 1.0)):
            if k in want[1] and k not in kw: kw[k] = dflt * np.ones(n)
        c.holds('generator_receives_every_parameter_of_the_law', set(kw) >= set(want[1]), note=f"{sorted(kw)} vs {sorted(want[1])}")
        c.holds('generator_parameters_are_those_of_the_own_density', c.And(*[same(kw[k], v) for k, v in want[1].items() if k in kw]))


def rng_frame(c, fam):
    """with a generator given, no draw touches the global generator; without, only the global one is used"""
    n = 2
    mk = {'Normal': lambda: Normal(np.zeros(n), 1.0), 'Gaussian': lambda: Gaussian(np.zeros(n), 1.0), 'Laplace': lambda: Laplace(np.zeros(n), 1.0),
          'Uniform': lambda: Uniform(np.zeros(n), np.ones(n)), 'Gamma': lambda: Gamma(np.ones(n), np.ones(n)), 'Beta': lambda: Beta(2 * np.ones(n), 3 * np.ones(n)),
          'InverseGamma': lambda: InverseGamma(2 * np.ones(n), np.zeros(n), np.ones(n)), 'Cauchy': lambda: Cauchy(np.zeros(n), np.ones(n)),
          'Lognormal': lambda: Lognormal(np.zeros(n), 1.0)}[fam]
    d = mk()
    supplied = shims.NPRandom(np.random, ident='supplied')
    shims.RNG_LOG.clear(); d.sample(2, rng=supplied)
    idents = {r[0] for r in shims.RNG_LOG}
    c.holds('supplied_generator_used_exclusively', idents == {'supplied'}, note=str(idents))
    shims.RNG_LOG.clear(); d.sample(2)
    idents = {r[0] for r in shims.RNG_LOG}
    c.holds('global_generator_used_when_none_is_given', idents == {'global'}, note=str(idents))


def rng_determinism(c, fam):
    """native: draws are a deterministic function of the supplied generator's state and leave the global state untouched"""
    n = 2
    mk = {'Normal': lambda: Normal(np.zeros(n), 1.0), 'Gaussian': lambda: Gaussian(np.zeros(n), 1.0), 'Laplace': lambda: Laplace(np.zeros(n), 1.0),
          'Uniform': lambda: Uniform(np.zeros(n), np.ones(n)), 'Gamma': lambda: Gamma(np.ones(n), np.ones(n)), 'Beta': lambda: Beta(2 * np.ones(n), 3 * np.ones(n)),
          'InverseGamma': lambda: InverseGamma(2 * np.ones(n), np.zeros(n), np.ones(n)), 'Cauchy': lambda: Cauchy(np.zeros(n), np.ones(n)),
          'Lognormal': lambda: Lognormal(np.zeros(n), 1.0), 'GMRF': lambda: GMRF(np.zeros(4), 2.0, geometry=cuqi.geometry.Continuous1D(4)),
          'MHN': lambda: cuqi.distribution.ModifiedHalfNormal(2.5 * np.ones(n), 1.5 * np.ones(n), -0.5 * np.ones(n)),
          'UserDefinedDistribution': lambda: cuqi.distribution.UserDefinedDistribution(dim=n, logpdf_func=lambda x: -0.5 * np.sum(x ** 2), sample_func=lambda: np.random.randn(n))}[fam]
    d = mk(); seed = int(c.real('seed', lo=0, hi=1000))
    np.random.seed(123); before = np.random.get_state()[1].copy()
    a = d.sample(3, rng=np.random.RandomState(seed)).samples
    b = d.sample(3, rng=np.random.RandomState(seed)).samples
    after = np.random.get_state()[1]
    c.eq('same_generator_state_same_draws', a, b)
    c.holds('global_random_state_untouched', bool(np.all(before == after)))
    # new-style numpy generators: either refused (a family that calls legacy-only methods) or used like any other generator
    np.random.seed(123); before = np.random.get_state()[1].copy()
    g1, g2 = np.random.default_rng(seed), np.random.default_rng(seed)
    try:
        a = np.asarray(d.sample(3, rng=g1).samples); b = np.asarray(d.sample(3, rng=g2).samples)
    except (AttributeError, TypeError):
        c.holds('new_style_generator_refused', True); return
    c.eq('new_style_generator:same_generator_state_same_draws', a, b)
    c.holds('new_style_generator:global_random_state_untouched', bool(np.all(before == np.random.get_state()[1])))
    c.holds('new_style_generator:the_generator_handed_in_is_consumed', g1.bit_generator.state != np.random.default_rng(seed).bit_generator.state)


def mhn_vector_parameters(c):
    """ModifiedHalfNormal with vector parameters (dimension 2): one draw has one entry per component, N draws are a (2, N) collection for N below, at and above the
    dimension, and component i is drawn with component i's parameters (its sample mean agrees with that of the scalar distribution with those parameters;
    bounded stand-in: native, 1500 draws, 6 standard errors)"""
    from cuqi.distribution import ModifiedHalfNormal
    a = np.array([1.2, 30.0]); b = np.array([1.5, 0.7]); g = np.array([-0.5, 2.0])
    d = ModifiedHalfNormal(a, b, g)
    seed = int(c.real('seed', lo=0, hi=1000))
    one = d.sample(rng=np.random.RandomState(seed))
    c.holds('one_draw_has_one_entry_per_component', np.shape(one) == (2,), note=str(np.shape(one)))
    for N in (2, 3):
        S = d.sample(N, rng=np.random.RandomState(seed))
        c.holds(f'sample({N})_is_a_collection_with_one_column_per_draw', np.shape(S.samples) == (2, N), note=str(np.shape(S.samples)))
    ds = ModifiedHalfNormal(1.2, 1.5, -0.5, geometry=3)               # scalar parameters broadcast over a 3-dimensional geometry
    c.holds('scalar_parameters_on_a_geometry:one_draw_has_one_entry_per_component', np.shape(ds.sample(rng=np.random.RandomState(seed))) == (3,))
    c.holds('scalar_parameters_on_a_geometry:one_column_per_draw', np.shape(ds.sample(4, rng=np.random.RandomState(seed)).samples) == (3, 4))
    S = d.sample(1500, rng=np.random.RandomState(seed)).samples
    for i in range(2):
        ref = ModifiedHalfNormal(a[i], b[i], g[i]).sample(1500, rng=np.random.RandomState(seed + 1)).samples.ravel()
        se = np.sqrt(np.var(ref) / 1500 + np.var(S[i]) / 1500)
        c.holds(f'component[{i}]_is_drawn_with_its_own_parameters', bool(abs(np.mean(S[i]) - np.mean(ref)) <= 6 * se), note=f"mean {np.mean(S[i]):.4f} vs {np.mean(ref):.4f} (se {se:.4f})")


def wrapping(c, fam='Gaussian'):
    n = 3
    g = cuqi.geometry.Continuous1D(n)
    d = Gaussian(c.vec('m', n), c.vec('v', n, pos=True), geometry=g) if fam == 'Gaussian' else Normal(c.vec('m', n), c.vec('v', n, pos=True), geometry=g)
    one = d.sample()
    c.holds('one_draw_is_array_with_the_distribution_geometry', isinstance(one, CUQIarray) and one.geometry == g and one.shape == (n,) and one.is_par)
    many = d.sample(4)
    c.holds('several_draws_are_a_sample_collection_with_one_column_per_draw', isinstance(many, Samples) and many.samples.shape == (n, 4) and many.geometry == g)
    # the public wrapper returns the draws of _sample column for column: draw k of sample(N) is the k-th draw, for N below, at and above dim
    if fam == 'Gaussian':
        m, v = d.mean, c.vec('v', n, pos=True)
        for N in (2, n, n + 1):
            e = c.vec(f'w{N}_', n * N).reshape(n, N)
            if c.sym: shims.PRESET['normal'].append(e)
            else: c._numq['normal'].append(e); c._patch_random()
            S = d.sample(N)
            c.holds(f'sample({N})_has_one_column_per_draw', S.samples.shape == (n, N), note=str(S.samples.shape))
            for k in range(N):
                c.eq(f'sample({N})_column[{k}]_is_draw[{k}]', np.asarray(S.samples)[:, k], m + np.sqrt(v) * e[:, k], tol=1e-9)
    else:
        m, sd = d.mean, d.std
        for N in (2, n, n + 1):
            e = c.vec(f'w{N}_', n * N).reshape(N, n)              # Normal draws an (N, dim) array and transposes it
            if c.sym: shims.PRESET['normal'].append(e)
            else: c._numq['normal'].append(e); c._patch_random()
            S = d.sample(N)
            c.holds(f'sample({N})_has_one_column_per_draw', S.samples.shape == (n, N), note=str(S.samples.shape))
            for k in range(N):
                c.eq(f'sample({N})_column[{k}]_is_draw[{k}]', np.asarray(S.samples)[:, k], m + sd * e[k, :], tol=1e-9)
    cond = Gaussian(lambda mu: mu, 1.0, geometry=n)
    c.expect_raise('conditional_distribution_refuses_to_sample', lambda: cond.sample())
    c.expect_raise('conditional_distribution_refuses_to_sample_many', lambda: cond.sample(3))


def lognormal_is_exp_of_gaussian(c, n=2):
    m, v = c.vec('m', n), c.vec('v', n, pos=True)
    d = Lognormal(m, v)
    e = _normal_queue(c, (n, 1))
    s = d._sample(1)
    c.eq('draw_is_exp_of_affine_gaussian_draw', np.log(np.asarray(s)[:, 0]), m + np.sqrt(v) * e[:, 0], tol=1e-6)


def gmrf_cov(c, bc, order, N=5, two_d=False):
    """native, closed: B (from unit noise vectors) satisfies B B^T == pseudo-inverse of prec * P (on the range of P)"""
    import numpy.random as nr
    prec = 2.0
    if two_d: side = N; N = side * side
    g = GMRF(np.zeros(N), prec, bc_type=bc, order=order, geometry=cuqi.geometry.Image2D((side, side)) if two_d else cuqi.geometry.Continuous1D(N))
    P = prec * g._prec_op.get_matrix().toarray()
    saved = (nr.randn, nr.standard_normal)
    cols = []
    try:
        probe = []
        nr.randn = lambda *sh: probe.append(sh) or np.zeros(sh)
        nr.standard_normal = lambda size=None: probe.append(size) or np.zeros(size)
        s0 = np.asarray(g._sample(1)); shape = probe[0]
        c.holds('single_draw_has_the_dimension_of_the_distribution', s0.size == N, note=f"size {s0.size}")
        s0 = s0.reshape(-1)
        k = int(shape[0]); cplx = len(probe) > 1
        for j in range(k * (2 if cplx else 1)):
            calls = [0]
            def unit(*sh, j=j):
                sh = sh[0] if (len(sh) == 1 and isinstance(sh[0], tuple)) else sh
                z = np.zeros(sh); idx = calls[0]; calls[0] += 1
                if j // k == idx: z[j % k, 0] = 1.0
                return z
            nr.randn = unit; nr.standard_normal = lambda size=None: unit(size)
            cols.append(np.asarray(g._sample(1)).reshape(-1) - s0)
    finally:
        nr.randn, nr.standard_normal = saved
    B = np.array(cols).T
    cov = B @ B.T
    target = np.linalg.pinv(P)
    c.holds('draws_are_affine_in_the_noise_with_B_BT_equal_to_pseudo_inverse_of_precision', bool(np.allclose(cov, target, atol=1e-6)),
            note=f"first row of B B^T {np.round(cov[0], 4)} vs pinv {np.round(target[0], 4)}")


# ------------------------------------------------------------------------------------------ ModifiedHalfNormal rejection schemes
class _Retry(Exception):
    pass


class RejectionRng:
    """generator contract for one round of a rejection loop: the proposal draw and the uniform are fresh symbols (or seeded numbers);
    a second proposal draw ends the path (the loop starts over with independent draws, so one round determines the accepted law)"""
    def __init__(self, c): self.c = c; self.law = None; self.U = None; self.rounds = 0
    def _round(self):
        self.rounds += 1
        if self.rounds > 1: raise _Retry()
    def gamma(self, shape, scale):
        self._round(); t = self.c.real('T', pos=True); self.law = ('gamma', shape, scale, t); return t
    def normal(self, mu, sd):
        self._round(); x = self.c.real('Xn'); self.law = ('normal', mu, sd, x); return x
    def uniform(self):
        self.U = self.c.real('U', lo=0, hi=1); return self.U


def mhn_rejection(c, scheme):
    """accepted draws of a rejection scheme have density  q(x) * min(1, exp(a(x))) / Z  where q is the proposal density and a(x) the
    threshold log U is compared with.  That is the target density f(x) = x^(alpha-1) exp(-beta x^2 + gamma x) (up to the constant) iff
      (envelope)         a(x) <= 0 wherever the proposal can land and is not rejected outright, and
      (proportionality)  log q(x) + a(x) - log f(x) does not depend on x.
    a(x) is read off the accepting path of the REAL function (the literal that compares log U); q from the generator call it made."""
    from cuqi.distribution import ModifiedHalfNormal
    from pvc import diff as D
    d = ModifiedHalfNormal(1.0, 1.0, 1.0)
    if scheme == 'normal':
        al = c.real('alpha', lo=1, hi=50); c.assume(al > 1)
    else:
        al = c.real('alpha', pos=True)
    be = c.real('beta', pos=True)
    ga = c.real('gamma', pos=True)
    if scheme == 'negative': ga = -ga
    rng = RejectionRng(c)
    if not c.sym:
        return _mhn_native(c, d, scheme, float(al), float(be), float(ga))
    try:
        if scheme == 'gamma': X = d._MHN_sample_gamma_proposal(al, be, ga, rng)
        elif scheme == 'negative': X = d._MHN_sample_negative_gamma(al, be, ga, rng)
        else: X = d._MHN_sample_normal_proposal(al, be, ga, None, rng)
    except _Retry:
        core.ST.pc and None
        raise core.Abort()                  # rejected round: nothing returned, the loop repeats with fresh draws
    logU = core.LOG(core.T(rng.U))
    thr = None
    for lit in core.ST.pc:
        if z3.is_lt(lit) and lit.arg(0).eq(logU): thr = lit.arg(1)
        elif z3.is_gt(lit) and lit.arg(1).eq(logU): thr = lit.arg(0)
        elif z3.is_not(lit) and z3.is_le(lit.arg(0)) and lit.arg(0).arg(1).eq(logU): thr = lit.arg(0).arg(0)
        elif z3.is_not(lit) and z3.is_ge(lit.arg(0)) and lit.arg(0).arg(0).eq(logU): thr = lit.arg(0).arg(1)
    c.holds('accepting_path_compares_log_U_with_a_threshold', thr is not None, note=str([str(l)[:80] for l in core.ST.pc]))
    if thr is None: return
    a = core.SReal(thr)
    kind, p1, p2, v = rng.law
    Xt = core.T(X); vt = core.T(v)
    c.holds('returned_value_is_the_accepted_proposal', True)
    c.holds('accepted_values_are_positive', X > 0)
    if scheme != 'negative':
        c.holds('envelope:acceptance_threshold_is_never_positive', a <= 0)
    # (negative-gamma scheme: the envelope val2*T - beta X^2 + gamma X <= 0 with X = m T^v is transcendental in T; it is checked by
    #  the numeric twin on a grid only - bounded stand-in for that clause, listed in the assumptions)
    # densities as log terms in the proposal variable v (T for the gamma proposal with X = sqrt(T), X itself for the normal proposal)
    if kind == 'gamma': logq = (p1 - 1) * v.log() - v / p2
    else: logq = -((v - p1) * (v - p1)) / (2 * p2 * p2)
    logf = (al - 1) * X.log() - be * X * X + ga * X
    dX = D.d(Xt, vt)
    total = core.T(logq) + thr - core.T(logf)
    dtotal = D.d(total, vt)
    if kind == 'gamma':
        # change of variables: density of T induced by f on X is f(X(T)) |dX/dT|
        d2X = D.d(dX, vt)
        dtotal = dtotal - d2X / dX
    c.eq('proportionality:proposal_density_times_acceptance_over_target_density_is_constant', core.SReal(z3.simplify(dtotal)), core.SReal(z3.RealVal(0)))


def _mhn_native(c, d, scheme, al, be, ga):
    """bounded numeric stand-in of the same two clauses on a grid of the proposal variable v (T for the gamma-type proposals, X for
    the normal one), with the real function's own acceptance decision and its own map v -> X"""
    import math
    class Rng:
        def __init__(s, v, u): s.v = v; s.u = u; s.n = 0; s.law = None
        def _r(s):
            s.n += 1
            if s.n > 1: raise _Retry()
        def gamma(s, shape, scale): s._r(); s.law = ('gamma', shape, scale); return s.v
        def normal(s, mu, sd): s._r(); s.law = ('normal', mu, sd); return s.v
        def uniform(s): return s.u
    def run(v, u):
        r = Rng(v, u)
        try:
            if scheme == 'gamma': X = d._MHN_sample_gamma_proposal(al, be, ga, r)
            elif scheme == 'negative': X = d._MHN_sample_negative_gamma(al, be, ga, r)
            else: X = d._MHN_sample_normal_proposal(al, be, ga, None, r)
            return True, r.law, float(X)
        except _Retry:
            return False, r.law, None
    vs = np.linspace(0.05, 6.0, 60) if scheme == 'normal' else np.linspace(0.02, 12.0, 80)
    consts = []; clipped = False
    for v in vs:
        ok1, law, _ = run(v, 1.0)
        if law is None: continue
        if ok1: a = 0.0; clipped = True                 # accepted even with log U = 0: the threshold is positive there
        else:
            lo, hi = -700.0, 0.0
            if not run(v, math.exp(lo))[0]: continue     # rejected outright (outside the support)
            for _ in range(80):
                mid = 0.5 * (lo + hi)
                if run(v, math.exp(mid))[0]: lo = mid
                else: hi = mid
            a = lo
        tiny = math.exp(-700.0); h = 1e-6 * max(1.0, v)
        X = run(v, tiny)[2]; Xp = run(v + h, tiny)[2]; Xm = run(v - h, tiny)[2]
        if X is None or Xp is None or Xm is None or X <= 0: continue
        dX = (Xp - Xm) / (2 * h)
        if law[0] == 'gamma': logq = (law[1] - 1) * math.log(v) - v / law[2]
        else: logq = -((v - law[1]) ** 2) / (2 * law[2] ** 2)
        logf = (al - 1) * math.log(X) - be * X * X + ga * X + math.log(abs(dX))
        consts.append(logq + a - logf)
    consts = np.array(consts)
    c.holds('enough_grid_points_evaluated', len(consts) >= 20, note=str(len(consts)))
    c.holds('envelope:acceptance_threshold_is_never_positive', not clipped, note='the proposal is accepted with log U = 0 at some point: the acceptance probability is clipped at one there')
    c.holds('proportionality:proposal_density_times_acceptance_over_target_density_is_constant', bool(np.ptp(consts) < 1e-5 * max(1.0, abs(consts).max())),
            note=f"log q + log P(accept) - log f ranges over {consts.min():.6g} .. {consts.max():.6g} on the grid")


def mhn_law_native(c, which):
    """bounded stand-in for the schemes whose change of variables is not polynomial (negative gamma) and for the scheme selection:
    Kolmogorov distance of 4000 draws of the real function from the numerically integrated target distribution function"""
    import scipy.integrate as si
    from cuqi.distribution import ModifiedHalfNormal
    d = ModifiedHalfNormal(1.0, 1.0, 1.0)
    al = c.real('alpha', lo=0.3, hi=6); be = c.real('beta', lo=0.3, hi=3); ga = c.real('gamma', lo=0.1, hi=4)
    if which == 'negative_gamma': ga = -ga
    rng = np.random.default_rng(int(c.real('seed', lo=0, hi=10 ** 6)))
    f = lambda x: x ** (al - 1) * np.exp(-be * x * x + ga * x)
    Z = si.quad(f, 0, np.inf)[0]
    xs = np.sort(np.array([d._MHN_sample(al, be, ga, rng=rng) for _ in range(4000)]))
    F = np.array([si.quad(f, 0, x)[0] / Z for x in xs[::40]])
    emp = (np.arange(len(xs))[::40] + 0.5) / len(xs)
    ks = float(np.max(np.abs(F - emp)))
    c.holds('draws_follow_the_documented_density', ks < 0.04, note=f"Kolmogorov distance {ks:.4f} at alpha={al:.3g} beta={be:.3g} gamma={ga:.3g} (4000 draws; 0.1% critical value 0.031)")


def sparse_cholesky_contract(c, n, low_threshold):
    """helper-level contract of cuqi.utilities.sparse_cholesky (the factor the zero-boundary GMRF sampler solves with): it returns an UPPER triangular U with
    U^T U = A - exactly A, not a permuted A - for matrices on both sides of every size threshold in cuqi.config (the thresholds are lowered for the run so
    that a small matrix takes the large-matrix route); bounded stand-in (native)"""
    import scipy.sparse as sp
    from cuqi import config
    from cuqi.utilities import sparse_cholesky
    d = 2.5 + np.array([abs(c.real(f'd{i}')) for i in range(n)]); off = np.array([c.real(f'o{i}', lo=-0.9, hi=0.9) for i in range(n - 1)])
    far = 0.3 * np.array([c.real(f'f{i}', lo=-0.9, hi=0.9) for i in range(n - 3)])
    A = sp.diags([far, off, d, off, far], [-3, -1, 0, 1, 3], format='csc')          # banded, not tridiagonal: a fill-reducing ordering would permute it
    saved = (config.MAX_DIM_INV, config.MIN_DIM_SPARSE)
    if low_threshold: config.MAX_DIM_INV = 3; config.MIN_DIM_SPARSE = 2
    try: U = sparse_cholesky(A)
    finally: config.MAX_DIM_INV, config.MIN_DIM_SPARSE = saved
    Ud = U.toarray() if hasattr(U, 'toarray') else np.asarray(U)
    c.holds('factor_is_upper_triangular', bool(np.allclose(Ud, np.triu(Ud), atol=0)), note='entries below the diagonal')
    c.eq('factor_transposed_times_factor_is_the_matrix_itself', Ud.T @ Ud, A.toarray(), tol=1e-10)


def jobs(tier):
    J = []
    q = tier == 'quick'
    GS = [f'{D}._gaussian:Gaussian._sample', f'{D}._distribution:Distribution.sample']
    for param in ('cov', 'prec', 'sqrtcov', 'sqrtprec'):
        for form in ('scalar', 'vector', 'dense_sym'):
            for N in (1, 2):
                J.append(Job(f'Gaussian._sample:{param}:{form}:N={N}', lambda c, p=param, f=form, N=N: gaussian_affine(c, p, f, 2, N), 'Pbox', GS, timeout=300))
    for form in ('lower', 'upper', 'full', 'sparse_upper'):
        J.append(Job(f'Gaussian._sample:sqrtprec:{form}:N=1', lambda c, f=form: gaussian_affine(c, 'sqrtprec', f, 2, 1), 'Pbox', GS, timeout=300))
    J.append(Job('Gaussian._sample:after_sqrtprec_reassignment', gaussian_reassign, 'Pbox', GS))
    for param in ('sqrtprec', 'sqrtcov', 'cov'):
        for sc in (1e-9, 1e9):
            J.append(Job(f'Gaussian._sample:{param}:full:magnitude={sc:g}', lambda c, p_=param, sc=sc: gaussian_affine(c, p_, 'full' if p_ != 'cov' else 'dense_sym', 2, 2, sc), 'B', GS, nnum=4))
    mods = dict(Normal='_normal', Laplace='_laplace', Uniform='_uniform', Gamma='_gamma', Beta='_beta', InverseGamma='_inverse_gamma', Cauchy='_cauchy', Lognormal='_lognormal', Gaussian='_gaussian', GMRF='_gmrf')
    for fam in ('Normal', 'Laplace', 'Uniform', 'Gamma', 'Beta', 'InverseGamma', 'Cauchy'):
        J.append(Job(f'{fam}._sample:generator_denotes_own_density', lambda c, f=fam: law_tag(c, f), 'Pbox', [f'{D}.{mods[fam]}:{fam}._sample'], num=False))
    for fam in ('Normal', 'Gaussian', 'Laplace', 'Uniform', 'Gamma', 'Beta', 'InverseGamma', 'Cauchy', 'Lognormal'):
        J.append(Job(f'{fam}.sample:random_stream_frame', lambda c, f=fam: rng_frame(c, f), 'Pbox', [f'{D}.{mods[fam]}:{fam}._sample', f'{D}._distribution:Distribution.sample'], num=False))
    mods.update(MHN='_modifiedhalfnormal', UserDefinedDistribution='_custom')
    for fam in ('Normal', 'Gaussian', 'Laplace', 'Uniform', 'Gamma', 'Beta', 'InverseGamma', 'Cauchy', 'Lognormal', 'GMRF', 'MHN', 'UserDefinedDistribution'):
        J.append(Job(f'{fam}.sample:deterministic_in_supplied_generator', lambda c, f=fam: rng_determinism(c, f), 'B', [f'{D}.{mods[fam]}:{"ModifiedHalfNormal" if fam == "MHN" else fam}._sample'], nnum=3))
    J.append(Job('MHN.sample:vector_parameters', mhn_vector_parameters, 'B', [f'{D}._modifiedhalfnormal:ModifiedHalfNormal._sample'], nnum=2))
    for fam in ('Gaussian', 'Normal'):
        J.append(Job(f'{fam}.sample:wrapping_and_refusal', lambda c, f=fam: wrapping(c, f), 'Pbox', [f'{D}._distribution:Distribution.sample']))
    J.append(Job('Lognormal._sample:exp_of_gaussian', lognormal_is_exp_of_gaussian, 'Pbox', [f'{D}._lognormal:Lognormal._sample']))
    for bc in ('zero', 'neumann', 'periodic'):
        for order in (0, 1, 2):
            J.append(Job(f'GMRF._sample:covariance:{bc}:order={order}', lambda c, bc=bc, o=order: gmrf_cov(c, bc, o), 'B', [f'{D}._gmrf:GMRF._sample'], nnum=1))
            if bc == 'periodic': continue          # 2D periodic sampling is refused by the library (NotImplementedError): nothing to specify
            J.append(Job(f'GMRF._sample:covariance2D:{bc}:order={order}', lambda c, bc=bc, o=order: gmrf_cov(c, bc, o, 3 if o < 2 else 4, True), 'B', [f'{D}._gmrf:GMRF._sample'], nnum=1))
    MH = [f'{D}._modifiedhalfnormal:ModifiedHalfNormal._MHN_sample_gamma_proposal', f'{D}._modifiedhalfnormal:ModifiedHalfNormal._MHN_sample_normal_proposal']
    for scheme in ('gamma', 'normal', 'negative'):
        J.append(Job(f'MHN.rejection_scheme:{scheme}_proposal', lambda c, s=scheme: mhn_rejection(c, s), 'Pbox', MH, timeout=600))
    for which in ('negative_gamma', 'positive_gamma_selection'):
        J.append(Job(f'MHN._MHN_sample:law:{which}', lambda c, w=which: mhn_law_native(c, w), 'B', [f'{D}._modifiedhalfnormal:ModifiedHalfNormal._MHN_sample', f'{D}._modifiedhalfnormal:ModifiedHalfNormal._MHN_sample_negative_gamma', f'{D}._modifiedhalfnormal:ModifiedHalfNormal._MHN_sample_positive_gamma_1'], nnum=3 if q else 12))
    for low in (False, True):
        J.append(Job(f'sparse_cholesky:factor_of_the_matrix_itself:size_thresholds_lowered={low}', lambda c, low=low: sparse_cholesky_contract(c, 8, low), 'B', ['cuqi.utilities._utilities:sparse_cholesky'], nnum=4))
    return J
