"""C15 — MAP/ML estimates are true maximisers; direct Gaussian sampling has exact moments."""
import types
import numpy as np
import z3
from pvc.runner import Job
from pvc import frame, core, shims, diff
from pvc.shims import Forward
import cuqi
from cuqi.distribution import Gaussian, Cauchy
from cuqi.model import LinearModel, Model
from cuqi.problem import BayesianProblem
import cuqi.problem._problem as PM

PR = 'cuqi.problem._problem'
EXPLANATION = ("closed-form branch: for every Gaussian input form of noise and prior, non-zero prior mean, sizes m,n in {1,2}, identity-like and expansion geometries: "
               "MAP() either raises or returns x with grad posterior.logd(x) == 0 (term differentiation of the posterior's own log-density; strictly concave => the maximiser = closed-form mean); "
               "direct sampling: draw = x_MAP + L e with (-Hessian) L L^T == I; optimisation route: objective passed == -density.logd, gradient passed == -density.gradient, result returned unchanged, ML uses the likelihood.")
ASSUMPTIONS = ["that SciPy's optimiser returns a true maximiser of a non-linear posterior is not decidable by contracts (clause-level not applicable); the numeric twin checks first-order optimality on generated unimodal problems",
               "a strictly concave quadratic has a unique stationary point, which is its maximiser (cited)"]


def _g(c, name, mean, form, n, param, geometry=None, gname=None):
    if form == 'scalar': arg = c.real(f'{name}_v', pos=True)
    elif form == 'vector': arg = c.vec(f'{name}_v', n, pos=True)
    elif form == 'dense':
        G = c.lower(f'{name}_g', n); arg = G @ G.T
    kw = {param: arg}
    if geometry is not None: kw['geometry'] = geometry
    if gname: kw['name'] = gname
    return Gaussian(mean, **kw)


def _problem(c, m, n, noise_form, prior_form, noise_param='cov', prior_param='cov', geom='default'):
    A = c.mat('A', m, n)
    if geom == 'subsample_view':
        # function-backed model whose forward returns a VIEW of its input (every second component), adjoint = zero-filling
        n = 2 * m
        def _adj(y):
            out = np.zeros(n, dtype=object if c.sym else float); out[::2] = y; return out
        model = LinearModel(lambda x: x[::2], _adj, range_geometry=m, domain_geometry=n)
    elif geom == 'default': model = LinearModel(A)
    elif geom == 'Continuous1D': model = LinearModel(A, range_geometry=cuqi.geometry.Continuous1D(m), domain_geometry=cuqi.geometry.Continuous1D(n))
    elif geom == 'KLfull':
        # expansion geometry with as many modes as nodes (par_dim == fun_dim): the stored matrix acts on FUNCTION values
        gd = cuqi.geometry.KLExpansion(np.arange(n), num_modes=n)
        model = LinearModel(A, range_geometry=m, domain_geometry=gd)
    elif geom == 'Step':
        gd = cuqi.geometry.StepExpansion(np.linspace(0, 1, 2 * n), n_steps=n)
        A = c.mat('A', m, 2 * n); model = LinearModel(A, range_geometry=m, domain_geometry=gd)
    x = _g(c, 'prior', c.vec('mu', n), prior_form, n, prior_param, geometry=model.domain_geometry if geom not in ('default', 'subsample_view') else None, gname='x')
    y = _g(c, 'noise', model(x), noise_form, m, noise_param, geometry=m if geom in ('default', 'subsample_view') else model.range_geometry, gname='y')
    data = c.vec('yobs', m)
    return BayesianProblem(y, x).set_data(y=data), n


def _documented_precision(c, name, form, n, param):
    """the precision matrix DOCUMENTED for a Gaussian given through `param` (cov: Sigma; prec: Sigma^-1; sqrtcov R: R^T R; sqrtprec R:
    (R^T R)^-1) - rebuilt from the same named inputs the problem was built from, independently of the Gaussian object"""
    if form == 'scalar': v = np.array([c.real(f'{name}_v', pos=True)] * n, dtype=object if c.sym else float)
    elif form == 'vector': v = c.vec(f'{name}_v', n, pos=True)
    else: return None
    d = {'cov': 1 / v, 'prec': v, 'sqrtcov': 1 / v ** 2, 'sqrtprec': v ** 2}[param]
    P = np.zeros((n, n), dtype=object if c.sym else float)
    for i in range(n): P[i, i] = d[i]
    return P


def map_documented(c, m, n, noise_form, prior_form, noise_param, prior_param, compute_cov=False):
    """independent oracle: the estimate solves the normal equations of the posterior DOCUMENTED by the inputs,
    (A^T Pn A + Pp) x = A^T Pn y + Pp mu, whatever internal square roots the Gaussian objects hold; a refusal is admissible"""
    BP, n = _problem(c, m, n, noise_form, prior_form, noise_param, prior_param, 'default')
    if compute_cov:
        BP.prior.compute_cov(); BP.likelihood.distribution.compute_cov()        # the documented way to reach the closed form
    xmap = np.asarray(BP.MAP(disp=False))
    A = c.mat('A', m, n); mu = c.vec('mu', n); y = c.vec('yobs', m)
    Pn = _documented_precision(c, 'noise', noise_form, m, noise_param); Pp = _documented_precision(c, 'prior', prior_form, n, prior_param)
    c.eq('estimate_solves_the_normal_equations_of_the_documented_posterior', (A.T @ Pn @ A + Pp) @ xmap, A.T @ (Pn @ y) + Pp @ mu, tol=1e-6)


def estimates_with_small_magnitude_matrices(c, param):
    """noise given by a FULL matrix (covariance or precision) whose entries are tiny in absolute terms (standard deviations around 1e-5 / precisions around
    1e-9) but strongly correlated: ML and MAP (after compute_cov() where the direct route needs it) are the maximisers of the documented posterior - the
    correlations are not below any meaningful tolerance (bounded stand-in: native)"""
    import io, contextlib, warnings
    m, n = 3, 2
    A = np.array([[c.real(f'A{i}{j}') for j in range(n)] for i in range(m)]) + np.vstack([np.eye(n), np.ones((1, n))])
    y = np.array([c.real(f'y{i}') for i in range(m)])
    Cmat = np.array([[1.0, 0.9, 0.5], [0.9, 1.0, 0.9], [0.5, 0.9, 1.0]]) + 0.2 * np.eye(m)           # strongly correlated
    scale = 1e-10 if param == 'cov' else 1e-9
    M = scale * Cmat
    Pn = np.linalg.inv(M) if param == 'cov' else M                                                 # documented noise precision
    pv = 1e-10 if param == 'cov' else 1e9                                                          # prior on the same scale, so that both terms matter
    x = Gaussian(np.zeros(n), pv, name='x'); ynoise = Gaussian(LinearModel(A)(x), **{param: M}, name='y')
    BP = BayesianProblem(ynoise, x).set_data(y=y * (1e-5 if param == 'cov' else 1e4))
    data = np.asarray(BP.data, dtype=float)
    with contextlib.redirect_stdout(io.StringIO()), warnings.catch_warnings():
        warnings.simplefilter('ignore')
        try: ml = np.asarray(BP.ML(disp=False), dtype=float)       # (param == 'prec': precisions around 1e-9 put the gradient below SciPy's ABSOLUTE tolerance at every
        except Exception: ml = None                                 # point - the start vector comes back as "the estimate"; an earlier version skipped this case: finding)
        if param == 'prec': BP.likelihood.distribution.compute_cov(); BP.prior.compute_cov()
        try: mp = np.asarray(BP.MAP(disp=False), dtype=float)
        except Exception: mp = None
    ref_ml = np.linalg.solve(A.T @ Pn @ A, A.T @ Pn @ data)
    ref_map = np.linalg.solve(A.T @ Pn @ A + np.eye(n) / pv, A.T @ Pn @ data)
    for nm, est, ref in (('ML', ml, ref_ml), ('MAP', mp, ref_map)):
        if isinstance(est, str): continue
        if est is None: c.holds(f'{nm}:failure_is_reported_by_raising', True); continue
        c.holds(f'{nm}:estimate_is_the_maximiser_of_the_documented_posterior', bool(np.linalg.norm(est - ref) <= 1e-3 * (np.linalg.norm(ref) + 1e-300)),
                note=f"estimate {est} vs closed form {ref}")


def ml_weakly_informative(c, noise_std):
    """the same well-posed least-squares problem (6 x 3, full column rank) with the noise level in other units: the ML estimate is the least-squares solution
    whatever the noise variance (it does not depend on it) - or the call fails; it is never the start vector (bounded stand-in: native)"""
    import io, contextlib, warnings
    m, n = 6, 3
    A = np.array([[c.real(f'A{i}{j}') for j in range(n)] for i in range(m)]) + np.vstack([np.eye(n), np.eye(n)])
    xt = np.array([3.0, -2.0, 5.0]); y = A @ xt + noise_std * np.array([c.real(f'e{i}') for i in range(m)]) * 0.1
    x = Gaussian(np.zeros(n), 1.0, name='x'); yd = Gaussian(LinearModel(A)(x), noise_std ** 2, name='y')
    BP = BayesianProblem(yd, x).set_data(y=y)
    with contextlib.redirect_stdout(io.StringIO()), warnings.catch_warnings():
        warnings.simplefilter('ignore')
        try: ml = np.asarray(BP.ML(disp=False), dtype=float)
        except Exception: c.holds('ML:estimate_is_the_least_squares_solution_or_the_call_fails', True); return
    ref = np.linalg.lstsq(np.asarray(A, dtype=float), np.asarray(y, dtype=float), rcond=None)[0]
    c.holds('ML:estimate_is_the_least_squares_solution_or_the_call_fails', bool(np.linalg.norm(ml - ref) <= 1e-3 * np.linalg.norm(ref)), note=f"estimate {ml} vs least squares {ref}")


def estimates_across_sparse_switch(c, param, who):
    """full (correlated, dense) covariance / precision matrices of noise or prior on the SPARSE side of the storage switch (config.MIN_DIM_SPARSE, the
    route dimensions above 75 take: eigen-decomposition, sparse factors): ML, MAP through the optimiser and the direct MAP after compute_cov() are the
    maximisers of the DOCUMENTED posterior (built here from the user's matrices, not from the object's own log-density); bounded stand-in (native)"""
    import io, contextlib, warnings
    from cuqi import config
    m, n = 4, 3
    A = np.array([[c.real(f'A{i}{j}') for j in range(n)] for i in range(m)]) + np.vstack([np.eye(n), np.ones((1, n))])
    y = np.array([c.real(f'y{i}') for i in range(m)])
    def spd(k, tag):
        G = np.tril(np.array([[c.real(f'{tag}{i}{j}') for j in range(k)] for i in range(k)]))
        return G @ G.T + 0.5 * np.eye(k)
    Mn, Mp = spd(m, 'N'), spd(n, 'P')
    mu = np.array([c.real(f'mu{i}') for i in range(n)])
    old = config.MIN_DIM_SPARSE; config.MIN_DIM_SPARSE = 0
    try:
        nkw = {param: Mn} if who in ('noise', 'both') else {'cov': np.diag(np.diag(Mn))}
        pkw = {param: Mp} if who in ('prior', 'both') else {'cov': np.diag(np.diag(Mp))}
        Pn = (np.linalg.inv(Mn) if param == 'cov' else Mn) if who in ('noise', 'both') else np.diag(1 / np.diag(Mn))       # documented precisions
        Pp = (np.linalg.inv(Mp) if param == 'cov' else Mp) if who in ('prior', 'both') else np.diag(1 / np.diag(Mp))
        x = Gaussian(mu, name='x', **pkw); yd = Gaussian(LinearModel(A)(x), name='y', **nkw)
        BP = BayesianProblem(yd, x).set_data(y=y)
        with contextlib.redirect_stdout(io.StringIO()), warnings.catch_warnings():
            warnings.simplefilter('ignore')
            ml = np.asarray(BP.ML(disp=False, x0=np.zeros(n)), dtype=float)
            BP.likelihood.distribution.compute_cov() if param != 'cov' else None
            BP.prior.compute_cov() if param != 'cov' else None
            mp = BP.MAP(disp=False)
    finally:
        config.MIN_DIM_SPARSE = old
    ref_ml = np.linalg.solve(A.T @ Pn @ A, A.T @ Pn @ y)
    ref_map = np.linalg.solve(A.T @ Pn @ A + Pp, A.T @ Pn @ y + Pp @ mu)
    c.holds('ML:estimate_is_the_maximiser_of_the_documented_likelihood', bool(np.linalg.norm(ml - ref_ml) <= 1e-3 * (1 + np.linalg.norm(ref_ml))), note=f"{ml} vs {ref_ml}")
    c.holds('MAP:estimate_is_the_closed_form_posterior_mean_of_the_documented_problem', bool(np.linalg.norm(np.asarray(mp, dtype=float) - ref_map) <= 1e-3 * (1 + np.linalg.norm(ref_map))),
            note=f"{np.asarray(mp)} vs {ref_map} ({mp.info.get('solver')})")


def direct_route_expected(geom): return geom in ('default', 'Continuous1D', 'subsample_view')


def map_closed_form(c, m, n, noise_form, prior_form, noise_param='cov', prior_param='cov', geom='default'):
    BP, n = _problem(c, m, n, noise_form, prior_form, noise_param, prior_param, geom)
    post = BP.posterior
    S0 = (frame.snapshot(BP.likelihood.distribution, ('_matrix',)), frame.snapshot(BP.prior, ('_matrix',)))
    try: xmap = BP.MAP(disp=False)         # a refusal is an admissible outcome - but only the documented one, and it must leave everything as it was
    except NotImplementedError as e:
        S1 = (frame.snapshot(BP.likelihood.distribution, ('_matrix',)), frame.snapshot(BP.prior, ('_matrix',)))
        c.holds('refusal_names_the_documented_way_out', 'compute_cov' in str(e), note=str(e)[:120])
        c.holds('refused_call_leaves_noise_model_and_prior_unchanged', frame.same(S0, S1), note='; '.join(frame.diff(S0, S1)))
        c.holds('refusal_only_for_forms_without_a_stored_covariance', noise_param != 'cov' or prior_param != 'cov', note=f'{noise_param}/{prior_param}')
        return
    S1 = (frame.snapshot(BP.likelihood.distribution, ('_matrix',)), frame.snapshot(BP.prior, ('_matrix',)))
    c.holds('computing_the_estimate_leaves_noise_model_and_prior_unchanged', frame.same(S0, S1), note='; '.join(frame.diff(S0, S1)))
    c.eq('a_second_call_returns_the_same_estimate', np.asarray(BP.MAP(disp=False)), np.asarray(xmap))
    # the documented `x0` argument is a STARTING point: the estimate (a maximiser) does not depend on it - whichever route is taken
    z = c.vec('zstart', n)
    if direct_route_expected(geom) or c.sym:
        c.eq('estimate_does_not_depend_on_the_starting_point_given', np.asarray(BP.MAP(disp=False, x0=z)), np.asarray(xmap), tol=1e-6)
    c.holds('map_has_parameter_shape', np.shape(xmap) == (n,), note=str(np.shape(xmap)))
    c.holds('map_carries_posterior_geometry', xmap.geometry == post.geometry)
    g = c.grad_at(lambda v: post.logd(v), np.asarray(xmap))
    direct = xmap.info.get('solver') == 'direct'
    if c.sym or direct:
        c.eq('gradient_of_posterior_logd_vanishes_at_the_returned_point', g, np.zeros(n) if not c.sym else np.array([core.SReal(z3.RealVal(0))] * n, dtype=object), tol=1e-4)
    else:
        # the estimate came from the numerical optimiser (geometries that transform the parameters): stationarity up to its accuracy
        g0 = c.grad_at(lambda v: post.logd(v), np.asarray(xmap) + 1.0)
        c.holds('gradient_of_posterior_logd_vanishes_at_the_returned_point', bool(np.linalg.norm(g) <= 1e-4 * (1 + np.linalg.norm(g0))), note=f"|grad| = {np.linalg.norm(g):.2e}")
    # the closed form is only taken when the model matrix is the parameter-to-parameter map
    c.holds('closed_form_only_for_geometries_that_do_not_transform_the_parameters', direct == (geom in ('default', 'Continuous1D', 'subsample_view')) or c.sym, note=str(xmap.info.get('solver')))


def map_after_compute_cov(c, m=2, n=2):
    """Gaussians given through (non-symmetric) square-root / precision matrices: the documented way to reach the closed form is
    compute_cov(); the estimate must then be the maximiser of the posterior's own density (or the call must fail)"""
    A = c.mat('A', m, n)
    model = LinearModel(A)
    R = c.lower('pr', n)                                    # lower-triangular square-root precision of the prior
    x = Gaussian(c.vec('mu', n), sqrtprec=R, name='x')
    y = Gaussian(model(x), prec=c.vec('nprec', m, pos=True), geometry=m, name='y')
    BP = BayesianProblem(y, x).set_data(y=c.vec('yobs', m))
    BP.prior.compute_cov(); BP.likelihood.distribution.compute_cov()
    post = BP.posterior
    xmap = BP.MAP(disp=False)
    g = c.grad_at(lambda v: post.logd(v), np.asarray(xmap))
    c.eq('gradient_of_posterior_logd_vanishes_at_the_returned_point', g, np.zeros(n) if not c.sym else np.array([core.SReal(z3.RealVal(0))] * n, dtype=object), tol=1e-4)


def direct_sampling(c, m, n, noise_form, prior_form, public=False):
    BP, n = _problem(c, m, n, noise_form, prior_form)
    post = BP.posterior
    e = [c.vec(f'e{s}_', n) for s in range(2)]
    for s in range(2):
        if c.sym: shims.PRESET['normal'].append(e[s])
        else: c._numq['normal'].append(e[s]); c._patch_random()
    S0 = (frame.snapshot(BP.likelihood.distribution, ('_matrix',)), frame.snapshot(BP.prior, ('_matrix',)))
    if public:
        import io, contextlib
        with contextlib.redirect_stdout(io.StringIO()): S = BP.sample_posterior(2)          # the public entry point must select the direct route and hand its draws back
    else: S = BP._sampleMapCholesky(2)
    S1 = (frame.snapshot(BP.likelihood.distribution, ('_matrix',)), frame.snapshot(BP.prior, ('_matrix',)))
    c.holds('sampling_leaves_noise_model_and_prior_unchanged', frame.same(S0, S1), note='; '.join(frame.diff(S0, S1)))
    xmap = np.asarray(BP.MAP(disp=False))
    H = -c.hessian_of(lambda v: post.logd(v), n)
    if c.sym:
        # draws are x_MAP + B e : read B off by differentiating the draw w.r.t. the noise symbols
        d0 = S.samples[:, 0] - xmap
        B = np.array([[core.SReal(z3.simplify(diff.d(core.T(d0[i]), core.T(e[0][j])))) for j in range(n)] for i in range(n)], dtype=object)
        c.eq('draw_is_map_plus_B_times_noise', d0, B @ e[0])
        c.eq('second_draw_uses_the_same_B_and_its_own_noise', S.samples[:, 1] - xmap, B @ e[1])
        c.eq('B_BT_is_inverse_of_minus_hessian_of_posterior_logd', H @ (B @ B.T), np.eye(n))
    else:
        L = np.linalg.cholesky(np.linalg.inv(H))
        c.eq('draws_have_closed_form_mean_and_covariance_factor', S.samples[:, 0] - xmap, L @ e[0], tol=1e-4)
    c.holds('samples_carry_domain_geometry', S.geometry == BP.model.domain_geometry and S.samples.shape == (n, 2))


def direct_route_with_transforming_geometry(c, geom):
    """public sample_posterior on a linear-Gaussian problem whose domain geometry TRANSFORMS the parameters (the stored matrix acts on function values):
    either another sampler is selected, or the draws of the closed-form sampler are x_MAP + L e with L L^T the inverse of minus the Hessian of the
    posterior's own log-density in the PARAMETERS (bounded stand-in: native)"""
    BP, n = _problem(c, 2, 2, 'scalar', 'scalar', geom=geom)
    post = BP.posterior
    e = [c.vec(f'e{s}_', n) for s in range(2)]
    class _Other(Exception): pass
    def other(*a, **k): raise _Other()
    for nm in ('_sampleLinearRTO', '_sampleNUTS', '_samplepCN', '_sampleUGLA', '_sampleCWMH', '_sampleRegularizedLinearRTO', '_sampleGibbs'):
        if hasattr(BP, nm): setattr(BP, nm, other)
    direct = getattr(BP, '_sampleMapCholesky'); used = []
    def spy(*a, **k):
        used.append(1)
        for s_ in range(2): c._numq['normal'].append(e[s_])
        c._patch_random()
        return direct(*a, **k)
    BP._sampleMapCholesky = spy
    import io, contextlib, warnings
    try:
        with contextlib.redirect_stdout(io.StringIO()), warnings.catch_warnings():
            warnings.simplefilter('ignore'); S = BP.sample_posterior(2)
    except _Other:
        c.holds('another_sampler_is_selected', not used); return
    xmap = np.asarray(BP.MAP(disp=False))
    H = -c.hessian_of(lambda v: post.logd(v), n)
    L = np.linalg.cholesky(np.linalg.inv(H))
    c.eq('closed_form_draws_have_the_covariance_factor_of_the_posterior_of_the_parameters', S.samples[:, 0] - xmap, L @ e[0], tol=1e-3)


class StubSolver:
    calls = []
    sign = -1                                  # a minimiser is handed the NEGATIVE log-density and its gradient
    def __init__(self, func, x0, gradfunc=None, **kw):
        self.func = func; self.x0 = x0; self.gradfunc = gradfunc; StubSolver.calls.append(self)
        self.x = np.array([core.SReal(core.fresh('opt')) for _ in range(len(x0))], dtype=object)
    def solve(self): return self.x, {'success': True}


class StubMaximiser(StubSolver):
    sign = +1                                  # cuqi.solver.maximize is handed the log-density and its gradient themselves


def _opt_extra():
    fw = Forward(cuqi, 'cuqi'); sol = Forward(cuqi.solver, 'cuqi.solver')
    object.__setattr__(sol, 'minimize', StubSolver); object.__setattr__(sol, 'L_BFGS_B', StubSolver); object.__setattr__(sol, 'maximize', StubMaximiser)
    object.__setattr__(fw, 'solver', sol)
    return {PR: dict(cuqi=fw)}


def optimisation_route(c, which, prior_kind):
    """wrapper obligations: what is handed to the optimiser and what is handed back"""
    n = 2; m = 2
    A = c.mat('A', m, n)
    model = Model(lambda x: A @ (x ** 3 + x), m, n, jacobian=lambda x: A * (3 * x ** 2 + 1))
    if prior_kind == 'Gaussian': x = Gaussian(c.vec('mu', n), c.real('pv', pos=True), name='x')
    elif prior_kind == 'CMRF': x = cuqi.distribution.CMRF(c.vec('mu', n), c.real('pv', pos=True), 'zero', geometry=n, name='x')      # (the route reserved for this prior: L-BFGS-B)
    else: x = Cauchy(c.vec('mu', n), c.real('pv', pos=True), name='x')
    if c.sym and prior_kind == 'CMRF': shims.symbolize_operators(x)
    y = Gaussian(model(x), c.real('nv', pos=True), name='y')
    BP = BayesianProblem(y, x).set_data(y=c.vec('yobs', m))
    StubSolver.calls.clear()
    est = BP.MAP(disp=False) if which == 'MAP' else BP.ML(disp=False)
    dens = BP.posterior if which == 'MAP' else BP.likelihood
    call = StubSolver.calls[-1]
    v = c.vec('v', n)
    sg = call.sign
    c.eq('objective_is_negative_log_density', call.func(v), sg * dens.logd(v))           # (the log-density itself when the maximising wrapper is used)
    c.holds('gradient_is_passed', call.gradfunc is not None)
    c.eq('gradient_is_negative_gradient_of_the_density', call.gradfunc(v), sg * dens.gradient(v))
    c.eq('estimate_is_the_optimisers_result_unchanged', np.asarray(est), call.x)
    c.holds('estimate_wrapped_with_geometry', isinstance(est, cuqi.array.CUQIarray) and est.geometry == dens.geometry)
    c.eq('default_start_is_the_ones_vector', np.asarray(call.x0, dtype=float), np.ones(n))
    # the optional start point is handed to the optimiser as given
    x0 = c.vec('x0', n)
    est2 = BP.MAP(disp=False, x0=x0) if which == 'MAP' else BP.ML(disp=False, x0=x0)
    call2 = StubSolver.calls[-1]
    c.eq('given_start_point_is_passed_to_the_optimiser', call2.x0, x0)
    c.eq('objective_with_given_start_is_still_the_negative_log_density', call2.func(v), call2.sign * dens.logd(v))
    c.eq('gradient_with_given_start_is_still_the_negative_gradient', call2.gradfunc(v), call2.sign * dens.gradient(v))
    c.eq('estimate_with_given_start_is_the_optimisers_result', np.asarray(est2), call2.x)


def optimisation_failure(c):
    """'if a requested estimate cannot be computed correctly the call fails instead of returning another point': the objective is not a
    number at the default start point (and the optimiser gives up there); the call must raise, or return a point where the posterior
    density is a number and the gradient vanishes (bounded stand-in: native)"""
    shift = 4.0 + abs(c.real('shift'))
    m2 = Model(lambda x: np.log(x - shift), 2, 2)
    x2 = Gaussian(np.zeros(2), 1.0, name='x'); y2 = Gaussian(m2(x2), 0.1, name='y')
    BP = BayesianProblem(y2, x2).set_data(y=np.zeros(2))
    import io, contextlib, warnings
    try:
        with contextlib.redirect_stdout(io.StringIO()), warnings.catch_warnings():
            warnings.simplefilter('ignore'); est = np.asarray(BP.MAP(disp=False))
    except Exception as e:
        c.holds('failure_is_reported_by_raising', True); return
    v = BP.posterior.logd(est)
    c.holds('a_returned_point_has_a_finite_posterior_density', bool(np.all(np.isfinite(v))), note=f"returned {est} with posterior log-density {v}")


def optimisation_native(c, prior_kind):
    """numeric twin (bounded): first-order optimality of the returned point on generated unimodal problems"""
    n = 2; m = 3
    A = np.array([[c.real(f'A{i}{j}') for j in range(n)] for i in range(m)])
    model = Model(lambda x: A @ x + 0.1 * np.tanh(A @ x), m, n, jacobian=lambda x: A + 0.1 * (1 - np.tanh(A @ x) ** 2)[:, None] * A)
    x = Gaussian(np.array([c.real('mu0'), c.real('mu1')]), 1.0, name='x')
    y = Gaussian(model(x), 0.5, name='y')
    BP = BayesianProblem(y, x).set_data(y=np.array([c.real(f'y{i}') for i in range(m)]))
    est = BP.MAP(disp=False)
    g = BP.posterior.gradient(np.asarray(est))
    c.holds('gradient_small_at_map', bool(np.linalg.norm(g) <= 1e-3 * (1 + abs(BP.posterior.logd(np.asarray(est))))), note=f"|grad| = {np.linalg.norm(g):.2e}")
    for k in range(5):
        p = np.asarray(est) + 1e-2 * np.array([c.real(f'p{k}0', lo=-1, hi=1), c.real(f'p{k}1', lo=-1, hi=1)])
        c.holds(f'no_nearby_point_larger[{k}]', bool(BP.posterior.logd(p) <= BP.posterior.logd(np.asarray(est)) + 1e-8))


def ml_transforming_geometry(c, geom, proj='mean'):
    """ML (and MAP) through the optimiser on a linear model whose domain geometry transforms the parameters (KL / step expansion): the returned point is
    the maximiser in the PARAMETERS - compared with the closed-form least-squares solution of the effective matrix A par2fun - or the call raises
    (bounded stand-in: native)"""
    m = 5; n = 3
    if geom == 'KL': gd = cuqi.geometry.KLExpansion(np.linspace(0, 1, 6), num_modes=n)
    else: gd = cuqi.geometry.StepExpansion(np.linspace(0, 1, 6), n_steps=n, fun2par_projection=proj)
    A = np.array([[c.real(f'A{i}{j}') for j in range(gd.fun_dim)] for i in range(m)])
    model = LinearModel(A, range_geometry=m, domain_geometry=gd)
    x = Gaussian(np.zeros(n), 1.0, geometry=gd, name='x'); y = Gaussian(model(x), 0.3, name='y')
    data = np.array([c.real(f'y{i}') for i in range(m)])
    BP = BayesianProblem(y, x).set_data(y=data)
    B = np.column_stack([A @ gd.par2fun(e) for e in np.eye(n)])             # effective parameter-to-data matrix
    import io, contextlib, warnings
    for which in ('ML', 'MAP'):
        try:
            with contextlib.redirect_stdout(io.StringIO()), warnings.catch_warnings():
                warnings.simplefilter('ignore'); est = np.asarray(getattr(BP, which)(disp=False) if which == 'MAP' else BP.ML(disp=False))
        except Exception:
            c.holds(f'{which}:failure_is_reported_by_raising', True); continue
        ref = np.linalg.solve(B.T @ B / 0.3 + (np.eye(n) if which == 'MAP' else 0), B.T @ data / 0.3)
        obj = (lambda v: BP.likelihood.logd(v)) if which == 'ML' else (lambda v: BP.posterior.logd(v))
        c.holds(f'{which}:returned_point_is_not_worse_than_the_closed_form_maximiser', bool(obj(est) >= obj(ref) - 1e-4 * (1 + abs(obj(ref)))),
                note=f"log-density {float(obj(est)):.6g} at the estimate, {float(obj(ref)):.6g} at the closed-form maximiser")


def jobs(tier):
    J = []
    q = tier == 'quick'
    FL = [f'{PR}:BayesianProblem.MAP', f'{PR}:BayesianProblem._check_posterior', f'{PR}:BayesianProblem.posterior', 'cuqi.model._model:LinearModel.get_matrix']
    cfgs = [(2, 2, 'scalar', 'scalar', 'cov', 'cov', 'default'), (1, 2, 'scalar', 'vector', 'cov', 'cov', 'default'), (2, 1, 'vector', 'scalar', 'cov', 'cov', 'default'),
            (2, 2, 'vector', 'vector', 'cov', 'cov', 'default'), (2, 2, 'scalar', 'scalar', 'cov', 'cov', 'Continuous1D'),
            (2, 2, 'scalar', 'scalar', 'cov', 'cov', 'Step'),
            (2, 2, 'vector', 'vector', 'prec', 'cov', 'default'), (2, 2, 'vector', 'vector', 'cov', 'sqrtprec', 'default'), (2, 2, 'scalar', 'scalar', 'sqrtcov', 'prec', 'default'),
            (2, 2, 'dense', 'vector', 'cov', 'cov', 'default'), (2, 4, 'scalar', 'vector', 'cov', 'cov', 'subsample_view'), (2, 2, 'scalar', 'scalar', 'cov', 'cov', 'KLfull')]        # correlated noise: the covariance is a stored matrix, not a temporary
    if not q: cfgs += [(1, 1, 'scalar', 'scalar', 'cov', 'cov', 'default'), (2, 2, 'dense', 'dense', 'cov', 'cov', 'default'), (2, 2, 'vector', 'dense', 'cov', 'cov', 'default')]
    for (m, n, nf, pf, npar, ppar, geom) in cfgs:
        J.append(Job(f'MAP:closed_form:m={m}:n={n}:noise={npar}/{nf}:prior={ppar}/{pf}:geometry={geom}',
                     lambda c, a=(m, n, nf, pf, npar, ppar, geom): map_closed_form(c, *a),
                     # both covariances dense: the stationarity identity (14 symbols, three nested square roots) exceeds the normaliser's
                     # monomial budget and the SMT solvers' time: bounded stand-in, not counted as proved
                     'B' if ((nf, pf) == ('dense', 'dense') or geom in ('Step', 'KLfull')) else 'Pbox', FL, allow_exc=True, rtol=1e-4, timeout=600))   # (Step/KLfull: numerical optimiser, native only)
    for (m, n, nf, pf) in [(2, 2, 'scalar', 'scalar'), (2, 2, 'vector', 'vector'), (1, 2, 'scalar', 'vector')] + [(2, 2, 'dense', 'vector')] + ([] if q else [(2, 2, 'dense', 'dense')]):
        J.append(Job(f'sample_posterior:direct:m={m}:n={n}:noise={nf}:prior={pf}', lambda c, a=(m, n, nf, pf): direct_sampling(c, *a), 'B' if 'dense' in (nf, pf) else 'Pbox',   # B B^T H = I with a dense covariance exceeds the provers' budget: bounded stand-in
                     [f'{PR}:BayesianProblem._sampleMapCholesky'] + FL, rtol=1e-4, timeout=600, allow_exc=True))
    for geom in ('KLfull', 'Step'):
        J.append(Job(f'sample_posterior:public_entry_point:geometry={geom}', lambda c, g=geom: direct_route_with_transforming_geometry(c, g), 'B',
                     [f'{PR}:BayesianProblem.sample_posterior', f'{PR}:BayesianProblem._sampleMapCholesky'], nnum=3, allow_exc=True))
    J.append(Job('sample_posterior:public_entry_point:m=2:n=2:noise=vector:prior=vector', lambda c: direct_sampling(c, 2, 2, 'vector', 'vector', True), 'Pbox',
                 [f'{PR}:BayesianProblem.sample_posterior', f'{PR}:BayesianProblem._sampleMapCholesky'] + FL, rtol=1e-4, timeout=600, allow_exc=True))
    for (nf, pf, npar, ppar, cc) in (('vector', 'vector', 'cov', 'cov', False), ('scalar', 'vector', 'cov', 'cov', False), ('vector', 'vector', 'prec', 'cov', True),
                                     ('vector', 'vector', 'cov', 'prec', True), ('vector', 'scalar', 'sqrtprec', 'sqrtcov', True), ('scalar', 'vector', 'sqrtcov', 'sqrtprec', True)):
        J.append(Job(f'MAP:documented_posterior:noise={npar}/{nf}:prior={ppar}/{pf}' + (':after_compute_cov' if cc else ''),
                     lambda c, a=(2, 2, nf, pf, npar, ppar, cc): map_documented(c, *a), 'Pbox', FL + ['cuqi.distribution._gaussian:get_sqrtprec_from_prec', 'cuqi.distribution._gaussian:Gaussian.compute_cov'],
                     allow_exc=True, rtol=1e-4, timeout=600))
    J.append(Job('MAP:closed_form:after_compute_cov:sqrtprec_triangular_and_vector_prec', map_after_compute_cov, 'Pbox', FL + ['cuqi.distribution._gaussian:Gaussian.compute_cov'], allow_exc=True, rtol=1e-4, timeout=600))
    for which in ('MAP', 'ML'):
        for pk in ('Gaussian', 'Cauchy', 'CMRF'):
            J.append(Job(f'{which}:optimisation_route:wrapper:prior={pk}', lambda c, w=which, pk=pk: optimisation_route(c, w, pk), 'Pbox',
                         [f'{PR}:BayesianProblem._solve_max_point', f'{PR}:BayesianProblem.{which}'], extra=_opt_extra, num=False))
    J.append(Job('MAP:optimisation_route:objective_undefined_at_the_start_point', optimisation_failure, 'B', [f'{PR}:BayesianProblem._solve_max_point'], nnum=3))
    for param in ('cov', 'prec'):
        J.append(Job(f'ML_and_MAP:full_noise_matrix_of_small_magnitude:{param}', lambda c, p_=param: estimates_with_small_magnitude_matrices(c, p_), 'B',
                     [f'{PR}:BayesianProblem.ML', f'{PR}:BayesianProblem.MAP', 'cuqi.distribution._gaussian:get_sqrtprec_from_cov', 'cuqi.distribution._gaussian:get_sqrtprec_from_prec'], nnum=3))
    for std in (1.0, 1e-3, 1e2, 1e4):
        J.append(Job(f'ML:optimisation_route:same_least_squares_problem_noise_std={std:g}', lambda c, sd=std: ml_weakly_informative(c, sd), 'B', [f'{PR}:BayesianProblem.ML', f'{PR}:BayesianProblem._solve_max_point'], nnum=3))
    for param in ('cov', 'prec'):
        for who in (('noise', 'prior') if q else ('noise', 'prior', 'both')):
            J.append(Job(f'ML_and_MAP:full_matrices_on_the_sparse_side_of_the_storage_switch:{param}:{who}', lambda c, p_=param, w=who: estimates_across_sparse_switch(c, p_, w), 'B',
                         [f'{PR}:BayesianProblem.ML', f'{PR}:BayesianProblem.MAP', 'cuqi.distribution._gaussian:get_sqrtprec_from_cov', 'cuqi.distribution._gaussian:get_sqrtprec_from_prec',
                          'cuqi.distribution._gaussian:Gaussian.compute_cov'], nnum=3 if q else 10))
    for geom, proj in (('KL', 'mean'), ('Step', 'mean'), ('Step', 'max')):
        J.append(Job(f'ML_and_MAP:optimisation_route:geometry={geom}:{proj}', lambda c, g=geom, pj=proj: ml_transforming_geometry(c, g, pj), 'B',
                     [f'{PR}:BayesianProblem._solve_max_point', f'{PR}:BayesianProblem.ML', 'cuqi.model._model:Model._check_gradient_can_be_computed'], nnum=3))
    J.append(Job('MAP:optimisation_route:first_order_optimality', lambda c: optimisation_native(c, 'Gaussian'), 'B', [f'{PR}:BayesianProblem._solve_max_point'], nnum=6))
    return J
