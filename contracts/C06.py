"""C06 — linear randomize-then-optimize draws are exact Gaussian posterior draws.

Modular: at the CGLS(...).solve() call site only CGLS's contract is used (C16: the returned x solves M^T (M x - y) = 0)."""
import types
import numpy as np
import z3
from pvc.runner import Job
from pvc import core, shims
from pvc.shims import Forward
import cuqi
from cuqi.distribution import Gaussian, GMRF, LMRF, Posterior, MultipleLikelihoodPosterior, JointDistribution
from cuqi.model import LinearModel

EXPLANATION = ("stacked operator M(.,2) is the exact transpose of M(.,1); the gradient of the target's own log-density equals M^T(b - M x) for symbolic x "
               "(so M^T M = -Hessian and M^T b = gradient at 0: the affine map of the noise has the posterior mean as offset and H^-1 as covariance); "
               "step/_sample forms y = b + e with e the standard-normal draw of length len(b), passes (M, y, current point) to the inner solver and stores its result; "
               "one and two likelihoods, every Gaussian input form of noise and prior incl. GMRF, matrix- and function-backed models, 5-tuple form; UGLA against its documented local Gaussian approximation.")
ASSUMPTIONS = ["the inner CGLS solver returns the solution of the normal equations of the system it is given (its contract, discharged under C16; convergence is numerical-analysis theory)",
               "an affine image of a standard normal vector with these two identities is N(H^-1 grad l(0), H^-1) (lemma L-affine, cited)"]


class StubCGLS:
    """callee contract stand-in: records (A, b, x0, maxit, tol[, shift]) and returns an opaque solution"""
    calls = []
    def __init__(self, A, b, x0, maxit, tol=1e-6, shift=0):
        self.args = dict(A=A, b=b, x0=x0, maxit=maxit, tol=tol, shift=shift); StubCGLS.calls.append(self)
        self.result = np.array([core.SReal(core.fresh('cgls')) for _ in range(len(x0))], dtype=object)
    def solve(self): return self.result, 7


def _extra():
    sp = Forward(__import__('scipy'), 'scipy'); object.__setattr__(sp, 'sparse', shims.SPA())
    names = dict(CGLS=StubCGLS, sp=sp)
    return {'cuqi.experimental.mcmc._rto': dict(names), 'cuqi.sampler._rto': dict(names),
            'cuqi.experimental.mcmc._laplace_approximation': dict(names), 'cuqi.sampler._laplace_approximation': dict(names)}


def _gauss(c, name, mean, form, n, param='cov', geometry=None):
    """Gaussian in one of the input forms; returns the distribution"""
    if form == 'scalar': arg = c.real(f'{name}_v', pos=True)
    elif form == 'vector': arg = c.vec(f'{name}_v', n, pos=True)
    elif form == 'dense':
        G = c.lower(f'{name}_g', n); arg = G @ G.T
    kw = {param: arg}
    if geometry is not None: kw['geometry'] = geometry
    return Gaussian(mean, **kw)


def _target(c, m, n, noise_form, prior_form, prior_kind, backing, nlik, noise_param='cov', prior_param='cov', same_m=False):
    liks = []
    for k in range(nlik):
        mk = m if (k == 0 or same_m) else max(1, m - k)          # later likelihoods have a different number of data points (same_m: equally many, different models and noise)
        A = c.mat(f'A{k}_', mk, n); m_k = mk
        model = LinearModel(A) if backing == 'matrix' else LinearModel(lambda x, A=A: A @ x, lambda y, A=A: A.T @ y, range_geometry=m_k, domain_geometry=n)
        data = c.vec(f'y{k}_', m_k)
        dd = _gauss(c, f'noise{k}', model, noise_form, m_k, noise_param, geometry=m_k); dd.name = f'y{k}'
        liks.append(dd.to_likelihood(data))
    if prior_kind == 'Gaussian':
        prior = _gauss(c, 'prior', c.vec('mu', n), prior_form, n, prior_param); prior.name = 'x'
    else:
        prior = GMRF(c.vec('mu', n), c.real('prec', pos=True), bc_type='zero', geometry=cuqi.geometry.Continuous1D(n))
        prior.name = 'x'
        if c.sym:
            # contract of sparse_cholesky (upper U with U^T U = P) in exact form: the numeric factor is only a float approximation
            shims.symbolize_operators(prior)
            prior._chol = shims.STag(shims.sym_cholesky(np.asarray(prior._prec_op.get_matrix().a)))
    target = Posterior(liks[0], prior) if nlik == 1 else MultipleLikelihoodPosterior(*liks, prior)
    return target


def _check_operator(c, M, b_tild, target, n):
    N = len(b_tild)
    x = c.vec('x', n); y = c.vec('yy', N)
    Mx = M(x, 1)
    c.holds('forward_output_length_is_length_of_b', len(Mx) == N, note=f"{len(Mx)} vs {N}")
    c.eq('stacked_operator_adjoint_is_exact_transpose', np.sum(np.asarray(Mx) * y), np.sum(x * np.asarray(M(y, 2))))
    # gradient of the target's OWN log-density == M^T (b - M x) for all x
    g = c.grad_of(lambda v: target.logd(v), x)
    c.eq('normal_equations_are_the_stationarity_of_the_targets_own_logd', M(np.asarray(b_tild) - np.asarray(Mx), 2), g, tol=1e-4)


def linear_rto(c, iface, m, n, noise_form, prior_form, prior_kind='Gaussian', backing='matrix', nlik=1, noise_param='cov', prior_param='cov', same_m=False):
    target = _target(c, m, n, noise_form, prior_form, prior_kind, backing, nlik, noise_param, prior_param, same_m)
    xcur = c.vec('xcur', n)
    if iface == 'exp':
        from cuqi.experimental.mcmc import LinearRTO
        s = LinearRTO(target, initial_point=xcur, maxit=11, tol=1e-3); s.initialize()
        M, b = s.M, s.b_tild
    else:
        from cuqi.sampler import LinearRTO
        s = LinearRTO(target, x0=xcur, maxit=11, tol=1e-3)
        M, b = s.M, s.b_tild
    _check_operator(c, M, b, target, n)
    if c.sym:
        e = c.vec('e', len(b)); shims.PRESET['normal'].append(e)
        StubCGLS.calls.clear()
        if iface == 'exp':
            acc = s.step(); new = s.current_point
        else:
            out = s._sample(2, 0); new = out[0][:, 1]
        c.holds('one_inner_solve_per_draw', len(StubCGLS.calls) == 1)
        call = StubCGLS.calls[0]
        c.holds('inner_solver_receives_the_stacked_operator', call.args['A'] is M)
        c.eq('perturbed_right_hand_side_is_b_plus_standard_normal_noise', call.args['b'], np.asarray(b) + e)
        c.eq('inner_solver_starts_from_the_current_point', call.args['x0'], xcur)
        c.holds('no_shift_and_configured_budget', (call.args['shift'] == 0) and call.args['maxit'] == 11 and call.args['tol'] == 1e-3)
        c.eq('the_draw_is_the_inner_solvers_result', new, call.result)
    else:
        # native: with the real CGLS run to convergence the draw solves the normal equations of (M, b + e)
        e = c.vec('e', len(b)); c._numq['normal'].append(e); c._patch_random()
        if iface == 'exp':
            s.maxit = 500; s.tol = 1e-14; s.step(); new = s.current_point
        else:
            s.maxit = 500; s.tol = 1e-14; new = s._sample(2, 0)[0][:, 1]
        c.eq('draw_solves_normal_equations_of_perturbed_system', M(M(new, 1) - (np.asarray(b) + e), 2), np.zeros(n), tol=1e-6)


def rto_after_reassignment(c, iface, param, m=2, n=2):
    """history: a sampler is set up, the prior's matrix parameter and the noise parameter are reassigned through their public setters,
    and a NEW sampler is set up on the same objects: its system must be that of the posterior as it now is"""
    target = _target(c, m, n, 'vector', 'vector', 'Gaussian', 'matrix', 1, 'cov', param)
    xcur = c.vec('xcur', n)
    def mk():
        if iface == 'exp':
            from cuqi.experimental.mcmc import LinearRTO
            s = LinearRTO(target, initial_point=xcur, maxit=11, tol=1e-3); s.initialize()
        else:
            from cuqi.sampler import LinearRTO
            s = LinearRTO(target, x0=xcur, maxit=11, tol=1e-3)
        return s
    s1 = mk(); _ = target.prior.sqrtprecTimesMean
    setattr(target.prior, param, c.vec('prior_new', n, pos=True))
    s2 = mk()
    _check_operator(c, s2.M, s2.b_tild, target, n)
    target.prior.mean = c.vec('mu_new', n)
    target.likelihood.distribution.cov = c.vec('noise_new', m, pos=True)
    s3 = mk()
    x = c.vec('x3', n)
    g = c.grad_of(lambda v: target.logd(v), x)
    c.eq('after_reassigning_mean_and_noise:normal_equations_are_the_stationarity_of_the_targets_own_logd', s3.M(np.asarray(s3.b_tild) - np.asarray(s3.M(x, 1)), 2), g, tol=1e-4)


def rto_documented_posterior(c, iface, param, side, m=4, n=3, form='dense'):
    """bounded stand-in (native): Gaussians given by DENSE matrices of size 3-4 on both sides of the sparse-storage switch; the
    sampler's normal equations are those of the posterior DOCUMENTED by the matrices the user passed (not merely of the target
    object's own log-density, which is built from the same internal square roots)"""
    from cuqi import config
    old = config.MIN_DIM_SPARSE; config.MIN_DIM_SPARSE = 0 if side == 'above' else 10 ** 6
    try:
        A = c.mat('A', m, n); y = c.vec('y', m); mu = c.vec('mu', n)
        Gn = c.lower('gn', m); Gp = c.lower('gp', n)
        Pn = np.asarray(Gn @ Gn.T + 0.2 * np.eye(m), dtype=float); Pp = np.asarray(Gp @ Gp.T + 0.2 * np.eye(n), dtype=float)   # precisions
        if form.startswith('banded'):
            # a BANDED (tridiagonal, positive definite) matrix handed over as `cov` or `prec` in one of scipy's sparse storage formats (DIA is what
            # scipy.sparse.diags returns): the documented precision is that matrix (prec) or its inverse (cov) - whatever the storage format
            import scipy.sparse as _sp
            def band(P):
                d = np.diag(P) + 0.5; off = 0.3 * np.sqrt(d[:-1] * d[1:])
                return np.diag(d) + np.diag(off, 1) + np.diag(off, -1)
            Mn, Mp = band(Pn), band(Pp)
            Pn, Pp = (Mn, Mp) if param == 'prec' else (np.linalg.inv(Mn), np.linalg.inv(Mp))
            fmt = form.split('_')[1]
            store = lambda M: _sp.diags([np.diag(M, -1), np.diag(M), np.diag(M, 1)], [-1, 0, 1], format=fmt)
        elif form != 'dense':          # diagonal MATRICES (dense or scipy-sparse storage) with unequal entries
            Pn = np.diag(np.diag(Pn)); Pp = np.diag(np.diag(Pp))
        def arg(P):
            if form.startswith('banded'): return store(Mn if P is Pn else Mp)
            if form != 'dense':
                import scipy.sparse as _sp
                d = np.diag(P); v = {'prec': d, 'cov': 1 / d, 'sqrtprec': np.sqrt(d), 'sqrtcov': 1 / np.sqrt(d)}[param]
                return np.diag(v) if form == 'diag' else _sp.diags(v).tocsc()
            if param == 'prec': return P
            if param == 'cov': return np.linalg.inv(P)
            if param == 'sqrtprec': return np.linalg.cholesky(P).T          # R with R^T R = P
            if param == 'sqrtcov':
                import scipy.linalg
                return np.real(scipy.linalg.sqrtm(np.linalg.inv(P)))          # the SYMMETRIC root (the convention for non-symmetric roots is a recorded C04 finding)
        prior = Gaussian(mu, **{param: arg(Pp)}); prior.name = 'x'
        dd = Gaussian(LinearModel(A), **{param: arg(Pn)}); dd.name = 'y'
        target = Posterior(dd.to_likelihood(y), prior)
        xcur = c.vec('xcur', n)
        if iface == 'exp':
            from cuqi.experimental.mcmc import LinearRTO
            s = LinearRTO(target, initial_point=xcur); s.initialize()
        else:
            from cuqi.sampler import LinearRTO
            s = LinearRTO(target, x0=xcur)
        x = c.vec('x', n)
        spec = A.T @ (Pn @ (y - A @ x)) - Pp @ (x - mu)
        c.eq('normal_equations_are_those_of_the_documented_posterior', s.M(np.asarray(s.b_tild) - np.asarray(s.M(x, 1)), 2), spec, tol=1e-7)
    finally:
        config.MIN_DIM_SPARSE = old


def rto_joint_sqrtprec_prior(c, iface, order):
    """prior given as JointGaussianSqrtPrec (independent Gaussian factors N(mu_i, (R_i^T R_i)^-1) stacked, the class made for RTO priors), factors of mixed
    storage and non-zero means: the sampler's normal equations are those of the posterior documented by the factors (bounded stand-in: native)"""
    import scipy.sparse as sp
    from cuqi.distribution import JointGaussianSqrtPrec
    m, n = 4, 3
    A = c.mat('A', m, n); y = c.vec('y', m); nv = 0.3 + abs(c.real('nv'))
    R1 = np.asarray(c.mat('R1', 2, n), dtype=float); R2 = np.asarray(c.mat('R2', n, n), dtype=float) + 2 * np.eye(n)
    mu1 = c.vec('mu1', n); mu2 = c.vec('mu2', n)
    forms = {'dense,dense': (R1, R2), 'sparse,sparse': (sp.csr_matrix(R1), sp.csr_matrix(R2)), 'sparse,dense': (sp.csr_matrix(R1), R2), 'dense,sparse': (R1, sp.csr_matrix(R2))}[order]
    try:
        prior = JointGaussianSqrtPrec([mu1.copy(), mu2.copy()], list(forms), geometry=n); prior.name = 'x'
        dd = Gaussian(LinearModel(A), nv, geometry=m); dd.name = 'y'
        target = Posterior(dd.to_likelihood(y), prior)
        xcur = c.vec('xcur', n)
        if iface == 'exp':
            from cuqi.experimental.mcmc import LinearRTO
            s = LinearRTO(target, initial_point=xcur); s.initialize()
        else:
            from cuqi.sampler import LinearRTO
            s = LinearRTO(target, x0=xcur)
        M = s.M
        apply = (lambda v, f: M(v, f)) if callable(M) else (lambda v, f: (M @ v if f == 1 else M.T @ v))
    except (ValueError, TypeError, NotImplementedError):
        if order in ('dense,dense', 'sparse,sparse'): raise            # only a MIXTURE of storage types may be refused
        c.holds('this_mixture_of_storage_types_is_refused', True); return
    x = c.vec('x', n)
    spec = A.T @ (y - A @ x) / nv - R1.T @ (R1 @ (x - mu1)) - R2.T @ (R2 @ (x - mu2))
    c.eq('normal_equations_are_those_of_the_documented_posterior', np.asarray(apply(np.asarray(s.b_tild) - np.asarray(apply(x, 1)), 2)).ravel(), spec, tol=1e-7)


def five_tuple(c, m=2, n=2):
    """legacy 5-tuple input form (data, model, L_sqrtprec, P_mean, P_sqrtprec)"""
    from cuqi.sampler import LinearRTO
    A = c.mat('A', m, n); data = c.vec('y', m); Ls = c.vec('ls', m, pos=True); Pm = c.vec('mu', n); Ps = c.vec('ps', n, pos=True)
    s = LinearRTO((data, LinearModel(A), np.diag(Ls) if not c.sym else np.where(np.eye(m) == 1, np.diag(Ls), core.SReal(z3.RealVal(0))), Pm,
                   np.diag(Ps) if not c.sym else np.where(np.eye(n) == 1, np.diag(Ps), core.SReal(z3.RealVal(0)))))
    x = c.vec('x', n)
    spec_grad = A.T @ (Ls ** 2 * (data - A @ x)) + Ps ** 2 * (Pm - x)       # gradient of the documented Gaussian posterior
    c.eq('normal_equations_are_those_of_the_documented_posterior', s.M(np.asarray(s.b_tild) - np.asarray(s.M(x, 1)), 2), spec_grad)
    _check_operator(c, s.M, s.b_tild, s.target, n)


def ugla(c, iface, m=2, n=3, bc='zero', noise='scalar', loc_form='vector', image=False):
    """UGLA step against the documented local Gaussian approximation at the current state x_k:
    prior precision (1/b) D^T W(x_k) D with W = diag(((D x_k)^2 + beta)^(-1/2)), prior location mu"""
    A = c.mat('A', m, n); data = c.vec('y', m); nv = c.real('noise_v', pos=True)
    scale = c.real('scale', pos=True); beta = c.real('beta', pos=True)
    if loc_form == 'vector':
        loc = c.vec('loc', n); prior = LMRF(loc, scale, bc_type=bc, geometry=(cuqi.geometry.Image2D((2, n // 2)) if image else cuqi.geometry.Continuous1D(n)))      # image: the 2-D field (differences along both axes stacked)
    else:                                                   # a scalar location stands for the constant vector (its differences do NOT vanish at a zero boundary)
        l0 = c.real('loc0'); loc = l0 * np.ones(n) if not c.sym else np.array([l0] * n, dtype=object)
        prior = LMRF(l0, scale, bc_type=bc, geometry=cuqi.geometry.Continuous1D(n))
    if c.sym: shims.symbolize_operators(prior)
    if noise == 'scalar' and image:
        gimg = prior.geometry
        Amodel = LinearModel(lambda X: A @ np.asarray(X).ravel(), lambda w: (A.T @ w).reshape(gimg.fun_shape), range_geometry=m, domain_geometry=gimg)
        dd = Gaussian(Amodel, nv, geometry=m); Pn = (1 / nv) * np.eye(m)
    elif noise == 'scalar':
        dd = Gaussian(LinearModel(A), nv, geometry=m); Pn = (1 / nv) * np.eye(m)
    else:
        Gn = c.lower('gn', m); Cn = Gn @ Gn.T                          # correlated noise: the stored square root is not symmetric
        dd = Gaussian(LinearModel(A), cov=Cn, geometry=m)
        det = Cn[0, 0] * Cn[1, 1] - Cn[0, 1] * Cn[1, 0]
        Pn = np.array([[Cn[1, 1], -Cn[0, 1]], [-Cn[1, 0], Cn[0, 0]]], dtype=Cn.dtype) / det
    lik = dd.to_likelihood(data)
    target = Posterior(lik, prior)
    xk = c.vec('xk', n)
    StubCGLS.calls.clear()
    e_len = m + prior._diff_op.shape[0]
    e = c.vec('e', e_len)
    if c.sym: shims.PRESET['normal'].append(e)
    else: c._numq['normal'].append(e); c._patch_random()
    if iface == 'exp':
        from cuqi.experimental.mcmc import UGLA
        s = UGLA(target, initial_point=xk, beta=beta, maxit=(9 if c.sym else 500), tol=(1e-3 if c.sym else 1e-14)); s.initialize()
        s.step(); new = s.current_point
        M, b = s.M, s._b_tild
    else:
        from cuqi.sampler import UGLA
        s = UGLA(target, x0=xk, beta=beta, maxit=(9 if c.sym else 500), tol=(1e-3 if c.sym else 1e-14))
        out = s._sample(2, 0); new = out[0][:, 1]
        M, b = None, s._b_tild
    D = prior._diff_op.get_matrix(); D = D.a if isinstance(D, shims.STag) else D.toarray()
    Dx = D @ xk
    w = 1 / np.sqrt(np.asarray(Dx) ** 2 + beta)
    x = c.vec('x', n)
    # stationarity of the documented local approximation: A^T (y - A x)/noise_v - (1/scale) D^T W D (x - loc)
    spec_grad = A.T @ (Pn @ (data - A @ x)) - (1 / scale) * (D.T @ (w * (D @ (x - loc))))
    if c.sym:
        call = StubCGLS.calls[0]; M = call.args['A']
        c.eq('perturbed_right_hand_side_is_b_plus_noise', call.args['b'], np.asarray(b) + e)
        c.eq('inner_solver_starts_from_current_state', call.args['x0'], xk)
        c.eq('the_draw_is_the_inner_solvers_result', new, call.result)
        y = c.vec('yy', e_len)
        c.eq('stacked_operator_adjoint_is_exact_transpose', np.sum(np.asarray(M(x, 1)) * y), np.sum(x * np.asarray(M(y, 2))))
        c.eq('normal_equations_are_stationarity_of_the_documented_local_approximation', M(np.asarray(b) - np.asarray(M(x, 1)), 2), spec_grad)
    else:
        # native: the draw solves (M^T M) x = M^T (b + e) for the documented quadratic:  spec_grad(new) + M^T e == 0 where M^T e = A^T e1/sqrt(nv) + sqrt(1/scale) D^T sqrt(W) e2
        Ln = dd.sqrtprec; Ln = Ln.toarray() if hasattr(Ln, 'toarray') else np.asarray(Ln, dtype=float)
        if Ln.ndim < 2: Ln = np.diag(np.ravel(Ln) * np.ones(m))
        Mt_e = A.T @ (Ln.T @ e[:m]) + np.sqrt(1 / scale) * (D.T @ (np.sqrt(w) * e[m:]))
        xx = np.asarray(new, dtype=float)
        g_at_new = A.T @ (np.asarray(Pn, dtype=float) @ (data - A @ xx)) - (1 / scale) * (D.T @ (w * (D @ (xx - loc))))
        c.eq('draw_is_exact_draw_of_the_documented_local_gaussian', g_at_new + Mt_e, np.zeros(n), tol=1e-5)


def jobs(tier):
    J = []
    q = tier == 'quick'
    for iface in ('exp', 'leg'):
        tag = 'experimental' if iface == 'exp' else 'legacy'
        mod = 'cuqi.experimental.mcmc._rto' if iface == 'exp' else 'cuqi.sampler._rto'
        fl = [f'{mod}:LinearRTO._precompute', f'{mod}:LinearRTO.step'] if iface == 'exp' else [f'{mod}:LinearRTO.__init__', f'{mod}:LinearRTO._sample']
        fl += ['cuqi.distribution._gaussian:Gaussian.sqrtprecTimesMean', 'cuqi.distribution._gmrf:GMRF.sqrtprec', 'cuqi.distribution._gmrf:GMRF.sqrtprecTimesMean']
        cfgs = [(2, 2, 'scalar', 'scalar', 'Gaussian', 'matrix', 1), (3, 2, 'vector', 'vector', 'Gaussian', 'functions', 1), (1, 2, 'scalar', 'vector', 'Gaussian', 'matrix', 1),
                (2, 2, 'scalar', 'scalar', 'Gaussian', 'matrix', 2), (3, 2, 'vector', 'scalar', 'Gaussian', 'functions', 3), (2, 3, 'vector', None, 'GMRF', 'matrix', 1)]
        if not q: cfgs += [(2, 2, 'dense', 'dense', 'Gaussian', 'matrix', 1), (2, 2, 'vector', 'dense', 'Gaussian', 'functions', 2), (3, 1, 'scalar', 'scalar', 'Gaussian', 'matrix', 1)]
        for (m, n, nf, pf, pk, backing, nlik) in cfgs:
            J.append(Job(f'{tag}.LinearRTO:m={m}:n={n}:noise={nf}:prior={pk}/{pf}:{backing}:likelihoods={nlik}',
                         lambda c, a=(iface, m, n, nf, pf, pk, backing, nlik): linear_rto(c, *a), 'Pbox', fl, extra=_extra, rtol=1e-4, timeout=600))
        for (m, n, nf, backing, nlik) in ((2, 2, 'vector', 'matrix', 2), (2, 2, 'scalar', 'functions', 3)):
            J.append(Job(f'{tag}.LinearRTO:m={m}:n={n}:noise={nf}:prior=Gaussian/scalar:{backing}:likelihoods={nlik}:equally_many_data_each',
                         lambda c, a=(iface, m, n, nf, 'scalar', 'Gaussian', backing, nlik): linear_rto(c, *a, same_m=True), 'Pbox', fl, extra=_extra, rtol=1e-4, timeout=600))
        for (np_, pp) in (('prec', 'sqrtprec'), ('sqrtcov', 'prec'), ('sqrtprec', 'sqrtcov')):
            J.append(Job(f'{tag}.LinearRTO:m=2:n=2:noise_param={np_}:prior_param={pp}', lambda c, i=iface, a=np_, b=pp: linear_rto(c, i, 2, 2, 'vector', 'vector', 'Gaussian', 'matrix', 1, a, b),
                         'Pbox', fl, extra=_extra, rtol=1e-4, timeout=600))
        um = 'cuqi.experimental.mcmc._laplace_approximation' if iface == 'exp' else 'cuqi.sampler._laplace_approximation'
        J.append(Job(f'{tag}.UGLA:local_gaussian_approximation:bc=zero:image_2x2', lambda c, i=iface: ugla(c, i, 2, 4, 'zero', 'scalar', 'vector', True), 'Pbox', [f'{um}:UGLA.step' if iface == 'exp' else f'{um}:UGLA._sample', f'{um}:UGLA._precompute' if iface == 'exp' else f'{um}:UGLA.__init__'], extra=_extra, rtol=1e-4, timeout=600))
        for bc in ('zero', 'neumann'):
            J.append(Job(f'{tag}.UGLA:local_gaussian_approximation:bc={bc}:correlated_noise', lambda c, i=iface, bc=bc: ugla(c, i, 2, 3, bc, 'dense'), 'Pbox',
                         [f'{um}:UGLA._precompute', f'{um}:UGLA.step'] if iface == 'exp' else [f'{um}:UGLA._sample'], extra=_extra, rtol=1e-5, timeout=600))
            J.append(Job(f'{tag}.UGLA:local_gaussian_approximation:bc={bc}:scalar_location', lambda c, i=iface, bc=bc: ugla(c, i, 2, 3, bc, 'scalar', 'scalar'), 'Pbox',
                         [f'{um}:UGLA._precompute', f'{um}:UGLA.step'] if iface == 'exp' else [f'{um}:UGLA._sample'], extra=_extra, rtol=1e-5, timeout=600))
            J.append(Job(f'{tag}.UGLA:local_gaussian_approximation:bc={bc}', lambda c, i=iface, bc=bc: ugla(c, i, 2, 3, bc), 'Pbox',
                         [f'{um}:UGLA._precompute', f'{um}:UGLA.step'] if iface == 'exp' else [f'{um}:UGLA._sample'], extra=_extra, rtol=1e-5, timeout=600))
    for iface, tag in (('exp', 'experimental'), ('leg', 'legacy')):
        for param in ('cov', 'prec', 'sqrtcov', 'sqrtprec'):
            J.append(Job(f'{tag}.LinearRTO:history:new_sampler_after_reassigning_prior_{param}', lambda c, i=iface, p=param: rto_after_reassignment(c, i, p), 'Pbox',
                         ['cuqi.distribution._gaussian:Gaussian.sqrtprecTimesMean', 'cuqi.distribution._gaussian:Gaussian.sqrtprec'], extra=_extra, rtol=1e-4))
    for iface, tag in (('exp', 'experimental'), ('leg', 'legacy')):
        for param in ('cov', 'prec', 'sqrtcov', 'sqrtprec'):
            for side in ('below', 'above'):
                J.append(Job(f'{tag}.LinearRTO:documented_posterior:dense_{param}:sparse_switch={side}', lambda c, i=iface, p=param, sd=side: rto_documented_posterior(c, i, p, sd), 'B',
                             ['cuqi.distribution._gaussian:get_sqrtprec_from_prec', 'cuqi.distribution._gaussian:get_sqrtprec_from_cov'], nnum=6 if q else 40))
    for iface, tag in (('exp', 'experimental'), ('leg', 'legacy')):
        for param in ('cov', 'prec', 'sqrtcov', 'sqrtprec'):
            for form in ('diag', 'sparse_diag'):
                for side in ('below', 'above'):
                    J.append(Job(f'{tag}.LinearRTO:documented_posterior:{form}_matrix_{param}:sparse_switch={side}', lambda c, i=iface, p=param, sd=side, f=form: rto_documented_posterior(c, i, p, sd, 4, 3, f), 'B',
                                 ['cuqi.distribution._gaussian:get_sqrtprec_from_prec', 'cuqi.distribution._gaussian:get_sqrtprec_from_cov', 'cuqi.distribution._gaussian:get_sqrtprec_from_sqrtcov',
                                  'cuqi.distribution._gaussian:get_sqrtprec_from_sqrtprec'], nnum=4 if q else 20))
    for iface, tag in (('exp', 'experimental'), ('leg', 'legacy')):
        for param in ('cov', 'prec'):
            for form in ('banded_dia', 'banded_csr', 'banded_csc'):
                for side in ('below', 'above'):
                    if q and form == 'banded_csc': continue
                    J.append(Job(f'{tag}.LinearRTO:documented_posterior:{form}_matrix_{param}:sparse_switch={side}', lambda c, i=iface, p=param, sd=side, f=form: rto_documented_posterior(c, i, p, sd, 4, 3, f), 'B',
                                 ['cuqi.distribution._gaussian:get_sqrtprec_from_prec', 'cuqi.distribution._gaussian:get_sqrtprec_from_cov'], nnum=3 if q else 12))
    for iface, tag in (('exp', 'experimental'), ('leg', 'legacy')):
        for order in ('dense,dense', 'sparse,sparse', 'sparse,dense', 'dense,sparse'):
            J.append(Job(f'{tag}.LinearRTO:JointGaussianSqrtPrec_prior:{order}', lambda c, i=iface, o=order: rto_joint_sqrtprec_prior(c, i, o), 'B',
                         ['cuqi.distribution._gaussian:JointGaussianSqrtPrec.sqrtprec', 'cuqi.distribution._gaussian:JointGaussianSqrtPrec.sqrtprecTimesMean'], nnum=3))
    J.append(Job('legacy.LinearRTO:five_tuple_form', five_tuple, 'Pbox', ['cuqi.sampler._rto:LinearRTO.__init__'], extra=_extra, rtol=1e-4))
    return J
