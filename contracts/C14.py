"""C14 — chains are continuous, resumable from a checkpoint, and recorded faithfully."""
import os, tempfile, builtins
import numpy as np
import z3
from pvc.runner import Job
from pvc import core, shims, frame, loops
from pvc.ghost import SInt, sint
import cuqi
import cuqi.experimental.mcmc as EX
import cuqi.sampler as LG
import cuqi.experimental.mcmc._sampler as SMOD
from cuqi.distribution import Gaussian, Posterior, LMRF, JointDistribution, Gamma
from cuqi.model import LinearModel

EXPLANATION = ("stateful interface: sample(N); sample(M) gives the same chain as sample(N+M) from the same random stream; a run saved after warm-up (state changed by tuning) at any "
               "checkpoint position and loaded into a FRESH sampler of the same configuration (set_state and save/load_checkpoint) continues with the transitions of the uninterrupted run; "
               "one entry (the state after the transition) appended per transition and the callback invoked exactly once with that state and its index; entries never altered later; "
               "reinitialize restores the constructed configuration. Stateless interface: recorded chain has the requested length, starts with the initial point, lists consecutive "
               "states, callback once per transition with the chain index, earlier entries not altered.")
ASSUMPTIONS = ["symbolic kernel jobs (MH, PCN, MALA, ULA, CWMH: uninterpreted targets, symbolic draws) are at dimension 2; chain length is unbounded through the cut base-class loops "
               "(arbitrary kernel, symbolic chain length) and the state-closure clauses; NUTS, LinearRTO, UGLA closures and all chain comparisons are native (level B)",
               "state closure: kernels read no mutable module-level state (instance attributes, the target and the random stream only); attribute reads are traced on the sampler instance, "
               "values compared over everything reachable from the attribute",
               "pickle round trip is the identity on the state dictionary"]


# ------------------------------------------------------------------------------------------ targets and samplers (native)
def _gauss_target(n=3): return Gaussian(np.arange(n) * 0.3, 0.5 + 0.1 * np.arange(n), name='x')
def _posterior(n=3, m=4):
    rng = np.random.default_rng(5); A = rng.standard_normal((m, n))
    x = Gaussian(0.2 * np.ones(n), 1.0, name='x'); y = Gaussian(LinearModel(A), 0.3, name='y')
    return JointDistribution(x, y)(y=A @ np.ones(n) + 0.1)
def _regularized_posterior(n=3, m=4):
    from cuqi.implicitprior import RegularizedGaussian
    rng = np.random.default_rng(7); A = rng.standard_normal((m, n))
    x = RegularizedGaussian(0.2 * np.ones(n), 1.0, constraint='nonnegativity', name='x'); y = Gaussian(LinearModel(A), 0.3, name='y')
    return JointDistribution(x, y)(y=A @ np.ones(n) + 0.1)
def _lmrf_posterior(n=4):
    rng = np.random.default_rng(6); A = rng.standard_normal((n, n))
    x = LMRF(0, 0.5, geometry=n, name='x'); y = Gaussian(LinearModel(A), 0.3, name='y')
    return JointDistribution(x, y)(y=A @ np.ones(n))


EXP = {
    'MH': lambda cb=None: EX.MH(_gauss_target(), scale=0.7, callback=cb),
    'CWMH': lambda cb=None: EX.CWMH(_gauss_target(), scale=0.7, callback=cb),
    'PCN': lambda cb=None: EX.PCN(_posterior(), scale=0.3, callback=cb),
    'ULA': lambda cb=None: EX.ULA(_gauss_target(), scale=0.05, callback=cb),
    'MALA': lambda cb=None: EX.MALA(_gauss_target(), scale=0.3, callback=cb),
    'NUTS': lambda cb=None: EX.NUTS(_gauss_target(), max_depth=4, callback=cb),
    'NUTS(step_size)': lambda cb=None: EX.NUTS(_gauss_target(), max_depth=4, step_size=0.05, callback=cb),      # option given, then adapted by warm-up
    'LinearRTO': lambda cb=None: EX.LinearRTO(_posterior(), callback=cb),
    'UGLA': lambda cb=None: EX.UGLA(_lmrf_posterior(), callback=cb),
    'RegularizedLinearRTO': lambda cb=None: EX.RegularizedLinearRTO(_regularized_posterior(), maxit=30, stepsize=1e-2, callback=cb),
}


def _chain(s): return np.array(s._samples)


def split_continuity(c, name, N=4, M=3, warm=0, tune_freq=None):
    seed = int(c.real('seed', lo=0, hi=10 ** 6))
    def run(parts):
        np.random.seed(seed); s = EXP[name]()
        if warm: s.warmup(warm) if tune_freq is None else s.warmup(warm, tune_freq=tune_freq)
        for p in parts: s.sample(p)
        return _chain(s)
    a, b = run([N + M]), run([N, M])
    c.holds('same_length', a.shape == b.shape == (warm + N + M, a.shape[1]), note=f"{a.shape} {b.shape}")
    c.eq('sample_N_then_M_is_sample_N_plus_M', b, a, tol=1e-12)
    z = run([N, 0, M])
    c.eq('sample_zero_in_between_changes_nothing', z, a, tol=1e-12)


def hybrid_native_continuity(c, strategy):
    """the real HybridGibbs with real block samplers (native): sample(N); sample(M) == sample(N+M), sample(0) in between changes nothing
    and does not consume the random stream, also after warm-up"""
    from cuqi.distribution import JointDistribution
    seed = int(c.real('seed', lo=0, hi=10 ** 6))
    def mk():
        s = Gaussian(np.zeros(2), 1.0, name='s'); x = Gaussian(lambda s: s, 0.5, geometry=2, name='x')
        J = JointDistribution(s, x)
        blocks = {'MH+Direct': lambda: dict(s=EX.MH(scale=0.6), x=EX.Direct()), 'MH+MH': lambda: dict(s=EX.MH(scale=0.6), x=EX.MH(scale=0.5)),
                  'Direct+Direct': lambda: dict(s=EX.MH(scale=0.6), x=EX.Direct())}[strategy]()
        return EX.HybridGibbs(J, blocks)
    def run(parts, warm=0):
        np.random.seed(seed); G = mk()
        if warm: G.warmup(warm)
        for p in parts: G.sample(p)
        S = G.get_samples()
        return np.concatenate([S[k].samples for k in sorted(S)], axis=0)
    import io, contextlib
    with contextlib.redirect_stdout(io.StringIO()), contextlib.redirect_stderr(io.StringIO()):
        a = run([7]); b = run([3, 4]); z = run([3, 0, 4]); z0 = run([0, 7])
        aw = run([5], 4); bw = run([2, 3], 4)
        np.random.seed(seed); G = mk(); G.sample(2); st0 = np.random.get_state()[1].copy(); G.sample(0); st1 = np.random.get_state()[1].copy()
    c.eq('sample_N_then_M_is_sample_N_plus_M', b, a, tol=1e-12)
    c.eq('sample_zero_in_between_changes_nothing', z, a, tol=1e-12)
    c.eq('sample_zero_first_changes_nothing', z0, a, tol=1e-12)
    c.eq('after_warmup:sample_N_then_M_is_sample_N_plus_M', bw, aw, tol=1e-12)
    c.holds('sample_zero_does_not_consume_the_random_stream', bool(np.array_equal(st0, st1)))


def resume(c, name, via, k=2, warm=6, N=5):
    """checkpoint after warm-up + k sampling transitions; resume in a freshly constructed sampler"""
    seed = int(c.real('seed', lo=0, hi=10 ** 6))
    np.random.seed(seed); s = EXP[name]()
    if warm: s.warmup(warm)
    s.sample(k)
    rs = np.random.get_state()
    if via == 'state': saved = s.get_state()
    else:
        d = tempfile.mkdtemp(dir=os.environ.get('TMPDIR')); path = os.path.join(d, 'ckpt.pickle'); s.save_checkpoint(path)
    s.sample(N - k)
    ref = _chain(s)[warm + k:]
    s2 = EXP[name]()                    # freshly constructed: NOT initialised by the harness - loading must survive the sampler's own initialisation at first use
    if via == 'state': s2.set_state(saved)
    else:
        s2.load_checkpoint(path); os.remove(path); os.rmdir(d)
    np.random.set_state(rs)
    s2.sample(N - k)
    got = _chain(s2)
    c.holds('resumed_run_makes_as_many_transitions_as_the_uninterrupted_run', len(got) == len(ref) == N - k, note=f"{len(got)} {len(ref)}")
    if N - k: c.eq('resumed_run_makes_the_transitions_of_the_uninterrupted_run', got, ref, tol=1e-12)


def batches_on_disk(c, name, N=5, batch=2):
    """sample(N, batch_size=b): the batch files, concatenated in order, are the recorded chain - all N states, also when b does not divide N"""
    import glob
    seed = int(c.real('seed', lo=0, hi=10 ** 6)); np.random.seed(seed)
    d = tempfile.mkdtemp(dir=os.environ.get('TMPDIR'))
    try:
        s = EXP[name](); s.sample(N, batch_size=batch, sample_path=d)
        files = sorted(glob.glob(os.path.join(d, 'batch_*.npz')))
        parts = [np.load(f)['samples'] for f in files]
        disk = np.concatenate(parts, axis=0) if parts else np.zeros((0,))
        c.holds('every_state_of_the_chain_reaches_the_disk', len(disk) == N, note=f"{len(disk)} of {N} states in {len(files)} files")
        if len(disk) == N: c.eq('batches_in_order_are_the_chain', disk, _chain(s), tol=0)
    finally:
        for f in glob.glob(os.path.join(d, '*')): os.remove(f)
        os.rmdir(d)


def recording(c, name, N=5, warm=3):
    seed = int(c.real('seed', lo=0, hi=10 ** 6)); np.random.seed(seed)
    log = []
    s = EXP[name](cb=lambda x, i: log.append((np.array(x, dtype=float).copy(), i)))
    s.warmup(warm); s.sample(N)
    ch = _chain(s)
    c.holds('recorded_chain_has_one_entry_per_transition', ch.shape[0] == warm + N, note=str(ch.shape))
    c.holds('callback_invoked_exactly_once_per_transition_with_the_chain_index', [i for _, i in log] == list(range(warm + N)), note=str([i for _, i in log]))
    c.eq('callback_received_the_state_after_the_transition_and_entries_were_not_altered_later', np.array([x for x, _ in log]), ch, tol=0)
    c.eq('last_entry_is_the_current_point', ch[-1], np.asarray(s.current_point, dtype=float), tol=0)
    S = s.get_samples()
    c.eq('get_samples_lists_the_chain_in_order', S.samples.T, ch, tol=0)


def reinit(c, name):
    seed = int(c.real('seed', lo=0, hi=10 ** 6)); np.random.seed(seed)
    s = EXP[name](); np.random.seed(seed + 1); s.initialize()
    import copy as _copy
    first = {k: _copy.deepcopy(getattr(s, k)) for k in s._STATE_KEYS | s._HISTORY_KEYS}
    s.warmup(6); s.sample(3)
    np.random.seed(seed + 1); s.reinitialize()
    for k, v in first.items():
        now = getattr(s, k)
        try: same = np.array_equal(np.asarray(now, dtype=float), np.asarray(v, dtype=float))
        except (TypeError, ValueError): same = (now == v)
        c.holds(f'{k}_restored_to_value_after_first_initialisation', bool(same), note=f"{now!r} vs {v!r}"[:120])


# ------------------------------------------------------------------------------------------ symbolic: real samplers, symbolic draws
def _sym_target(c, n=2):
    """arbitrary differentiable target: user-defined distribution with uninterpreted log-density and gradient"""
    from cuqi.distribution import UserDefinedDistribution
    return UserDefinedDistribution(dim=n, logpdf_func=lambda x: c.uf('logpi', *list(x)),
                                   gradient_func=lambda x: np.array([c.uf(f'gradpi{i}', *list(x)) for i in range(n)], dtype=object if c.sym else float))


def _mk_sym(c, name, cb=None, target=None):
    n = 2
    tg = target if target is not None else (_sym_target(c) if name != 'PCN' else None)
    if name == 'MH': return EX.MH(tg, scale=c.real('scale0', pos=True), initial_point=c.vec('x0', n), callback=cb)
    if name == 'MALA': return EX.MALA(tg, scale=c.real('scale0', pos=True), initial_point=c.vec('x0', n), callback=cb)
    if name == 'ULA': return EX.ULA(tg, scale=c.real('scale0', pos=True), initial_point=c.vec('x0', n), callback=cb)
    if name == 'CWMH': return EX.CWMH(tg, scale=c.real('scale0', lo=0, hi=1), initial_point=c.vec('x0', n), callback=cb)
    if name == 'PCN':
        if tg is None:
            from cuqi.likelihood import UserDefinedLikelihood
            x = Gaussian(c.vec('pm', n), c.vec('pv', n, pos=True), name='x')
            L = UserDefinedLikelihood(dim=n, logpdf_func=lambda x: c.uf('loglike', *list(x)))
            tg = Posterior(L, x)
        return EX.PCN(tg, scale=c.real('scale0', lo=0, hi=1), initial_point=c.vec('x0', n), callback=cb)


def _queue(c, name, T, n=2):
    """name the random draws of T transitions (the same symbols for every run of the contract)"""
    for t in range(T):
        z = c.vec(f'xi{t}_', n)
        if name in ('MALA', 'ULA'): q = z
        elif name == 'CWMH': q = z.reshape(1, n)            # Normal proposal: an (N, dim) array, transposed
        else: q = z.reshape(n, 1)
        if c.sym: shims.PRESET['normal'].append(q)
        else: c._numq['normal'].append(q); c._patch_random()
        if name == 'CWMH':
            for j in range(n): c.next_uniform(f'u{t}_{j}')   # one uniform per component
        elif name != 'ULA': c.next_uniform(f'u{t}')


def _clear_queue(c):
    if c.sym: shims.PRESET['normal'].clear(); shims.PRESET['uniform'].clear()
    else: c._numq['normal'].clear(); c._numq['uniform'].clear()


def sym_resume(c, name, T=2):
    """uninterrupted: initialise, tune (scale changes), T transitions.  resumed: FRESH sampler, set_state(state after tuning), same draws.
    State closure: every instance attribute the resumed run reads before writing it equals that of the uninterrupted sampler at the checkpoint
    (all paths of the kernel are explored, so these are ALL its inputs: equal inputs, same kernel, same stream => same chain of any length)"""
    s = _mk_sym(c, name); s.initialize()
    s._acc = [1, 0, 1, 1] if name != 'CWMH' else [np.array([1, 0]), np.array([0, 0]), np.array([1, 1]), np.array([1, 0])]
    s.tune(2, 0)                                   # warm-up moved the tuned state away from the constructed one
    saved = s.get_state()
    hist = set(s._HISTORY_KEYS)
    A = _attr_snap(s, hist)
    _queue(c, name, T)
    accs = [s.step() for _ in range(T)]
    after = s.get_state()['state']
    _clear_queue(c)
    s2 = _mk_sym(c, name, target=s.target); s2.set_state(saved)         # fresh, not initialised by the harness
    B = _attr_snap(s2, hist)
    _queue(c, name, T)
    log = trace(s2)
    try: accs2 = [s2.step() for _ in range(T)]
    finally: untrace(s2)
    after2 = s2.get_state()['state']
    c.holds('same_acceptance_decisions', all(np.array_equal(np.asarray(a1, dtype=float), np.asarray(a2, dtype=float)) for a1, a2 in zip(accs, accs2)))
    for k in sorted(after):
        c.eq(f'state[{k}]_after_resumed_transitions_equals_uninterrupted', after2[k], after[k])
    closure_clauses(c, A, B, log, hist | {'_is_initialized'}, 'closure:')


def sym_recording(c, name, T=2):
    log = []
    s = _mk_sym(c, name, cb=lambda x, i: log.append((x, i)))
    _queue(c, name, T)
    s.sample(T)
    c.holds('one_entry_per_transition', len(s._samples) == T and len(s._acc) == T + 1)
    c.holds('callback_once_per_transition_with_index', [i for _, i in log] == list(range(T)))
    for t in range(T):
        c.eq(f'callback[{t}]_received_the_recorded_state', log[t][0], s._samples[t])
    c.eq('last_entry_is_current_point', s._samples[-1], s.current_point)
    first = np.array(s._samples[0], dtype=object if c.sym else float).copy()
    _clear_queue(c); _queue(c, name, 1)
    s.sample(1)
    c.holds('continued_chain_has_T_plus_1_entries', len(s._samples) == T + 1)
    c.eq('earlier_entry_not_altered_by_later_transitions', s._samples[0], first)


# ------------------------------------------------------------------------------------------ base-class loops with a generic kernel
class GhostList:
    """a stored chain of SYMBOLIC length n whose existing entries are opaque: appends are collected, every other access is logged"""
    def __init__(self, name, n): self.name = name; self.n = n; self.appended = []; self.log = []
    def append(self, v): self.appended.append(v)
    def glen(self): return self.n + builtins.len(self.appended)
    def __getitem__(self, k):
        self.log.append(('getitem', k))
        if isinstance(k, slice): return np.array([0.5])          # (only the progress display reads a slice of the acceptance history)
        raise core.Concretised("entry of a ghost list")
    def __setitem__(self, k, v): self.log.append(('mutate', 'setitem', k))
    def __delitem__(self, k): self.log.append(('mutate', 'delitem', k))
    def pop(self, *a): self.log.append(('mutate', 'pop') + a)
    def insert(self, i, v): self.log.append(('mutate', 'insert', i))
    def extend(self, it): self.log.append(('mutate', 'extend'))
    def clear(self): self.log.append(('mutate', 'clear'))
    def __iter__(self): raise core.Concretised("iteration over a ghost list")
    def mutations(self): return [e for e in self.log if e[0] == 'mutate']


class _GhostRange:
    def __init__(self, *a): self.args = a
class _Bar:
    def __init__(self, it, *a, **k): self.it = it; self.desc = a
    def set_postfix_str(self, s): pass
    def __iter__(self): return iter(self.it)
def _len(x): return x.glen() if isinstance(x, GhostList) else builtins.len(x)
def _range(*a): return _GhostRange(*a) if any(isinstance(v, SInt) for v in a) else builtins.range(*a)


def _loop_extra():
    # builtins are looked up in the module globals first: len / range of the sampler module see symbolic lengths; tqdm is display only
    return {'cuqi.experimental.mcmc._sampler': dict(tqdm=_Bar, len=_len, range=_range)}


def _generic_sampler(cb_log):
    """a sampler whose kernel is arbitrary: step() replaces the current point by a fresh opaque object and returns a fresh acceptance token"""
    class Generic(SMOD.Sampler):
        def _initialize(self): pass
        def validate_target(self): pass
        def step(self):
            self.calls.append(('step',)); self.current_point = ('state', builtins.len(self.calls)); return ('acc', builtins.len(self.calls))
        def tune(self, skip_len, update_count): self.calls.append(('tune', skip_len, update_count, self.current_point))
    class _T:               # the loops only touch the target through the sampler's own methods
        dim = 2; geometry = None
    s = Generic(_T(), initial_point=('state', 0), callback=lambda x, i: cb_log.append((x, i)))
    s.calls = []
    return s


def _vars(t):
    out = set()
    def walk(e):
        if z3.is_const(e) and e.decl().kind() == z3.Z3_OP_UNINTERPRETED: out.add(str(e))
        for ch in e.children(): walk(ch)
    walk(t); return out


def base_loop(c, which):
    """Sampler.sample / Sampler.warmup, loop cut mechanically from the real method; ONE iteration from an arbitrary loop-head state
    (chain of symbolic length, symbolic loop counter, arbitrary kernel): with the prologue/epilogue clauses below this is the induction step of
    'sample(N) performs exactly N transitions, appends the state after each to the end of the chain and reports it once with its chain index'
    for every N and every earlier history"""
    cb = []
    s = _generic_sampler(cb); s.initialize()
    fn = SMOD.Sampler.sample if which == 'sample' else SMOD.Sampler.warmup
    pre, cond, body, post, names, info = loops.split_loop(fn, 0)
    n0 = sint('chain_length'); Nreq = sint('N_requested'); idx = sint('idx')
    c.assume(core.SBool(n0.t >= 0)); c.assume(core.SBool(z3.And(idx.t >= 0, idx.t < Nreq.t)))
    chain = GhostList('_samples', n0); acc = GhostList('_acc', n0 + 1)
    s._samples = chain; s._acc = acc
    # ---- prologue on an initialised sampler: nothing happens to state or history ----
    D0 = frame.snapshot(s, ('calls',))
    if which == 'sample': tag, st = pre({'self': s, 'Ns': Nreq, 'batch_size': 0, 'sample_path': './none/'})
    else: tag, st = pre({'self': s, 'Nb': 10, 'tune_freq': 0.3})          # (the tuning interval is generalised below)
    c.holds('prologue:falls_through_to_the_loop', tag == '__next')
    c.holds('prologue:no_transition_no_callback', s.calls == [] and cb == [])
    c.holds('prologue:state_and_history_untouched', frame.same(D0, frame.snapshot(s, ('calls',))) and not chain.appended and not acc.appended and not chain.mutations(),
            note='; '.join(frame.diff(D0, frame.snapshot(s, ('calls',)))))
    st = dict(st)
    it = cond(st)
    if which == 'sample':
        c.holds('loop_runs_over_range_of_the_requested_number', isinstance(it, _Bar) and isinstance(it.it, _GhostRange) and builtins.len(it.it.args) == 1 and it.it.args[0] is Nreq)
    else:
        c.holds('loop_runs_over_range_of_the_requested_number', isinstance(it, _Bar) and isinstance(it.it, builtins.range) and it.it == builtins.range(10))
        c.holds('tuning_interval_is_the_documented_fraction_of_the_warmup_length', st['tune_interval'] == 3, note=str(st.get('tune_interval')))
        ti = sint('tune_interval'); c.assume(core.SBool(ti.t >= 1)); st['tune_interval'] = ti
    # ---- one iteration ----
    st[info['target']] = idx
    tagb, st1 = body(st)
    c.holds('iteration:falls_through', tagb == '__next')
    steps = [e for e in s.calls if e[0] == 'step']; tunes = [e for e in s.calls if e[0] == 'tune']
    c.holds('iteration:exactly_one_transition', builtins.len(steps) == 1 and s.calls[0][0] == 'step')
    new = ('state', 1)
    c.holds('iteration:state_after_the_transition_appended_once_at_the_end_of_the_chain', builtins.len(chain.appended) == 1 and chain.appended[0] == new and s._samples is chain)
    c.holds('iteration:earlier_entries_never_touched', chain.mutations() == [] and not any(e[0] == 'getitem' for e in chain.log), note=str(chain.log))
    c.holds('iteration:acceptance_record_appended_once', acc.appended == [('acc', 1)] and acc.mutations() == [] and s._acc is acc)
    c.holds('iteration:callback_invoked_exactly_once_with_the_new_state', builtins.len(cb) == 1 and cb[0][0] == new)
    if builtins.len(cb) == 1:
        ci = cb[0][1]
        c.holds('iteration:callback_index_is_the_position_of_the_new_entry_in_the_chain', SInt.lift(ci) == n0)
        if isinstance(ci, SInt):
            c.holds('iteration:callback_index_independent_of_loop_counter_and_requested_number', not (_vars(ci.t) & {'idx', 'N_requested'}), note=str(ci))
    c.holds('iteration:current_point_is_the_last_entry', s.current_point == new)
    if which == 'warmup':
        ti = st['tune_interval']
        due = core.SBool((idx.t + 1) % ti.t == 0)
        if tunes:
            c.holds('iteration:tuning_only_when_an_interval_is_complete', due)
            c.holds('iteration:tuning_happens_once_after_the_transition_and_before_recording', builtins.len(tunes) == 1 and s.calls[1][0] == 'tune' and tunes[0][3] == new)
            c.holds('iteration:tuning_receives_interval_and_count', SInt.lift(tunes[0][1]) == ti)
            c.holds('iteration:tuning_count_is_number_of_completed_intervals_before', core.SBool(SInt.lift(tunes[0][2]).t * ti.t == idx.t + 1 - ti.t))
        else:
            c.holds('iteration:tuning_whenever_an_interval_is_complete', core.SBool(z3.Not(due.t)))
    else:
        c.holds('iteration:no_tuning_in_the_sampling_phase', not tunes)
    # ---- epilogue ----
    k0 = builtins.len(s.calls); cb0 = builtins.len(cb)
    tagp, ret = post(dict(st1))
    c.holds('epilogue:returns_the_sampler', tagp == '__ret' and ret is s)
    c.holds('epilogue:no_transition_no_callback_no_record', builtins.len(s.calls) == k0 and builtins.len(cb) == cb0 and builtins.len(chain.appended) == 1 and chain.mutations() == [])


def state_dictionary(c):
    """get_state / set_state of the base class with an arbitrary sampler (arbitrary declared state keys holding opaque objects): the saved dictionary holds exactly the
    declared state keys with the objects the attributes hold; loading it into another sampler of the same type assigns exactly those objects and nothing else;
    a state of another sampler type or with an undeclared key is refused; history likewise"""
    class A(SMOD.Sampler):
        _STATE_KEYS = SMOD.Sampler._STATE_KEYS.union({'alpha', '_beta'})
        def _initialize(self): self.alpha = ('alpha', 0); self._beta = ('beta', 0)
        def validate_target(self): pass
        def step(self): return 1
        def tune(self, skip_len, update_count): pass
    class B(A): pass
    class _T: dim = 2; geometry = None
    s = A(_T(), initial_point=('state', 0)); s.initialize()
    s.current_point = ('state', 7); s.alpha = ('alpha', 7); s._beta = ('beta', 7); s._samples.append(('state', 7))
    st = s.get_state()
    c.holds('saved_state_has_exactly_the_declared_keys', set(st['state']) == set(A._STATE_KEYS) and st['metadata']['sampler_type'] == 'A')
    c.holds('saved_values_are_the_objects_the_attributes_hold', all(st['state'][k] is getattr(s, k) for k in A._STATE_KEYS))
    t = A(_T(), initial_point=('state', 0)); t.initialize()
    before = dict(vars(t))
    t.set_state(st)
    c.holds('loading_assigns_exactly_the_saved_objects', all(getattr(t, k) is st['state'][k] for k in A._STATE_KEYS))
    changed = {k for k in vars(t) if k not in before or vars(t)[k] is not before[k]}
    c.holds('loading_changes_nothing_but_the_declared_state', changed <= {'_current_point', 'current_point', 'alpha', '_beta'}, note=str(changed))
    # a FRESH (never initialised) sampler: what is loaded must still be there after the initialisation every public entry point performs first
    u = A(_T(), initial_point=('state', 0))
    u.set_state(st)
    u._ensure_initialized()
    c.holds('state_loaded_into_a_fresh_sampler_survives_its_first_use', all(getattr(u, k) is st['state'][k] for k in A._STATE_KEYS), note=str({k: getattr(u, k, None) for k in A._STATE_KEYS}))
    w = A(_T(), initial_point=('state', 0))
    w.set_history(s.get_history())
    w._ensure_initialized()
    c.holds('history_loaded_into_a_fresh_sampler_survives_its_first_use', w._samples is s.get_history()['history']['_samples'] or list(w._samples) == list(s._samples), note=str(w._samples))
    c.holds('history_is_not_part_of_the_state', t._samples == [] and 'state' in st and '_samples' not in st['state'])
    c.expect_raise('state_of_another_sampler_type_refused', lambda: B(_T(), initial_point=('state', 0)).set_state(st), ValueError)
    bad = {'metadata': dict(st['metadata']), 'state': dict(st['state'], gamma=1)}
    c.expect_raise('undeclared_key_refused', lambda: A(_T(), initial_point=('state', 0)).set_state(bad), ValueError)
    h = s.get_history()
    c.holds('saved_history_has_exactly_the_declared_history_keys_with_the_stored_objects', set(h['history']) == set(A._HISTORY_KEYS) and all(h['history'][k] is getattr(s, k) for k in A._HISTORY_KEYS))
    t.set_history(h)
    c.holds('loading_history_assigns_exactly_the_saved_objects', all(getattr(t, k) is h['history'][k] for k in A._HISTORY_KEYS))
    c.expect_raise('history_of_another_sampler_type_refused', lambda: B(_T(), initial_point=('state', 0)).set_history(h), ValueError)


def base_loop_first_use(c, which):
    """the prologue on a sampler that was never initialised: initialises it (empty chain) and performs no transition"""
    cb = []; s = _generic_sampler(cb)
    fn = SMOD.Sampler.sample if which == 'sample' else SMOD.Sampler.warmup
    pre, cond, body, post, names, info = loops.split_loop(fn, 0)
    if which == 'sample': tag, st = pre({'self': s, 'Ns': 3, 'batch_size': 0, 'sample_path': './none/'})
    else: tag, st = pre({'self': s, 'Nb': 3, 'tune_freq': 0.1})
    c.holds('prologue_on_first_use:initialises_with_an_empty_chain_at_the_initial_point', s._is_initialized and s._samples == [] and s.current_point == ('state', 0))
    c.holds('prologue_on_first_use:no_transition_no_callback', s.calls == [] and cb == [])


# ------------------------------------------------------------------------------------------ state closure (resume for every chain length)
def trace(obj):
    """rebind obj's class to a subclass that logs attribute reads (of instance attributes) and writes; returns the log"""
    cls = type(obj); log = []
    class Traced(cls):
        def __getattribute__(self, k):
            if not k.startswith('__'):
                if k in object.__getattribute__(self, '__dict__'): log.append(('r', k))
            return cls.__getattribute__(self, k)
        def __setattr__(self, k, v):
            log.append(('w', k)); cls.__setattr__(self, k, v)
    Traced.__name__ = cls.__name__; Traced.__qualname__ = cls.__qualname__; Traced.__module__ = cls.__module__
    obj.__class__ = Traced
    return log


def untrace(obj): obj.__class__ = type(obj).__mro__[1]


def inputs_of(log):
    first = {}
    for ev, k in log: first.setdefault(k, ev)
    return sorted(k for k, ev in first.items() if ev == 'r')


def closure_clauses(c, running, fresh, log, hist, tag=''):
    """every instance attribute that the continued run READS before writing it has the same value in the fresh sampler that was
    given the saved state as in the sampler that kept running (snapshots taken at the checkpoint)"""
    A, B = running, fresh
    ins = inputs_of(log)
    c.holds(f'{tag}continued_run_reads_some_state', builtins.len(ins) > 0)
    for k in ins:
        if k in hist: continue
        a = A.get(k, ('missing',)); b = B.get(k, ('missing',))
        c.holds(f'{tag}attribute_read_by_the_continued_run_equals_that_of_the_uninterrupted_sampler[{k}]', frame.structural(a) == frame.structural(b),
                note='; '.join(frame.diff(frame.structural(a), frame.structural(b), k)))


def _attr_snap(s, hist):
    return {k: frame.snapshot_by_code(v, owner=s) for k, v in vars(s).items() if k not in hist}


def native_closure(c, name, warm=6, k=2, steps=6):
    """native (bounded): real sampler warmed up and advanced; fresh sampler of the same configuration (sharing the target object) receives
    the saved state; the continued run is traced over `steps` transitions of sample()"""
    import io, contextlib
    seed = int(c.real('seed', lo=0, hi=10 ** 6)); np.random.seed(seed)
    s = EXP[name]()
    with contextlib.redirect_stderr(io.StringIO()):
        if warm: s.warmup(warm)
        s.sample(k)
        saved = s.get_state()
        hist = set(s._HISTORY_KEYS)
        s2 = EXP[name](); s2.target = s.target; s2.set_state(saved)         # fresh, not initialised by the harness
        A = _attr_snap(s, hist); B = _attr_snap(s2, hist)
        log = trace(s2)
        try: s2.sample(steps)
        finally: untrace(s2)
        # entering the sampling phase again (its prologue and epilogue, no transition) changes no attribute of a sampler that is in it
        rs = np.random.get_state()[1].copy()
        Z0 = {k: frame.structural(v) for k, v in _attr_snap(s, ()).items()}
        s.sample(0)
        Z1 = {k: frame.structural(v) for k, v in _attr_snap(s, ()).items()}
    closure_clauses(c, A, B, log, hist | {'_is_initialized'})
    changed = sorted(k for k in set(Z0) | set(Z1) if Z0.get(k) != Z1.get(k))
    c.holds('entering_the_sampling_phase_again_changes_no_attribute', not changed, note=f"changed: {changed}")
    c.holds('entering_the_sampling_phase_again_consumes_no_random_number', bool(np.array_equal(rs, np.random.get_state()[1])))


def callback_object_kinds(c, iface, name):
    """'the callback is invoked exactly once for every state produced by a transition' - for ANY callable: besides plain functions, a recorder OBJECT with
    __call__ whose truth value is False while it is empty (it defines __len__; a list subclass with __call__): whether a callback is invoked depends on its
    presence, not on its truth value (bounded stand-in: native)"""
    import io, contextlib
    class Recorder:
        def __init__(self): self.seen = []
        def __call__(self, x, i): self.seen.append((np.array(x, dtype=float).copy(), i))
        def __len__(self): return len(self.seen)
    class ListRecorder(list):
        def __call__(self, x, i): self.append((np.array(x, dtype=float).copy(), i))
    np.random.seed(int(c.real('seed', lo=0, hi=10 ** 6)))
    for kind, rec in (('object_with_len', Recorder()), ('list_subclass', ListRecorder())):
        with contextlib.redirect_stdout(io.StringIO()), contextlib.redirect_stderr(io.StringIO()):
            if iface == 'exp':
                s = EXP[name](cb=rec); s.warmup(2); s.sample(4); n_expected = 6
            else:
                s = LEG[name](cb=rec); s.sample(5, 1); n_expected = 5          # states 1 .. N+Nb-1 are produced by transitions
        c.holds(f'{kind}:invoked_once_per_transition', len(rec) == n_expected, note=f"{len(rec)} invocations, {n_expected} transitions")


def legacy_wrapper(c, adapt):
    """legacy Sampler.sample / sample_adapt around an ARBITRARY kernel loop: for symbolic N, Nb (N + Nb >= 2) the returned Samples object holds exactly the
    array the sampler's loop returned (same object, no subscript applied by the wrapper), with the target's geometry and the reported diagnostics"""
    from pvc.ghost import GhostArray
    N = sint('N'); Nb = sint('Nb')
    c.assume(core.SBool(z3.And(N.t >= 1, Nb.t >= 0, N.t + Nb.t >= 2)))
    arr = GhostArray('chain', (3, N)); ll = GhostArray('loglike', (N,)); calls = []
    class K(LG.Sampler):
        def _sample(self, N_, Nb_): calls.append(('sample', N_, Nb_)); return arr, ll, 0.25
        def _sample_adapt(self, N_, Nb_): calls.append(('adapt', N_, Nb_)); return arr, ll, 0.25
    tgt = Gaussian(np.zeros(3), 1.0, name='x')
    k = K(tgt)
    out = (k.sample_adapt if adapt else k.sample)(N, Nb)
    c.holds('kernel_loop_called_once_with_the_requested_numbers', len(calls) == 1 and calls[0][0] == ('adapt' if adapt else 'sample') and calls[0][1] is N and calls[0][2] is Nb)
    c.holds('returned_chain_is_the_array_of_the_kernel_loop_unaltered', isinstance(out, cuqi.samples.Samples) and out.samples is arr, note=repr(getattr(out, 'samples', out)))
    c.holds('returned_object_carries_the_target_geometry_and_the_diagnostics', out.geometry == tgt.geometry and out.loglike_eval is ll and out.acc_rate == 0.25)


# ------------------------------------------------------------------------------------------ legacy (stateless) interface
LEG = {
    'MH': lambda cb=None: LG.MH(_gauss_target(), scale=0.7, x0=0.5 * np.ones(3), callback=cb),
    'CWMH': lambda cb=None: LG.CWMH(_gauss_target(), scale=0.7, x0=0.5 * np.ones(3), callback=cb),
    'pCN': lambda cb=None: LG.pCN(_posterior(), scale=0.3, x0=0.5 * np.ones(3), callback=cb),
    'ULA': lambda cb=None: LG.ULA(_gauss_target(), scale=0.05, x0=0.5 * np.ones(3), callback=cb),
    'MALA': lambda cb=None: LG.MALA(_gauss_target(), scale=0.3, x0=0.5 * np.ones(3), callback=cb),
    'NUTS': lambda cb=None: LG.NUTS(_gauss_target(), x0=0.5 * np.ones(3), max_depth=4, adapt_step_size=0.35, callback=cb),      # (a fixed step size: with two burn-in steps the adapted one freezes the chain)
    'LinearRTO': lambda cb=None: LG.LinearRTO(_posterior(), x0=0.5 * np.ones(3), callback=cb),
    'UGLA': lambda cb=None: LG.UGLA(_lmrf_posterior(), x0=0.5 * np.ones(4), callback=cb),
    'RegularizedLinearRTO': lambda cb=None: LG.RegularizedLinearRTO(_regularized_posterior(), x0=0.5 * np.ones(3), maxit=30, stepsize=1e-2, callback=cb),
}


def legacy_recording(c, name, adapt, N=12, Nb=2, short=False, long=False):
    if adapt and not short: N = 20
    if long: N, Nb = 230, 20                          # beyond the chain lengths at which progress output is thinned (every (N+Nb)//100-th state)
    seed = int(c.real('seed', lo=0, hi=10 ** 6)); np.random.seed(seed)
    log = []
    s = LEG[name](cb=lambda x, i: log.append((np.array(x, dtype=float).copy(), i)))
    x0 = np.array(s.x0, dtype=float).copy()
    out = (s.sample_adapt if adapt else s.sample)(N, Nb)
    ch = out.samples
    c.holds('recorded_chain_has_exactly_the_requested_length', ch.shape[-1] == N, note=str(ch.shape))
    if not short and name != 'CWMH':      # (vacuity guard for the comparisons below; twelve or more transitions of these configurations move with overwhelming probability)
        c.holds('harness:the_chain_moves', len({tuple(np.round(col, 12)) for col in ch.T}) >= 2, note='all recorded states are identical: the comparisons below would be vacuous')
    idx = [i for _, i in log]
    c.holds('callback_invoked_exactly_once_per_transition_with_its_index_in_the_chain', idx == list(range(1, N + Nb)), note=f"{idx[:12]} (expected 1..{N + Nb - 1})")
    if idx == list(range(1, N + Nb)):
        full = np.column_stack([x0] + [x for x, _ in log])
        c.eq('recorded_chain_is_the_last_N_states_in_order_and_unaltered', ch, full[:, Nb:], tol=0)
    np.random.seed(seed); log.clear()
    s0 = LEG[name](cb=None)
    if name == 'NUTS': return                      # the legacy NUTS requires burn-in for its step-size adaptation
    out0 = (s0.sample_adapt if adapt else s0.sample)(N, 0)
    c.eq('without_burn_in_the_chain_begins_with_the_initial_point', out0.samples[:, 0], x0, tol=0)
    c.eq('initial_point_object_not_modified', np.asarray(s0.x0, dtype=float), x0, tol=0)


def jobs(tier):
    J = []
    q = tier == 'quick'
    SM = 'cuqi.experimental.mcmc._sampler'
    FL = [f'{SM}:Sampler.sample', f'{SM}:Sampler.warmup', f'{SM}:Sampler.get_state', f'{SM}:Sampler.set_state', f'{SM}:Sampler.save_checkpoint', f'{SM}:Sampler.load_checkpoint',
          f'{SM}:Sampler.reinitialize', f'{SM}:Sampler._call_callback', f'{SM}:Sampler.get_samples']
    for name in EXP:
        J.append(Job(f'experimental.{name}:split_continuity', lambda c, n=name: split_continuity(c, n), 'B', FL, nnum=2))
        J.append(Job(f'experimental.{name}:split_continuity_after_warmup', lambda c, n=name: split_continuity(c, n, 3, 2, 5), 'B', FL, nnum=2))
        if name in ('MH', 'CWMH', 'NUTS') or not q:
            for tf in (0.5, 1.0):
                J.append(Job(f'experimental.{name}:split_continuity_after_warmup:tune_freq={tf}', lambda c, n=name, tf=tf: split_continuity(c, n, 3, 2, 6, tf), 'B', FL, nnum=1))
        for via in ('state', 'file'):
            for k in ((0, 2) if q else (0, 1, 2, 4, 5)):
                J.append(Job(f'experimental.{name}:resume_via_{via}:checkpoint_at={k}', lambda c, n=name, v=via, k=k: resume(c, n, v, k), 'B', FL, nnum=2))
        J.append(Job(f'experimental.{name}:recording_and_callback', lambda c, n=name: recording(c, n), 'B', FL, nnum=2))
        J.append(Job(f'experimental.{name}:reinitialize', lambda c, n=name: reinit(c, n), 'B', FL, nnum=1))
    for strat in ('MH+Direct', 'MH+MH'):
        J.append(Job(f'experimental.HybridGibbs({strat}):split_continuity_native', lambda c, st=strat: hybrid_native_continuity(c, st), 'B',
                     ['cuqi.experimental.mcmc._gibbs:HybridGibbs.sample', 'cuqi.experimental.mcmc._gibbs:HybridGibbs.warmup', 'cuqi.experimental.mcmc._direct:Direct.validate_target'], nnum=2))
    for name in ('MH', 'LinearRTO'):
        for (N_, b_) in ((5, 2), (4, 2), (3, 5)):
            J.append(Job(f'experimental.{name}:batches_on_disk:N={N_}:batch_size={b_}', lambda c, n=name, N_=N_, b_=b_: batches_on_disk(c, n, N_, b_), 'B', FL + [f'{SM}:_BatchHandler.add_sample', f'{SM}:_BatchHandler.flush'], nnum=1))
    for name in ('MH', 'PCN', 'MALA', 'ULA') + (() if q else ('CWMH',)):       # CWMH: 2 components x 2-3 transitions = several hundred paths (thorough tier)
        mod = {'MH': '_mh:MH', 'PCN': '_pcn:PCN', 'MALA': '_langevin_algorithm:MALA', 'ULA': '_langevin_algorithm:ULA', 'CWMH': '_cwmh:CWMH'}[name]
        J.append(Job(f'experimental.{name}:symbolic:resume_in_fresh_sampler_after_tuning', lambda c, n=name: sym_resume(c, n), 'Pbox',
                     FL + [f'cuqi.experimental.mcmc.{mod}.step', f'cuqi.experimental.mcmc.{mod}.tune'], maxpaths=1024, timeout=900, num=False))
        J.append(Job(f'experimental.{name}:symbolic:recording_and_callback', lambda c, n=name: sym_recording(c, n, 1 if n == 'CWMH' else 2), 'Pbox', FL, maxpaths=2048, timeout=900, num=False))
    # base-class loops with an arbitrary kernel (every N, every earlier history) and the state-closure argument for resuming
    for which in ('sample', 'warmup'):
        J.append(Job(f'experimental.Sampler.{which}:loop0:generic_kernel:one_iteration_from_arbitrary_history', lambda c, w=which: base_loop(c, w), 'Pinf',
                     [f'{SM}:Sampler.{which}', f'{SM}:Sampler._call_callback', f'{SM}:Sampler._ensure_initialized'], extra=_loop_extra, num=False))
        J.append(Job(f'experimental.Sampler.{which}:prologue_on_first_use', lambda c, w=which: base_loop_first_use(c, w), 'Pbox',
                     [f'{SM}:Sampler.{which}', f'{SM}:Sampler.initialize'], extra=_loop_extra, num=False))
    J.append(Job('experimental.Sampler.get_state_set_state:arbitrary_declared_state', state_dictionary, 'Pinf',
                 [f'{SM}:Sampler.get_state', f'{SM}:Sampler.set_state', f'{SM}:Sampler.get_history', f'{SM}:Sampler.set_history'], num=False))
    for name in EXP:
        J.append(Job(f'experimental.{name}:state_closure_native', lambda c, n=name: native_closure(c, n), 'B', [f'{SM}:Sampler.get_state', f'{SM}:Sampler.set_state'], nnum=2))
    LS = 'cuqi.sampler._sampler'
    for name in LEG:
        for adapt in (False, True):
            J.append(Job(f'legacy.{name}:{"sample_adapt" if adapt else "sample"}:recording_and_callback', lambda c, n=name, a=adapt: legacy_recording(c, n, a), 'B',
                         [f'{LS}:Sampler.sample', f'{LS}:Sampler.sample_adapt', f'{LS}:Sampler._create_Sample_object'], nnum=2))
    for name in LEG:
        for adapt in (False, True):
            if q and name in ('LinearRTO', 'UGLA', 'ULA', 'MALA') and not adapt: continue
            J.append(Job(f'legacy.{name}:{"sample_adapt" if adapt else "sample"}:recording_and_callback:long_run', lambda c, n=name, a=adapt: legacy_recording(c, n, a, long=True), 'B',
                         [f'{LS}:Sampler.sample', f'{LS}:Sampler.sample_adapt', f'{LS}:Sampler._print_progress'], nnum=1))
    for name in ('MH', 'CWMH', 'pCN'):          # adaptive runs shorter than ten states (the adaptation interval is a tenth of the run)
        J.append(Job(f'legacy.{name}:sample_adapt:recording_and_callback:short_run', lambda c, n=name: legacy_recording(c, n, True, 6, 2, True), 'B',
                     [f'{LS}:Sampler.sample_adapt'], nnum=2))
    for adapt in (False, True):
        J.append(Job(f'legacy.Sampler.{"sample_adapt" if adapt else "sample"}:wrapper:arbitrary_kernel_loop:symbolic_N_Nb', lambda c, a=adapt: legacy_wrapper(c, a), 'Pinf',
                     [f'{LS}:Sampler.sample', f'{LS}:Sampler.sample_adapt', f'{LS}:Sampler._create_Sample_object'], num=False))
    # "for both Gibbs samplers": sample(N); sample(M) == sample(N+M), with and without warm-up, values as terms (contracts shared with C09)
    # "all ... burn-in and thinning values": removing burn-in / thinning keeps exactly the states Nb, Nb+Nt, ... (symbolic N, Nb, Nt; contracts shared with C19)
    from contracts import C19 as _c19
    J += [j for j in _c19.jobs(tier) if j.id in ('Samples.burnthin:symbolic_N_Nb_Nt', 'JointSamples.burnthin:symbolic_N_Nb_Nt', 'Samples.burnthin:values:vector')]
    from contracts import C09 as _c09
    J += [j for j in _c09.jobs(tier) if j.id in ('HybridGibbs:continuation_and_warmup', 'legacy.Gibbs:stored_columns_and_continuation')]
    for iface, name in (('exp', 'MH'), ('exp', 'LinearRTO'), ('leg', 'MH'), ('leg', 'pCN')):
        J.append(Job(f'{"experimental" if iface == "exp" else "legacy"}.{name}:callback_given_as_an_object_that_is_falsy_while_empty', lambda c, i=iface, nm=name: callback_object_kinds(c, i, nm), 'B',
                     [f'{SM}:Sampler._call_callback'] if iface == 'exp' else ['cuqi.sampler._sampler:Sampler._call_callback'], nnum=1))
    return J
