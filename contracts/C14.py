"""C14 — chains are continuous, resumable from a checkpoint, and recorded faithfully."""
import os, tempfile
import numpy as np
import z3
from pvc.runner import Job
from pvc import core, shims
import cuqi
import cuqi.experimental.mcmc as EX
import cuqi.sampler as LG
from cuqi.distribution import Gaussian, Posterior, LMRF, JointDistribution, Gamma
from cuqi.model import LinearModel

EXPLANATION = ("stateful interface: sample(N); sample(M) gives the same chain as sample(N+M) from the same random stream; a run saved after warm-up (state changed by tuning) at any "
               "checkpoint position and loaded into a FRESH sampler of the same configuration (set_state and save/load_checkpoint) continues with the transitions of the uninterrupted run; "
               "one entry (the state after the transition) appended per transition and the callback invoked exactly once with that state and its index; entries never altered later; "
               "reinitialize restores the constructed configuration. Stateless interface: recorded chain has the requested length, starts with the initial point, lists consecutive "
               "states, callback once per transition with the chain index, earlier entries not altered.")
ASSUMPTIONS = ["symbolic versions (MH, PCN, MALA with real Gaussian targets of symbolic mean, symbolic draws) are at dimension 2 and 2-3 transitions; the other samplers and longer chains are native (level B)",
               "pickle round trip is the identity on the state dictionary"]


# ------------------------------------------------------------------------------------------ targets and samplers (native)
def _gauss_target(n=3): return Gaussian(np.arange(n) * 0.3, 0.5 + 0.1 * np.arange(n), name='x')
def _posterior(n=3, m=4):
    rng = np.random.default_rng(5); A = rng.standard_normal((m, n))
    x = Gaussian(0.2 * np.ones(n), 1.0, name='x'); y = Gaussian(LinearModel(A), 0.3, name='y')
    return JointDistribution(x, y)(y=A @ np.ones(n) + 0.1)
def _lmrf_posterior(n=4):
    rng = np.random.default_rng(6); A = rng.standard_normal((n, n))
    x = LMRF(0, 0.5, geometry=n, name='x'); y = Gaussian(LinearModel(A), 0.3, name='y')
    return JointDistribution(x, y)(y=A @ np.ones(n))


EXP = {
    'MH': lambda cb=None: EX.MH(_gauss_target(), scale=0.7, callback=cb),
    'CWMH': lambda cb=None: EX.CWMH(_gauss_target(), scale=0.7, callback=cb),
    'PCN': lambda cb=None: EX.PCN(_posterior(), scale=0.3, callback=cb),
    'ULA': lambda cb=None: EX.ULA(_gauss_target(), scale=0.05, callback=cb),
    'MALA': lambda cb=None: EX.MALA(_gauss_target(), scale=0.3, callback=cb),
    'NUTS': lambda cb=None: EX.NUTS(_gauss_target(), max_depth=4, callback=cb),
    'NUTS(step_size)': lambda cb=None: EX.NUTS(_gauss_target(), max_depth=4, step_size=0.05, callback=cb),      # option given, then adapted by warm-up
    'LinearRTO': lambda cb=None: EX.LinearRTO(_posterior(), callback=cb),
    'UGLA': lambda cb=None: EX.UGLA(_lmrf_posterior(), callback=cb),
}


def _chain(s): return np.array(s._samples)


def split_continuity(c, name, N=4, M=3, warm=0, tune_freq=None):
    seed = int(c.real('seed', lo=0, hi=10 ** 6))
    def run(parts):
        np.random.seed(seed); s = EXP[name]()
        if warm: s.warmup(warm) if tune_freq is None else s.warmup(warm, tune_freq=tune_freq)
        for p in parts: s.sample(p)
        return _chain(s)
    a, b = run([N + M]), run([N, M])
    c.holds('same_length', a.shape == b.shape == (warm + N + M, a.shape[1]), note=f"{a.shape} {b.shape}")
    c.eq('sample_N_then_M_is_sample_N_plus_M', b, a, tol=1e-12)
    z = run([N, 0, M])
    c.eq('sample_zero_in_between_changes_nothing', z, a, tol=1e-12)


def resume(c, name, via, k=2, warm=6, N=5):
    """checkpoint after warm-up + k sampling transitions; resume in a freshly constructed sampler"""
    seed = int(c.real('seed', lo=0, hi=10 ** 6))
    np.random.seed(seed); s = EXP[name]()
    if warm: s.warmup(warm)
    s.sample(k)
    rs = np.random.get_state()
    if via == 'state': saved = s.get_state()
    else:
        d = tempfile.mkdtemp(dir=os.environ.get('TMPDIR')); path = os.path.join(d, 'ckpt.pickle'); s.save_checkpoint(path)
    s.sample(N - k)
    ref = _chain(s)[warm + k:]
    s2 = EXP[name](); s2.initialize()
    if via == 'state': s2.set_state(saved)
    else:
        s2.load_checkpoint(path); os.remove(path); os.rmdir(d)
    np.random.set_state(rs)
    s2.sample(N - k)
    got = _chain(s2)
    c.holds('resumed_run_makes_as_many_transitions_as_the_uninterrupted_run', len(got) == len(ref) == N - k, note=f"{len(got)} {len(ref)}")
    if N - k: c.eq('resumed_run_makes_the_transitions_of_the_uninterrupted_run', got, ref, tol=1e-12)


def batches_on_disk(c, name, N=5, batch=2):
    """sample(N, batch_size=b): the batch files, concatenated in order, are the recorded chain - all N states, also when b does not divide N"""
    import glob
    seed = int(c.real('seed', lo=0, hi=10 ** 6)); np.random.seed(seed)
    d = tempfile.mkdtemp(dir=os.environ.get('TMPDIR'))
    try:
        s = EXP[name](); s.sample(N, batch_size=batch, sample_path=d)
        files = sorted(glob.glob(os.path.join(d, 'batch_*.npz')))
        parts = [np.load(f)['samples'] for f in files]
        disk = np.concatenate(parts, axis=0) if parts else np.zeros((0,))
        c.holds('every_state_of_the_chain_reaches_the_disk', len(disk) == N, note=f"{len(disk)} of {N} states in {len(files)} files")
        if len(disk) == N: c.eq('batches_in_order_are_the_chain', disk, _chain(s), tol=0)
    finally:
        for f in glob.glob(os.path.join(d, '*')): os.remove(f)
        os.rmdir(d)


def recording(c, name, N=5, warm=3):
    seed = int(c.real('seed', lo=0, hi=10 ** 6)); np.random.seed(seed)
    log = []
    s = EXP[name](cb=lambda x, i: log.append((np.array(x, dtype=float).copy(), i)))
    s.warmup(warm); s.sample(N)
    ch = _chain(s)
    c.holds('recorded_chain_has_one_entry_per_transition', ch.shape[0] == warm + N, note=str(ch.shape))
    c.holds('callback_invoked_exactly_once_per_transition_with_the_chain_index', [i for _, i in log] == list(range(warm + N)), note=str([i for _, i in log]))
    c.eq('callback_received_the_state_after_the_transition_and_entries_were_not_altered_later', np.array([x for x, _ in log]), ch, tol=0)
    c.eq('last_entry_is_the_current_point', ch[-1], np.asarray(s.current_point, dtype=float), tol=0)
    S = s.get_samples()
    c.eq('get_samples_lists_the_chain_in_order', S.samples.T, ch, tol=0)


def reinit(c, name):
    seed = int(c.real('seed', lo=0, hi=10 ** 6)); np.random.seed(seed)
    s = EXP[name](); np.random.seed(seed + 1); s.initialize()
    import copy as _copy
    first = {k: _copy.deepcopy(getattr(s, k)) for k in s._STATE_KEYS | s._HISTORY_KEYS}
    s.warmup(6); s.sample(3)
    np.random.seed(seed + 1); s.reinitialize()
    for k, v in first.items():
        now = getattr(s, k)
        try: same = np.array_equal(np.asarray(now, dtype=float), np.asarray(v, dtype=float))
        except (TypeError, ValueError): same = (now == v)
        c.holds(f'{k}_restored_to_value_after_first_initialisation', bool(same), note=f"{now!r} vs {v!r}"[:120])


# ------------------------------------------------------------------------------------------ symbolic: real samplers, symbolic draws
def _sym_target(c, n=2):
    """arbitrary differentiable target: user-defined distribution with uninterpreted log-density and gradient"""
    from cuqi.distribution import UserDefinedDistribution
    return UserDefinedDistribution(dim=n, logpdf_func=lambda x: c.uf('logpi', *list(x)),
                                   gradient_func=lambda x: np.array([c.uf(f'gradpi{i}', *list(x)) for i in range(n)], dtype=object if c.sym else float))


def _mk_sym(c, name, cb=None):
    n = 2
    if name == 'MH': return EX.MH(_sym_target(c), scale=c.real('scale0', pos=True), initial_point=c.vec('x0', n), callback=cb)
    if name == 'MALA': return EX.MALA(_sym_target(c), scale=c.real('scale0', pos=True), initial_point=c.vec('x0', n), callback=cb)
    if name == 'ULA': return EX.ULA(_sym_target(c), scale=c.real('scale0', pos=True), initial_point=c.vec('x0', n), callback=cb)
    if name == 'CWMH': return EX.CWMH(_sym_target(c), scale=c.real('scale0', lo=0, hi=1), initial_point=c.vec('x0', n), callback=cb)
    if name == 'PCN':
        from cuqi.likelihood import UserDefinedLikelihood
        x = Gaussian(c.vec('pm', n), c.vec('pv', n, pos=True), name='x')
        L = UserDefinedLikelihood(dim=n, logpdf_func=lambda x: c.uf('loglike', *list(x)))
        return EX.PCN(Posterior(L, x), scale=c.real('scale0', lo=0, hi=1), initial_point=c.vec('x0', n), callback=cb)


def _queue(c, name, T, n=2):
    """name the random draws of T transitions (the same symbols for every run of the contract)"""
    for t in range(T):
        z = c.vec(f'xi{t}_', n)
        if name in ('MALA', 'ULA'): q = z
        elif name == 'CWMH': q = z.reshape(1, n)            # Normal proposal: an (N, dim) array, transposed
        else: q = z.reshape(n, 1)
        if c.sym: shims.PRESET['normal'].append(q)
        else: c._numq['normal'].append(q); c._patch_random()
        if name == 'CWMH':
            for j in range(n): c.next_uniform(f'u{t}_{j}')   # one uniform per component
        elif name != 'ULA': c.next_uniform(f'u{t}')


def _clear_queue(c):
    if c.sym: shims.PRESET['normal'].clear(); shims.PRESET['uniform'].clear()
    else: c._numq['normal'].clear(); c._numq['uniform'].clear()


def sym_resume(c, name, T=2):
    """uninterrupted: initialise, tune (scale changes), T transitions.  resumed: FRESH sampler, set_state(state after tuning), same draws"""
    s = _mk_sym(c, name); s.initialize()
    s._acc = [1, 0, 1, 1] if name != 'CWMH' else [np.array([1, 0]), np.array([0, 0]), np.array([1, 1]), np.array([1, 0])]
    s.tune(2, 0)                                   # warm-up moved the tuned state away from the constructed one
    saved = s.get_state()
    _queue(c, name, T)
    accs = [s.step() for _ in range(T)]
    after = s.get_state()['state']
    _clear_queue(c)
    s2 = _mk_sym(c, name); s2.initialize(); s2.set_state(saved)
    _queue(c, name, T)
    accs2 = [s2.step() for _ in range(T)]
    after2 = s2.get_state()['state']
    c.holds('same_acceptance_decisions', all(np.array_equal(np.asarray(a1, dtype=float), np.asarray(a2, dtype=float)) for a1, a2 in zip(accs, accs2)))
    for k in sorted(after):
        c.eq(f'state[{k}]_after_resumed_transitions_equals_uninterrupted', after2[k], after[k])


def sym_recording(c, name, T=2):
    log = []
    s = _mk_sym(c, name, cb=lambda x, i: log.append((x, i)))
    _queue(c, name, T)
    s.sample(T)
    c.holds('one_entry_per_transition', len(s._samples) == T and len(s._acc) == T + 1)
    c.holds('callback_once_per_transition_with_index', [i for _, i in log] == list(range(T)))
    for t in range(T):
        c.eq(f'callback[{t}]_received_the_recorded_state', log[t][0], s._samples[t])
    c.eq('last_entry_is_current_point', s._samples[-1], s.current_point)
    first = np.array(s._samples[0], dtype=object if c.sym else float).copy()
    _clear_queue(c); _queue(c, name, 1)
    s.sample(1)
    c.holds('continued_chain_has_T_plus_1_entries', len(s._samples) == T + 1)
    c.eq('earlier_entry_not_altered_by_later_transitions', s._samples[0], first)


# ------------------------------------------------------------------------------------------ legacy (stateless) interface
LEG = {
    'MH': lambda cb=None: LG.MH(_gauss_target(), scale=0.7, x0=0.5 * np.ones(3), callback=cb),
    'CWMH': lambda cb=None: LG.CWMH(_gauss_target(), scale=0.7, x0=0.5 * np.ones(3), callback=cb),
    'pCN': lambda cb=None: LG.pCN(_posterior(), scale=0.3, x0=0.5 * np.ones(3), callback=cb),
    'ULA': lambda cb=None: LG.ULA(_gauss_target(), scale=0.05, x0=0.5 * np.ones(3), callback=cb),
    'MALA': lambda cb=None: LG.MALA(_gauss_target(), scale=0.3, x0=0.5 * np.ones(3), callback=cb),
    'NUTS': lambda cb=None: LG.NUTS(_gauss_target(), x0=0.5 * np.ones(3), max_depth=4, callback=cb),
    'LinearRTO': lambda cb=None: LG.LinearRTO(_posterior(), x0=0.5 * np.ones(3), callback=cb),
    'UGLA': lambda cb=None: LG.UGLA(_lmrf_posterior(), x0=0.5 * np.ones(4), callback=cb),
}


def legacy_recording(c, name, adapt, N=6, Nb=2):
    if adapt: N = 20
    seed = int(c.real('seed', lo=0, hi=10 ** 6)); np.random.seed(seed)
    log = []
    s = LEG[name](cb=lambda x, i: log.append((np.array(x, dtype=float).copy(), i)))
    x0 = np.array(s.x0, dtype=float).copy()
    out = (s.sample_adapt if adapt else s.sample)(N, Nb)
    ch = out.samples
    c.holds('recorded_chain_has_exactly_the_requested_length', ch.shape[-1] == N, note=str(ch.shape))
    idx = [i for _, i in log]
    c.holds('callback_invoked_exactly_once_per_transition_with_its_index_in_the_chain', idx == list(range(1, N + Nb)), note=f"{idx[:12]} (expected 1..{N + Nb - 1})")
    if idx == list(range(1, N + Nb)):
        full = np.column_stack([x0] + [x for x, _ in log])
        c.eq('recorded_chain_is_the_last_N_states_in_order_and_unaltered', ch, full[:, Nb:], tol=0)
    np.random.seed(seed); log.clear()
    s0 = LEG[name](cb=None)
    if name == 'NUTS': return                      # the legacy NUTS requires burn-in for its step-size adaptation
    out0 = (s0.sample_adapt if adapt else s0.sample)(N, 0)
    c.eq('without_burn_in_the_chain_begins_with_the_initial_point', out0.samples[:, 0], x0, tol=0)
    c.eq('initial_point_object_not_modified', np.asarray(s0.x0, dtype=float), x0, tol=0)


def jobs(tier):
    J = []
    q = tier == 'quick'
    SM = 'cuqi.experimental.mcmc._sampler'
    FL = [f'{SM}:Sampler.sample', f'{SM}:Sampler.warmup', f'{SM}:Sampler.get_state', f'{SM}:Sampler.set_state', f'{SM}:Sampler.save_checkpoint', f'{SM}:Sampler.load_checkpoint',
          f'{SM}:Sampler.reinitialize', f'{SM}:Sampler._call_callback', f'{SM}:Sampler.get_samples']
    for name in EXP:
        J.append(Job(f'experimental.{name}:split_continuity', lambda c, n=name: split_continuity(c, n), 'B', FL, nnum=2))
        J.append(Job(f'experimental.{name}:split_continuity_after_warmup', lambda c, n=name: split_continuity(c, n, 3, 2, 5), 'B', FL, nnum=2))
        if name in ('MH', 'CWMH', 'NUTS') or not q:
            for tf in (0.5, 1.0):
                J.append(Job(f'experimental.{name}:split_continuity_after_warmup:tune_freq={tf}', lambda c, n=name, tf=tf: split_continuity(c, n, 3, 2, 6, tf), 'B', FL, nnum=1))
        for via in ('state', 'file'):
            for k in ((0, 2) if q else (0, 1, 2, 4, 5)):
                J.append(Job(f'experimental.{name}:resume_via_{via}:checkpoint_at={k}', lambda c, n=name, v=via, k=k: resume(c, n, v, k), 'B', FL, nnum=2))
        J.append(Job(f'experimental.{name}:recording_and_callback', lambda c, n=name: recording(c, n), 'B', FL, nnum=2))
        J.append(Job(f'experimental.{name}:reinitialize', lambda c, n=name: reinit(c, n), 'B', FL, nnum=1))
    for name in ('MH', 'LinearRTO'):
        for (N_, b_) in ((5, 2), (4, 2), (3, 5)):
            J.append(Job(f'experimental.{name}:batches_on_disk:N={N_}:batch_size={b_}', lambda c, n=name, N_=N_, b_=b_: batches_on_disk(c, n, N_, b_), 'B', FL + [f'{SM}:_BatchHandler.add_sample', f'{SM}:_BatchHandler.flush'], nnum=1))
    for name in ('MH', 'PCN', 'MALA', 'ULA') + (() if q else ('CWMH',)):       # CWMH: 2 components x 2-3 transitions = several hundred paths (thorough tier)
        mod = {'MH': '_mh:MH', 'PCN': '_pcn:PCN', 'MALA': '_langevin_algorithm:MALA', 'ULA': '_langevin_algorithm:ULA', 'CWMH': '_cwmh:CWMH'}[name]
        J.append(Job(f'experimental.{name}:symbolic:resume_in_fresh_sampler_after_tuning', lambda c, n=name: sym_resume(c, n), 'Pbox',
                     FL + [f'cuqi.experimental.mcmc.{mod}.step', f'cuqi.experimental.mcmc.{mod}.tune'], maxpaths=1024, timeout=900, num=False))
        J.append(Job(f'experimental.{name}:symbolic:recording_and_callback', lambda c, n=name: sym_recording(c, n, 1 if n == 'CWMH' else 2), 'Pbox', FL, maxpaths=2048, timeout=900, num=False))
    LS = 'cuqi.sampler._sampler'
    for name in LEG:
        for adapt in (False, True):
            J.append(Job(f'legacy.{name}:{"sample_adapt" if adapt else "sample"}:recording_and_callback', lambda c, n=name, a=adapt: legacy_recording(c, n, a), 'B',
                         [f'{LS}:Sampler.sample', f'{LS}:Sampler.sample_adapt', f'{LS}:Sampler._create_Sample_object'], nnum=2))
    # "for both Gibbs samplers": sample(N); sample(M) == sample(N+M), with and without warm-up, values as terms (contracts shared with C09)
    from contracts import C09 as _c09
    J += [j for j in _c09.jobs(tier) if j.id in ('HybridGibbs:continuation_and_warmup', 'legacy.Gibbs:stored_columns_and_continuation')]
    return J
