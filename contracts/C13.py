"""C13 — geometry maps are mutually inverse and act column-wise on batches."""
from fractions import Fraction
import numpy as np
import z3
from pvc.runner import Job
from pvc import core, shims
import cuqi
from cuqi.geometry import (Continuous1D, Continuous2D, Image2D, Discrete, MappedGeometry, StepExpansion, KLExpansion,
                           _DefaultGeometry1D, _DefaultGeometry2D)
from cuqi.samples import Samples
from cuqi.array import CUQIarray

G = 'cuqi.geometry._geometry'
EXPLANATION = ("fun2par(par2fun(p)) == p, idempotence of projections, map(batch)[...,k] == map(batch[...,k]), reported shapes == produced shapes, "
               "Samples / CUQIarray conversions == per-sample maps and lossless, for symbolic parameter vectors and batches; StepExpansion index sets "
               "partition the grid (closed enumeration over grids / step counts / spacings).")
ASSUMPTIONS = ["scipy.fftpack dst/idst are used through the contract of the unnormalised pair: linear along the last axis with dst(idst(x)) == 2N x (matrices of symbolic constants S, R with R S = I as path hypothesis, used by the normaliser as product rewrite rules); the KL decay coefficients are floats, so the KL identities are polynomial identities up to coefficient tolerance (kind approx)",
               "StepExpansion grid/step-boundary comparisons are floating point: enumerated exhaustively over the stated grid family (closed computation), not proved for all grids"]


def make(kind):
    if kind == 'Continuous1D': return Continuous1D(4)
    if kind == 'Continuous2D': return Continuous2D((2, 3))
    if kind == 'Continuous2D:numpy_integer_shape': return Continuous2D((np.int64(2), np.int64(3)))
    if kind.startswith('Continuous2D:'):                                # grids with a one-node axis
        a, b = kind.split(':')[1].split('x'); return Continuous2D((int(a), int(b)))
    if kind.startswith('Image2D:C:'):
        a, b = kind.split(':')[2].split('x'); return Image2D((int(a), int(b)), order='C')
    if kind == 'Continuous1D:1': return Continuous1D(1)
    if kind == 'Discrete:1': return Discrete(['a'])
    if kind == 'Image2D:C': return Image2D((2, 3), order='C')
    if kind == 'Image2D:F': return Image2D((2, 3), order='F')
    if kind == 'Image2D:visual_only': return Image2D((2, 3), visual_only=True)
    if kind == 'Image2D:numpy_integer_shape': return Image2D((np.int64(2), np.int64(3)))                 # e.g. a shape taken from another array's .shape arithmetic
    if kind == 'Discrete': return Discrete(['a', 'b', 'c'])
    if kind == 'Mapped': return MappedGeometry(Continuous1D(3), map=lambda v: 2 * v + 1, imap=lambda f: (f - 1) / 2)
    if kind == 'Mapped:KL':
        # inner geometry whose fun2par is linear but not affine-equivariant: the order  inner.fun2par(imap(f))  matters
        return MappedGeometry(KLExpansion(np.linspace(0, 1, 6), num_modes=3), map=lambda v: 2 * v + 1, imap=lambda f: (f - 1) / 2)
    if kind == 'Mapped:boundary_values':
        # a map that CHANGES THE SHAPE of the function values (appends a boundary value at both ends, also for batches of columns) with its inverse
        pad = lambda v: np.concatenate([0 * v[:1] + 1, v, 0 * v[:1] - 1], axis=0)
        return MappedGeometry(Continuous1D(3), map=pad, imap=lambda f: f[1:-1])
    if kind == 'Mapped:Image2D': return MappedGeometry(Image2D((2, 2)), map=lambda v: 3 * v, imap=lambda f: f / 3)
    if kind.startswith('Step'):
        _, proj, N, ns = kind.split(':')
        return StepExpansion(np.linspace(0, 1, int(N)), n_steps=int(ns), fun2par_projection=proj)
    if kind == 'Default1D': return _DefaultGeometry1D(4)
    if kind == 'Default2D': return _DefaultGeometry2D((2, 2))
    if kind.startswith('KL'):
        _, N, modes = kind.split(':')
        return KLExpansion(np.linspace(0, 1, int(N)), num_modes=int(modes))
    raise ValueError(kind)


def _col(a, k): return a[..., k]


class _Approx:
    """context view whose equalities are polynomial identities up to coefficient tolerance (float-derived coefficients)"""
    def __init__(self, c): self._c = c
    def __getattr__(self, n): return getattr(self._c, n)
    def eq(self, name, a, b, note='', tol=None, approx=True): return self._c.eq(name, a, b, note=note, tol=tol, approx=True)


def roundtrip(c, kind, k):
    """k = 0: single vector; k >= 1: batch of k columns"""
    g = make(kind)
    if 'KL' in kind and c.sym:
        _eq = c.eq; c = _Approx(c)          # decay coefficients are floats: identities up to coefficient tolerance
    n = g.par_dim
    if k == 0:
        p = c.vec('p', n)
        f = g.par2fun(p)
        c.holds('fun_shape_reported_is_produced', tuple(np.shape(f)) == tuple(g.fun_shape), note=f"{np.shape(f)} vs {g.fun_shape}")
        back = g.fun2par(f)
        c.holds('par_shape_reported_is_produced', tuple(np.shape(back)) == tuple(g.par_shape), note=f"{np.shape(back)} vs {g.par_shape}")
        c.eq('fun2par_inverts_par2fun', back, p)
        c.holds('dims_consistent', g.par_dim == int(np.prod(g.par_shape)) and g.fun_dim == int(np.prod(g.fun_shape)))
        try:
            v = g.fun2vec(f)
        except NotImplementedError:
            v = None
        if v is not None:
            c.holds('funvec_shape_reported_is_produced', tuple(np.shape(v)) == tuple(g.funvec_shape), note=f"{np.shape(v)} vs {g.funvec_shape}")
            c.eq('vec2fun_inverts_fun2vec', g.vec2fun(v), f)
    else:
        P = c.vec('p', n * k).reshape(n, k)
        F = g.par2fun(P)
        # a one-column batch may come back without the trailing axis (the 2D geometries document that they squeeze it)
        if k == 1 and tuple(np.shape(F)) == tuple(g.fun_shape): F = np.asarray(F)[..., None]
        c.holds('batch_fun_shape', tuple(np.shape(F)) == tuple(g.fun_shape) + (k,), note=f"{np.shape(F)} vs {tuple(g.fun_shape) + (k,)}")
        for j in range(k):
            c.eq(f'par2fun_acts_columnwise[{j}]', _col(F, j), g.par2fun(P[:, j]))
        B = g.fun2par(F)
        if k == 1 and tuple(np.shape(B)) == (n,): B = np.asarray(B)[:, None]
        c.holds('batch_par_shape', tuple(np.shape(B)) == (n, k), note=f"{np.shape(B)} vs {(n, k)}")
        if tuple(np.shape(B)) == (n, k):
            for j in range(k):
                c.eq(f'fun2par_acts_columnwise[{j}]', B[:, j], g.fun2par(_col(F, j)))
            c.eq('batch_roundtrip', B, P)


def projection_idempotent(c, kind, k=0):
    g = make(kind)
    shape = tuple(g.fun_shape) + ((k,) if k else ())
    f = c.vec('f', int(np.prod(shape))).reshape(shape)
    once = g.par2fun(g.fun2par(f))
    twice = g.par2fun(g.fun2par(once))
    c.eq('projection_is_idempotent', twice, once)
    if k:
        P = g.fun2par(f)
        for j in range(k):
            c.eq(f'fun2par_acts_columnwise[{j}]', P[:, j], g.fun2par(f[..., j]))


def step_assignment(c, N, ns):
    """every grid node receives exactly the parameter of the step interval that contains it (documented: equidistant steps,
    first interval closed, the others half-open on the left) -- exact rational interval test, symbolic parameters"""
    g = StepExpansion(np.linspace(0, 1, N), n_steps=ns)
    p = c.vec('p', ns); f = g.par2fun(p)
    for j in range(N):
        owners = [i for i in range(ns) if (Fraction(i * (N - 1), ns) < j or (i == 0 and j == 0)) and j <= Fraction((i + 1) * (N - 1), ns)]
        c.holds(f'node[{j}]_belongs_to_exactly_one_step', len(owners) == 1)
        c.eq(f'node[{j}]_receives_its_step_parameter', f[j], p[owners[0]])


def step_partition_enumeration(c, maxN, maxsteps):
    """closed enumeration: the index sets built by the constructor partition {0..N-1}, for a family of offsets / spacings"""
    bad = []; count = 0
    for N in range(2, maxN + 1):
        for ns in range(1, min(maxsteps, N) + 1):
            for (a, b) in ((0.0, 1.0), (0.1, 0.7), (-3.0, 5.0), (1e-3, 1.0 + 1e-3), (0.0, 0.3), (2.0, 2.0 + 7.0 / 3.0)):
                grid = np.linspace(a, b, N)
                try:
                    g = StepExpansion(grid, n_steps=ns)
                except ValueError:
                    continue
                count += 1
                allidx = np.concatenate([np.asarray(ix) for ix in g._indices]) if g._indices else np.array([])
                if sorted(allidx.tolist()) != list(range(N)): bad.append((N, ns, a, b))
    c.holds('grids_enumerated', count > 100, note=str(count))
    c.holds('index_sets_partition_the_grid', not bad, note=f"{len(bad)} failing (N, n_steps, a, b), first: {bad[:4]}")


def step_membership_enumeration(c, maxN, maxsteps):
    """closed enumeration on grids whose node coordinates are exactly representable (x0 + h*k with dyadic x0, h; far from the origin,
    tiny spacings, negative offsets): every node receives the parameter of the documented step interval (exact rational membership)"""
    bad = []; count = 0
    fams = ((0.0, 1.0), (250000.0, 1.0), (1.7e9, 60.0), (-4e5, 0.5), (1.0, 2.0 ** -20), (0.0, 2.0 ** -30), (-7.0, 0.25), (3.0e6, 2.0 ** -3))
    grids = [((x0, h), (lambda N, x0=x0, h=h: x0 + h * np.arange(N))) for (x0, h) in fams]
    # grids whose node coordinates are NOT exactly representable (linspace): the documented rule is about the equidistant nodes, i.e.
    # node j lies in step i iff i (N-1) < j n_steps <= (i+1) (N-1); rounding of the node coordinates must not move a node to another step
    grids += [(('linspace', a, b), (lambda N, a=a, b=b: np.linspace(a, b, N))) for (a, b) in ((0.0, 1.0), (0.0, 10.0), (0.1, 0.7), (-3.0, 5.0))]
    for (tag, mkgrid) in grids:
        x0, h = tag[0], tag[1]
        for N in range(2, maxN + 1):
            grid = mkgrid(N)
            for ns in range(1, min(maxsteps, N) + 1):
                try: g = StepExpansion(grid, n_steps=ns)
                except ValueError: continue
                count += 1
                f = np.asarray(g.par2fun(np.arange(1, ns + 1, dtype=float)))
                for j in range(N):
                    owners = [i for i in range(ns) if (Fraction(i * (N - 1), ns) < j or (i == 0 and j == 0)) and j <= Fraction((i + 1) * (N - 1), ns)]
                    if len(owners) != 1 or f[j] != owners[0] + 1:
                        bad.append((x0, h, N, ns, j, float(f[j]), owners)); break
    c.holds('grids_enumerated', count > 500, note=str(count))
    c.holds('every_node_receives_the_parameter_of_its_documented_step', not bad, note=f"{len(bad)} failing (x0, h, N, n_steps, node, got, owner), first: {bad[:3]}")


def grid_history(c, kind):
    """the maps depend only on the current configuration: after the grid is replaced (other size) the round trip still holds"""
    g = make(kind)
    if kind.startswith('KL') and c.sym: c = _Approx(c)
    n1 = g.par_dim
    p = c.vec('p', n1)
    c.eq('roundtrip_before', g.fun2par(g.par2fun(p)), p)
    _ = (g.par_shape, g.fun_shape, g.funvec_shape)               # the shapes have been asked for before the grid is replaced
    newN = len(g.grid) + 3
    if kind.startswith('Mapped'): g.geometry.grid = np.linspace(0, 1, newN)
    else: g.grid = np.linspace(0, 1, newN)
    n2 = g.par_dim
    q = c.vec('q', n2)
    f = g.par2fun(q)
    c.holds('fun_shape_follows_the_new_grid', tuple(np.shape(f)) == (newN,), note=str(np.shape(f)))
    c.holds('reported_shapes_follow_the_new_grid', tuple(g.fun_shape) == tuple(np.shape(f)) and tuple(g.funvec_shape) == tuple(np.shape(g.fun2vec(f))) and tuple(g.par_shape) == (n2,),
            note=f"reported fun {g.fun_shape}, funvec {g.funvec_shape}, par {g.par_shape}; produced fun {np.shape(f)}, funvec {np.shape(g.fun2vec(f))}")
    c.eq('roundtrip_after_grid_change', g.fun2par(f), q)
    if kind.startswith('Step'):
        # every node of the NEW grid receives exactly one parameter's contribution, as a freshly constructed geometry would give
        fresh = StepExpansion(np.linspace(0, 1, newN), n_steps=g.n_steps, fun2par_projection=kind.split(':')[1])
        c.eq('expansion_after_grid_change_is_that_of_a_fresh_geometry', f, fresh.par2fun(q))
        h = c.vec('h', newN)
        c.eq('projection_after_grid_change_is_that_of_a_fresh_geometry', g.fun2par(h), fresh.fun2par(h))
    P = c.vec('r', n2 * 2).reshape(n2, 2)
    c.eq('batch_roundtrip_after_grid_change', g.fun2par(g.par2fun(P)), P)


def samples_conversions(c, kind, N=3):
    g = make(kind); n = g.par_dim
    A = c.vec('a', n * N).reshape(n, N)
    s = Samples(A, g)
    f = s.funvals
    c.holds('funvals_flags', (not f.is_par) and f.geometry is g)
    for k in range(N):
        c.eq(f'funvals_sample[{k}]_is_par2fun_of_sample', f.samples[..., k] if isinstance(f.samples, np.ndarray) else f.samples[k], g.par2fun(A[:, k]))
    fs = tuple(g.fun_shape) if isinstance(g.fun_shape, tuple) else None
    if fs is not None and all(isinstance(i, (int, np.integer)) for i in fs):
        # array-valued function values are stored as ONE array with the sample axis last, so that statistics reduce over the samples
        c.holds('funvals_are_stored_as_one_array_with_the_sample_axis_last', isinstance(f.samples, np.ndarray) and tuple(f.samples.shape) == tuple(int(i) for i in fs) + (N,),
                note=f"{type(f.samples).__name__} {getattr(f.samples, 'shape', None)}")
        c.holds('funvals_vector_flag_matches_the_function_shape', f.is_vec == (len(fs) == 1), note=str(f.is_vec))
        if not c.sym:
            ref = np.mean(np.stack([np.asarray(g.par2fun(A[:, k]), dtype=float) for k in range(N)], axis=-1), axis=-1)
            c.eq('mean_of_funvals_is_the_per_coordinate_mean_over_the_samples', np.asarray(f.mean(), dtype=float), ref, tol=1e-12)
    back = f.parameters
    c.holds('parameters_flags', back.is_par and back.is_vec and back.geometry is g)
    c.holds('parameters_of_funvals_has_one_column_per_sample', np.shape(back.samples) == (n, N), note=str(np.shape(back.samples)))
    c.eq('parameters_of_funvals_is_lossless', back.samples, A)
    try:
        v = f.vector
    except NotImplementedError:
        v = None                       # this geometry offers no vectorised function representation
    if v is not None:
        c.holds('vector_flags', v.is_vec and not v.is_par)
        c.eq('parameters_of_vector_is_lossless', v.parameters.samples, A)
    c.eq('source_untouched', s.samples, A)


def cuqiarray_conversions(c, kind):
    g = make(kind); n = g.par_dim
    p = c.vec('p', n)
    a = CUQIarray(p, is_par=True, geometry=g)
    f = a.funvals
    c.holds('funvals_is_function_values_with_same_geometry', (not f.is_par) and f.geometry is g)
    c.eq('funvals_is_par2fun', np.asarray(f), g.par2fun(p))
    b = f.parameters
    c.holds('parameters_flag', b.is_par and b.geometry is g)
    c.eq('parameters_of_funvals_is_lossless', np.asarray(b), p)
    c.eq('parameters_of_parameters_is_identity', np.asarray(a.parameters), p)
    c.eq('funvals_of_funvals_is_identity', np.asarray(f.funvals), np.asarray(f))
    # the representation flag as numpy hands booleans back (np.bool_, e.g. from a comparison of arrays): the same conversions
    an = CUQIarray(p, is_par=np.True_, geometry=g)
    c.eq('numpy_bool_flag:funvals_is_par2fun', np.asarray(an.funvals), g.par2fun(p))
    fn = CUQIarray(np.asarray(g.par2fun(p)), is_par=np.False_, geometry=g)
    c.eq('numpy_bool_flag:parameters_is_fun2par', np.asarray(fn.parameters), p)
    c.eq('numpy_bool_flag:funvals_of_function_values_is_identity', np.asarray(fn.funvals), g.par2fun(p))


def memory_layouts(c, kind):
    """function values handed to the 2-D geometries in the memory layouts numpy / scipy produce (C order, Fortran order, a transposed view): fun2par / fun2vec
    depend on the VALUES f[i, j] only - the same parameter vector for every layout, and par2fun(fun2par(f)) == f (bounded stand-in: native; memory layout is
    a property of numpy arrays, outside the symbolic domain)"""
    g = make(kind); shp = tuple(int(v) for v in g.fun_shape)
    Fv = np.array([c.real(f'f{i}') for i in range(int(np.prod(shp)))]).reshape(shp)
    ref = np.asarray(g.fun2par(np.ascontiguousarray(Fv)))
    order = 'F' if kind.endswith(':F') else 'C'
    c.eq('c_ordered_input:fun2par_is_the_flattening_in_the_geometrys_order', ref, Fv.ravel(order=order), tol=0)
    for nm, lay in (('fortran_ordered', np.asfortranarray), ('transposed_view', lambda a: np.ascontiguousarray(a.T).T)):
        Fl = lay(Fv)
        c.holds(f'harness:{nm}_input_really_has_that_layout', (not Fl.flags['C_CONTIGUOUS']) or min(shp) == 1)
        c.eq(f'{nm}_input:fun2par_same_parameters', np.asarray(g.fun2par(Fl)), ref, tol=0)
        c.eq(f'{nm}_input:par2fun_inverts', np.asarray(g.par2fun(g.fun2par(Fl))), Fv, tol=0)
        try: v0 = np.asarray(g.fun2vec(np.ascontiguousarray(Fv)))
        except NotImplementedError: v0 = None                        # (this geometry offers no vectorised-function form)
        if v0 is not None: c.eq(f'{nm}_input:fun2vec_same_vector', np.asarray(g.fun2vec(Fl)), v0, tol=0)
        B = np.stack([Fl, 2 * Fl], axis=-1)
        c.eq(f'{nm}_input:batch_column_1', np.asarray(g.fun2par(B))[..., 1], 2 * ref, tol=0)


def maps_not_offered(c):
    """'every geometry that OFFERS a function-to-parameter map': where none is offered the call is refused - a mapped geometry without inverse map, a
    visual-only image (identity in both directions), the abstract base class - instead of returning something that is not the parameters"""
    g = MappedGeometry(Continuous1D(3), map=lambda v: 2 * v + 1)
    f = g.par2fun(c.vec('p', 3))
    c.expect_raise('mapped_geometry_without_inverse_map_refuses_fun2par', lambda: g.fun2par(f))
    from cuqi.samples import Samples
    S = Samples(c.vec('s', 6).reshape(3, 2), g)
    c.expect_raise('function_value_samples_of_it_cannot_be_converted_back', lambda: S.funvals.parameters)


def forward_only_expansions(c, kind):
    """the two expansion geometries that offer only the parameter-to-function map (KLExpansion_Full: all sine modes; CustomKL: eigenpairs of a given covariance
    function): par2fun is LINEAR with the documented basis (affine for CustomKL with a mean) and gives values of the reported shape, a batch is mapped column by
    column or refused, the inverse is refused (never a number), and a CUQIarray of parameters converts with the same map (native)"""
    from cuqi.geometry import KLExpansion_Full, CustomKL
    from cuqi.array import CUQIarray
    n = 8; grid = np.linspace(0, 1, n)
    if kind == 'KLExpansion_Full':
        g = KLExpansion_Full(grid, std=1.5, cor_len=0.3, nu=2.0)
        k = np.arange(n); tau = 1 / 0.3 ** 2; coef = tau ** 3.0 * (tau + k ** 2) ** (-3.0)
        # documented basis: inverse of DST-II of the damped coefficients, times std^2 / pi
        def ref(p):
            K = np.arange(n)
            out = np.array([sum(coef[i] * p[i] * np.sin(np.pi / n * (i + 1) * (Kk + 0.5)) for i in range(n - 1)) + ((-1) ** Kk) / 2 * coef[n - 1] * p[n - 1] for Kk in K])
            return 1.5 ** 2 / np.pi * out
    else:
        g = CustomKL(grid, mean=0.7, std=1.0, cov_func=lambda x, y: np.exp(-abs(x - y) / 0.5), trunc_term=3)
        B = np.asarray(g.eigvec) @ np.diag(np.sqrt(np.asarray(g.eigval)))
        ref = lambda p: 0.7 + B @ p
    m = g.par_dim
    p = np.asarray(c.vec('p', m), dtype=float); q = np.asarray(c.vec('q', m), dtype=float)
    f = np.asarray(g.par2fun(p), dtype=float)
    c.holds('function_values_have_the_reported_shape', f.shape == tuple(g.fun_shape), note=f'{f.shape} vs {g.fun_shape}')
    c.holds('par2fun_is_the_documented_expansion', bool(np.allclose(f, ref(p), rtol=1e-9, atol=1e-12)), note=f'{f} vs {ref(p)}')
    f0 = np.asarray(g.par2fun(np.zeros(m)), dtype=float)
    c.holds('par2fun_is_affine', bool(np.allclose(np.asarray(g.par2fun(2 * p - 3 * q), dtype=float) - f0, 2 * (f - f0) - 3 * (np.asarray(g.par2fun(q), dtype=float) - f0), rtol=1e-9, atol=1e-11)))
    try: FB = np.asarray(g.par2fun(np.stack([p, q, p + q], axis=-1)), dtype=float)
    except Exception: FB = None
    if FB is not None:
        c.holds('batch_is_mapped_column_by_column', FB.shape == f.shape + (3,) and bool(np.allclose(FB[..., 0], f) and np.allclose(FB[..., 1], g.par2fun(q)) and np.allclose(FB[..., 2], g.par2fun(p + q))), note=str(FB.shape))
    else: c.holds('batch_is_mapped_column_by_column', True, note='refused')
    for nm, call in (('fun2par', lambda: g.fun2par(f)), ('CUQIarray.parameters_of_function_values', lambda: CUQIarray(f, is_par=False, geometry=g).parameters)):
        try: r = call(); ok = False
        except NotImplementedError: ok = True; r = None
        c.holds(f'{nm}:inverse_is_refused_not_invented', ok, note=repr(r))
    c.holds('CUQIarray_funvals_is_par2fun', bool(np.allclose(np.asarray(CUQIarray(p, is_par=True, geometry=g).funvals, dtype=float), f)))


def jobs(tier):
    J = []
    q = tier == 'quick'
    F = lambda *n: [f"{G}:{x}" for x in n]
    kinds = ['Continuous1D', 'Continuous2D', 'Image2D:C', 'Image2D:F', 'Image2D:visual_only', 'Image2D:numpy_integer_shape', 'Continuous2D:numpy_integer_shape', 'Discrete', 'Mapped', 'Mapped:Image2D', 'Mapped:boundary_values',
             'Step:mean:5:2', 'Step:max:6:3', 'Step:min:4:4', 'Default1D', 'Default2D']
    fn = {'Continuous1D': F('Continuous.fun2par', 'Geometry.par2fun'), 'Continuous2D': F('Continuous2D.par2fun', 'Continuous2D.fun2par'),
          'Image2D': F('Image2D.par2fun', 'Image2D.fun2par', 'Image2D._vector_to_image'), 'Discrete': F('Discrete.fun2par'),
          'Mapped': F('MappedGeometry.par2fun', 'MappedGeometry.fun2par'), 'Step': F('StepExpansion.__init__', 'StepExpansion.par2fun', 'StepExpansion.fun2par'),
          'Default1D': F('Continuous.fun2par'), 'Default2D': F('Image2D.par2fun', 'Image2D.fun2par'), 'KL': F('KLExpansion.par2fun', 'KLExpansion.fun2par')}
    for kind in kinds:
        fl = fn[kind.split(':')[0]]
        for k in ((0, 2) if q else (0, 1, 2, 3)):
            J.append(Job(f'{kind}:roundtrip_and_columnwise:batch={k}', lambda c, kind=kind, k=k: roundtrip(c, kind, k), 'Pbox', fl, maxpaths=4096))
        J.append(Job(f'{kind}:Samples_conversions', lambda c, kind=kind: samples_conversions(c, kind), 'Pbox', fl + ['cuqi.samples._samples:Samples.funvals', 'cuqi.samples._samples:Samples.parameters', 'cuqi.samples._samples:Samples.vector'], maxpaths=4096))
        J.append(Job(f'{kind}:Samples_conversions:one_sample', lambda c, kind=kind: samples_conversions(c, kind, 1), 'Pbox', fl + ['cuqi.samples._samples:Samples.funvals', 'cuqi.samples._samples:Samples.parameters', 'cuqi.samples._samples:Samples.vector'], maxpaths=4096))
        J.append(Job(f'{kind}:CUQIarray_conversions', lambda c, kind=kind: cuqiarray_conversions(c, kind), 'Pbox', fl + ['cuqi.array._array:CUQIarray.funvals', 'cuqi.array._array:CUQIarray.parameters']))
    # singleton axes: one parameter (one step / one mode / one node), grids with a one-node axis - shapes reported must still be the shapes produced
    for kind in ('Step:mean:4:1', 'KL:5:1', 'Continuous2D:1x3', 'Continuous2D:3x1', 'Image2D:C:1x3', 'Continuous1D:1', 'Discrete:1'):
        fl = fn[kind.split(':')[0]]
        for k in (0, 2):
            J.append(Job(f'{kind}:singleton_axis:roundtrip_and_columnwise:batch={k}', lambda c, kind=kind, k=k: roundtrip(c, kind, k), 'Pbox', fl, rtol=1e-6, atol=1e-9, maxpaths=4096))
    for kind in ('Step:mean:5:2', 'Step:max:6:3', 'Step:min:4:4'):
        for k in (0, 2):
            J.append(Job(f'{kind}:projection_idempotent:batch={k}', lambda c, kind=kind, k=k: projection_idempotent(c, kind, k), 'Pbox', fn['Step'], maxpaths=4096))
    J.append(Job('Continuous1D:grid_history', lambda c: grid_history(c, 'Continuous1D'), 'Pbox', fn['Continuous1D']))
    J.append(Job('Mapped:grid_history', lambda c: grid_history(c, 'Mapped'), 'Pbox', fn['Mapped']))
    for kind in ('Step:mean:5:2', 'Step:max:6:3', 'Step:min:4:4'):
        J.append(Job(f'{kind}:grid_history', lambda c, kind=kind: grid_history(c, kind), 'Pbox', fn['Step'], maxpaths=4096))
    for kind in ('KL:6:3', 'KL:8:4'):
        J.append(Job(f'{kind}:grid_history', lambda c, kind=kind: grid_history(c, kind), 'Pbox', fn['KL'], rtol=1e-6, atol=1e-9, timeout=900))
    for N, ns in ((4, 2), (5, 2), (7, 3), (6, 6)) + (() if q else ((9, 4), (10, 3), (12, 5))):
        J.append(Job(f'StepExpansion:node_assignment:N={N}:steps={ns}', lambda c, N=N, ns=ns: step_assignment(c, N, ns), 'Pbox', fn['Step']))
    J.append(Job('StepExpansion:membership:closed_enumeration_on_representable_grids', lambda c: step_membership_enumeration(c, 16 if q else 30, 6 if q else 8), 'B', fn['Step'], nnum=1))
    J.append(Job('StepExpansion:partition:closed_enumeration', lambda c: step_partition_enumeration(c, 24 if q else 40, 8), 'B', fn['Step'], nnum=1))
    for kind in ('KL:6:3', 'KL:8:8', 'Mapped:KL') + (() if q else ('KL:16:5',)):
        for k in (0, 2):
            J.append(Job(f'{kind}:roundtrip_and_columnwise:batch={k}', lambda c, kind=kind, k=k: roundtrip(c, kind, k), 'Pbox', fn['KL'], rtol=1e-6, atol=1e-9, timeout=900))
    for kind in ('Continuous2D', 'Image2D:C', 'Image2D:F', 'Default2D'):
        J.append(Job(f'{kind}:function_values_in_other_memory_layouts', lambda c, k=kind: memory_layouts(c, k), 'B',
                     ['cuqi.geometry._geometry:Continuous2D.fun2par', 'cuqi.geometry._geometry:Image2D.fun2par', 'cuqi.geometry._geometry:Geometry.fun2vec'], nnum=3))
    for kind in ('KLExpansion_Full', 'CustomKL'):
        J.append(Job(f'{kind}:forward_only_expansion', lambda c, k=kind: forward_only_expansions(c, k), 'B', F(f'{kind}.par2fun', f'{kind}.fun2par') + ['cuqi.array._array:CUQIarray.funvals'], nnum=3))
    J.append(Job('Mapped:no_inverse_map:fun2par_refused', maps_not_offered, 'Pbox', fn['Mapped'] + ['cuqi.samples._samples:Samples.parameters']))
    return J
