"""C08 — the No-U-Turn sampler leaves its target invariant.

The invariance statement is reduced to refinement of the published algorithm (Hoffman & Gelman 2014, Algorithm 3 with slice
variable and Delta_max = 1000) plus the paper's theorem (cited).  All contracts are over abstract vectors (every dimension)
and an uninterpreted differentiable target; tree depth j is symbolic in the induction step."""
import types
import numpy as np
import z3
from pvc.runner import Job
from pvc import core, shims, loops
from pvc.core import SReal, SBool, T
from pvc.ghost import SInt, sint
from pvc.avec import AVec
from pvc.shims import ADIM
import cuqi
from cuqi.experimental.mcmc import NUTS as XNUTS
from cuqi.sampler import NUTS as LNUTS

EXPLANATION = ("leapfrog = half kick / drift / half kick, returns log-density and gradient OF the returned point, and is time reversible (term identity); tree building by induction on the "
               "depth j (base case executes the real leapfrog, step uses the depth j-1 contract for both inner calls): endpoints, leaf counts, admissibility, acceptance statistic, "
               "progressive uniform selection with threshold n''/(n'+n''), second half built only if the first is admissible, candidate's cached values belong to the candidate; "
               "transition loop body (cut mechanically): direction threshold 1/2, top-level acceptance min(1, n'/n) only for admissible finite candidates, counters, stop rule, "
               "reported statistic alpha/n_alpha, caches coherent; every epsilon > 0 and every depth.")
ASSUMPTIONS = ["Algorithm 3/6 of Hoffman & Gelman (2014) leaves the target invariant; compositions of shear maps preserve volume (cited, not proved)",
               "dual-averaging step-size adaptation only selects some epsilon > 0; the kernel contracts hold for every epsilon > 0",
               "integer-valued counters returned by the depth j-1 contract are modelled as non-negative reals"]


class Tgt:
    def __init__(self, c):
        self.f = c.vfun('logpi'); self.g = c.vvfun('gradlogpi'); self.c = c
    @property
    def dim(self): return ADIM if self.c.sym else self.c.numdim
    def logd(self, x): return self.f(x)
    def gradient(self, x): return self.g(x)


def _mk(c, cls):
    s = cls.__new__(cls); s._target = Tgt(c); s._num_tree_node = 0
    return s


def _K(r, s=None):
    """kinetic energy: the sampler's own `_Kfun` when a sampler is given (the slice variable, the start and every leaf must use the SAME function -
    a constant added consistently is harmless and accepted), 0.5 r.r otherwise; `kinetic_energy` pins `_Kfun` up to that constant"""
    return 0.5 * (r @ r) if s is None else s._Kfun(r, 'eval')


def leapfrog(c, cls):
    s = _mk(c, cls); F, G = s._target.f, s._target.g
    x, r = c.avec('x'), c.avec('r'); eps = c.real('eps', nz=True)
    g = G(x)
    x1, r1, l1, g1 = s._Leapfrog(x, r, g, eps)
    rh = r + 0.5 * eps * g
    c.eq('drift_uses_half_kicked_momentum', x1, x + eps * rh)
    c.eq('second_half_kick_uses_gradient_at_the_new_point', r1, rh + 0.5 * eps * G(x + eps * rh))
    c.eq('returned_logd_belongs_to_returned_point', l1, F(x1))
    c.eq('returned_gradient_belongs_to_returned_point', g1, G(x1))
    c.eq('input_momentum_not_mutated', r, c.avec('r'))
    # time reversibility: flip the momentum, integrate once more, flip again -> the starting state
    x2, r2, l2, g2 = s._Leapfrog(x1, -r1, g1, eps)
    c.eq('time_reversible_position', x2, x)
    c.eq('time_reversible_momentum', -r2, r)
    # same as integrating with -eps
    x3, r3, _, _ = s._Leapfrog(x1, r1, g1, -eps)
    c.eq('negative_step_undoes_the_step_position', x3, x)
    c.eq('negative_step_undoes_the_step_momentum', r3, r)


def leapfrog_nonfinite(c, cls, val):
    """the integrator at a point where the target's log-density is not finite (outside the support, overflow): still exactly half kick / drift / half kick
    with the given step - the value is reported as it is and judged by the tree (a leapfrog that reacts to it is no longer reversible or volume preserving)"""
    s = _mk(c, cls); G = s._target.g
    s._target.logd = lambda x: val
    x, r = c.avec('x'), c.avec('r'); eps = c.real('eps', nz=True)
    g = G(x)
    x1, r1, l1, g1 = s._Leapfrog(x, r, g, eps)
    rh = r + 0.5 * eps * g
    c.eq('drift_uses_half_kicked_momentum_and_the_full_step', x1, x + eps * rh)
    c.eq('second_half_kick_uses_gradient_at_the_new_point', r1, rh + 0.5 * eps * G(x + eps * rh))
    c.holds('non_finite_log_density_reported_as_it_is', (l1 != l1) if val != val else (l1 == val), note=str(l1))


def kinetic_energy(c, cls):
    """`_Kfun(r,'eval')` is 0.5 r.r up to a constant that does not depend on r (energy differences are what the slice and the acceptance statistic see),
    and 'sample' draws a fresh standard normal of the target's dimension"""
    s = _mk(c, cls)
    r, r2 = c.avec('r'), c.avec('r2')
    c.eq('kinetic_energy_differences_are_half_squared_norm_differences', s._Kfun(r, 'eval') - s._Kfun(r2, 'eval'), 0.5 * (r @ r) - 0.5 * (r2 @ r2))
    z = c.next_normal('z', None if c.sym else c.numdim)
    c.eq('momentum_draw_is_standard_normal', s._Kfun(None, 'sample'), z)


def tree_base(c, cls, v):
    s = _mk(c, cls); F, G = s._target.f, s._target.g
    x, r = c.avec('x'), c.avec('r'); eps = c.real('eps', pos=True)
    Ham = c.real('Ham'); log_u = c.real('log_u')
    out = s._BuildTree(x, r, G(x), Ham, log_u, v, 0, eps)
    (pm, rm, gm, pp, rp, gp, pc, lc, gc, n, st, al, na) = out
    rh = r + 0.5 * (v * eps) * G(x); x1 = x + (v * eps) * rh; r1 = rh + 0.5 * (v * eps) * G(x1)
    H1 = F(x1) - _K(r1, s)
    for nm, a, b in (('minus_endpoint', pm, x1), ('plus_endpoint', pp, x1), ('candidate', pc, x1), ('minus_momentum', rm, r1), ('plus_momentum', rp, r1)):
        c.eq(f'single_leaf_{nm}_is_the_leapfrog_state', a, b)
    c.eq('candidate_logd_belongs_to_candidate', lc, F(x1)); c.eq('candidate_gradient_belongs_to_candidate', gc, G(x1))
    c.holds('leaf_counted_iff_in_slice', c.Iff(n == 1, log_u <= H1)); c.holds('count_is_0_or_1', n in (0, 1))
    c.holds('leaf_admissible_iff_energy_error_below_delta_max', c.Iff(st == 1, log_u < 1000 + H1))
    c.holds('one_leaf_built', na == 1)
    d = H1 - Ham
    c.holds('acceptance_statistic_is_min_1_exp_energy_difference', c.Or(c.And(d > 0, c.close(al, 1.0)), c.And(c.Not(d > 0), c.close(al, np.exp(d)))))


class TreeStub:
    """contract of _BuildTree at depth j-1 (the induction hypothesis): fresh endpoint states, candidate and counters"""
    def __init__(self, c, v, F, G):
        self.c = c; self.v = v; self.calls = []; self.F = F; self.G = G
    def __call__(self, point, r, grad, Ham, log_u, v, j, eps, *a):
        k = len(self.calls); c = self.c
        inner = (c.avec(f'in{k}_x'), c.avec(f'in{k}_r'))              # the end of the sub-tree next to the start
        outer = (c.avec(f'out{k}_x'), c.avec(f'out{k}_r'))            # the far end
        cand = c.avec(f'cand{k}_x')
        n = c.real(f'n{k}', nonneg=True); s = c.real(f's{k}', lo=-0.5, hi=1.5); c.assume(c.Or(c.close(s, 0.0), c.close(s, 1.0)))
        al = c.real(f'al{k}', nonneg=True); na = c.real(f'na{k}', pos=True)
        if not c.sym: s = float(round(s))
        self.calls.append(dict(point=point, r=r, grad=grad, Ham=Ham, log_u=log_u, v=v, j=j, eps=eps, inner=inner, outer=outer, cand=cand, n=n, s=s, al=al, na=na))
        G, F = self.G, self.F
        first = (inner[0], inner[1], G(inner[0])); last = (outer[0], outer[1], G(outer[0]))
        minus, plus = (last, first) if self.v == -1 else (first, last)
        return (*minus, *plus, cand, F(cand), G(cand), n, s, al, na)


def tree_base_nonfinite(c, cls, v, val):
    """a leaf whose log-density is not a number (or -inf) is outside every slice and ends the trajectory: it is never counted as a
    candidate (n' = 0), it is inadmissible (s' = 0), and the value handed back for it is the target's own value (not a finite number)"""
    s = _mk(c, cls); G = s._target.g
    s._target.logd = lambda x: val                      # the target reports `val` at the leaf
    x, r = c.avec('x'), c.avec('r'); eps = c.real('eps', pos=True)
    Ham = c.real('Ham'); log_u = c.real('log_u')
    out = s._BuildTree(x, r, G(x), Ham, log_u, v, 0, eps)
    (pm, rm, gm, pp, rp, gp, pc, lc, gc, n, st, al, na) = out
    c.holds('nonfinite_leaf_is_not_counted', (n == 0) if not isinstance(n, core.SReal) else bool(n == 0), note=str(n))
    c.holds('nonfinite_leaf_is_inadmissible', (st == 0) if not isinstance(st, core.SReal) else bool(st == 0), note=str(st))
    lcv = lc if not isinstance(lc, core.SReal) else None
    c.holds('cached_value_of_the_leaf_is_the_targets_own_value', lcv is not None and ((np.isnan(lcv) and np.isnan(val)) or lcv == val), note=str(lc))


def tree_step(c, cls, v):
    s = _mk(c, cls); F, G = s._target.f, s._target.g
    stub = TreeStub(c, v, F, G); s._BuildTree = stub
    x, r = c.avec('x'), c.avec('r'); eps = c.real('eps', pos=True); Ham = c.real('Ham'); log_u = c.real('log_u')
    if c.sym:
        j = sint('j'); core.ST.base.append(j.t >= 1)
        md = sint('max_depth'); core.ST.base.append(md.t >= j.t)       # a tree of depth j is only built while j <= max_depth
    else: j = 3; md = 3 + int(c.real('md_extra', lo=0, hi=1.999))
    if isinstance(getattr(cls, 'max_depth', None), property): s._max_depth = md      # stateful interface: backing field of the property
    else: s.max_depth = md                                                           # legacy: plain attribute
    u = c.next_uniform('u_sel')
    out = cls._BuildTree(s, x, r, G(x), Ham, log_u, v, j, eps)
    (pm, rm, gm, pp, rp, gp, pc, lc, gc, n, st, al, na) = out
    c1 = stub.calls[0]
    c.eq('first_half_starts_at_the_given_state', c1['point'], x); c.eq('first_half_momentum', c1['r'], r)
    c.holds('first_half_built_at_depth_j_minus_1', bool(c1['j'] == j - 1) and c1['v'] == v)
    c.eq('first_half_same_slice_and_step', np.array([c1['log_u'], c1['Ham'], c1['eps']], dtype=object if c.sym else float), np.array([log_u, Ham, eps], dtype=object if c.sym else float))
    adm1 = (c1['s'] == 1) if not c.sym else bool(c1['s'] == 1)
    c.holds('second_half_built_iff_first_half_admissible', (len(stub.calls) == 2) == bool(adm1))
    inner_x = pp if v == -1 else pm; outer_x = pm if v == -1 else pp
    inner_r = rp if v == -1 else rm; outer_r = rm if v == -1 else rp
    if len(stub.calls) == 1:
        c.eq('inadmissible_first_half_returned_as_is_outer', outer_x, c1['outer'][0]); c.eq('inadmissible_first_half_returned_as_is_candidate', pc, c1['cand'])
        c.eq('inadmissible_count', n, c1['n']); c.holds('result_inadmissible', st == 0 if not c.sym else bool(st == 0))
        return
    c2 = stub.calls[1]
    c.eq('second_half_continues_from_the_outer_end_of_the_first', c2['point'], c1['outer'][0]); c.eq('second_half_continues_momentum', c2['r'], c1['outer'][1])
    c.eq('second_half_gradient_belongs_to_its_start', c2['grad'], G(c1['outer'][0]))
    c.holds('second_half_built_at_depth_j_minus_1', bool(c2['j'] == j - 1) and c2['v'] == v)
    c.eq('inner_endpoint_is_inner_end_of_first_half', inner_x, c1['inner'][0]); c.eq('outer_endpoint_is_outer_end_of_second_half', outer_x, c2['outer'][0])
    c.eq('inner_momentum', inner_r, c1['inner'][1]); c.eq('outer_momentum', outer_r, c2['outer'][1])
    c.eq('leaf_count_is_additive', n, c1['n'] + c2['n'])
    c.eq('acceptance_statistic_is_additive', al, c1['al'] + c2['al']); c.eq('leaves_built_is_additive', na, c1['na'] + c2['na'])
    # progressive uniform selection: candidate of the second half with probability n''/(n'+n'')  (never when n'' = 0)
    tot = c1['n'] + c2['n']
    took_second = pc.same(c2['cand']) if c.sym else bool(np.allclose(pc, c2['cand']))
    thr = c2['n'] / c.maximum1(tot)
    if c.sym:
        sel = SBool(took_second) if isinstance(took_second, z3.ExprRef) else took_second
        c.holds('candidate_is_one_of_the_two_sub_candidates', c.Or(SBool(pc.same(c1['cand'])), SBool(pc.same(c2['cand']))))
        c.holds('second_candidate_selected_iff_u_below_n2_over_total', c.Implies(c.Not(SBool(c1['cand'].same(c2['cand']))), c.Iff(SBool(pc.same(c2['cand'])), u <= thr)))
    else:
        c.holds('second_candidate_selected_iff_u_below_n2_over_total', took_second == bool(u <= thr))
    c.eq('candidate_logd_belongs_to_candidate', lc, F(pc)); c.eq('candidate_gradient_belongs_to_candidate', gc, G(pc))
    # admissibility: both halves admissible and no U-turn between the block's endpoints
    dp = pp - pm
    noturn = c.And((dp @ rm) >= 0, (dp @ rp) >= 0)
    c.holds('admissible_iff_second_half_admissible_and_no_u_turn_between_endpoints', c.Iff(st == 1, c.And(c2['s'] == 1, noturn)))


def step_body(c, nonfinite=None):
    """experimental NUTS.step: the doubling loop body, cut mechanically, from an arbitrary loop-head state"""
    s = _mk(c, XNUTS); F, G = s._target.f, s._target.g
    pre, cond, body, post, names, info = loops.split_loop(XNUTS.step, 0)
    xk = c.avec('xk'); s.current_point = xk; s.current_target_logd = F(xk); s.current_target_grad = G(xk)
    eps = c.real('eps', pos=True); s._epsilon = eps; s._epsilon_bar = eps; s._max_depth = 10
    pm, pp, rm_, rp_ = c.avec('pm'), c.avec('pp'), c.avec('rm'), c.avec('rp')
    Ham = c.real('Ham'); log_u = c.real('log_u'); nn = c.real('n', pos=True); c.assume(nn >= 1)
    u_dir = c.next_uniform('u_dir'); u_acc = c.next_uniform('u_acc')
    rec = {}
    def tree(point, r, grad, Ham_, log_u_, v, j, eps_):
        rec.update(point=point, r=r, grad=grad, Ham=Ham_, log_u=log_u_, v=v, j=j, eps=eps_)
        new_x, new_r = c.avec('new_x'), c.avec('new_r'); cand = c.avec('cand')
        n1 = c.real('n1', nonneg=True); s1 = c.real('s1', lo=-0.5, hi=1.5); c.assume(c.Or(c.close(s1, 0.0), c.close(s1, 1.0)))
        if not c.sym: s1 = float(round(s1))
        al = c.real('al', nonneg=True); na = c.real('na', pos=True)
        rec.update(new_x=new_x, new_r=new_r, cand=cand, n1=n1, s1=s1, al=al, na=na)
        lc = F(cand) if nonfinite is None else nonfinite
        st_ = (new_x, new_r, G(new_x))
        junk = (c.avec('junk_x'), c.avec('junk_r'), c.avec('junk_g'))
        return (*st_, *junk, cand, lc, G(cand), n1, s1, al, na) if v == -1 else (*junk, *st_, cand, lc, G(cand), n1, s1, al, na)
    s._BuildTree = tree
    state = dict(self=s, point_k=xk, logd_k=F(xk), grad_k=G(xk), r_k=c.avec('r0'), Ham=Ham, log_u=log_u, j=2, s=1, n=nn,
                 point_minus=pm, point_plus=pp, grad_minus=G(pm), grad_plus=G(pp), r_minus=rm_, r_plus=rp_, acc=0)
    tag, st = body(state)
    c.holds('body_reaches_next_iteration_or_loop_head', tag == '__next')
    v = rec['v']
    c.holds('direction_forward_iff_uniform_below_one_half', c.Iff(v == 1, u_dir < 0.5)); c.holds('direction_is_plus_or_minus_one', v in (-1, 1))
    c.eq('tree_grown_from_the_end_in_the_chosen_direction', rec['point'], pm if v == -1 else pp)
    c.eq('tree_grown_with_that_ends_momentum', rec['r'], rm_ if v == -1 else rp_)
    c.holds('tree_built_at_current_depth_with_current_step_size', rec['j'] == 2 and bool(c.close(rec['eps'], eps)))
    accept_rule = c.And(rec['s1'] == 1, u_acc <= c.minimum(1.0, rec['n1'] / nn)) if nonfinite is None else False
    moved = not (s.current_point is xk)
    c.holds('top_level_acceptance_is_min_1_nprime_over_n_for_admissible_finite_candidates', c.Iff(moved, accept_rule))
    if moved:
        c.eq('accepted_state_is_the_candidate', s.current_point, rec['cand'])
        c.eq('accepted_cached_logd_belongs_to_the_state', s.current_target_logd, F(rec['cand']))
        c.eq('accepted_cached_gradient_belongs_to_the_state', s.current_target_grad, G(rec['cand']))
    else:
        c.eq('cached_logd_unchanged', s.current_target_logd, F(xk)); c.eq('cached_gradient_unchanged', s.current_target_grad, G(xk))
    c.eq('slice_count_accumulates', st['n'], nn + rec['n1'])
    c.holds('depth_incremented', st['j'] == 3)
    npm = rec['new_x'] if v == -1 else pm; npp = pp if v == -1 else rec['new_x']
    nrm = rec['new_r'] if v == -1 else rm_; nrp = rp_ if v == -1 else rec['new_r']
    c.eq('minus_end_updated_only_when_grown_backwards', st['point_minus'], npm); c.eq('plus_end_updated_only_when_grown_forwards', st['point_plus'], npp)
    dp = npp - npm
    cont = c.And(rec['s1'] == 1, (dp @ nrm) >= 0, (dp @ nrp) >= 0)
    sval = st['s']
    c.holds('trajectory_continues_iff_new_half_admissible_and_no_u_turn_across_whole_tree', c.Iff(sval == 1, cont))
    c.eq('reported_statistic_is_mean_metropolis_probability_of_last_doubling', s._current_alpha_ratio, rec['al'] / rec['na'])
    # loop guard: stops at max depth
    st2 = dict(st); st2['j'] = 11; st2['s'] = 1
    c.holds('stops_beyond_max_depth', not bool(cond(st2)))


class _Store:
    """stands for the sample / log-density arrays of the legacy interface: item writes are recorded"""
    def __init__(self): self.writes = []
    def __setitem__(self, k, v): self.writes.append((k, v))
    def __getitem__(self, k): raise core.Concretised("read of the stored chain inside the doubling loop")


def legacy_step_body(c):
    """legacy NUTS._sample: the doubling loop (nested in the chain loop), cut mechanically"""
    import ast, inspect, textwrap
    s = _mk(c, LNUTS); F, G = s._target.f, s._target.g
    fn = ast.parse(textwrap.dedent(inspect.getsource(LNUTS._sample))).body[0]
    fidx = [i for i, st in enumerate(fn.body) if isinstance(st, ast.For)][0]
    pre, cond, body, post, names, info = loops.split_loop(LNUTS._sample, 0, container=[fidx])
    s.max_depth = 10
    xk = c.avec('xk'); eps = c.real('eps', pos=True)
    pm, pp, rm_, rp_ = c.avec('pm'), c.avec('pp'), c.avec('rm'), c.avec('rp')
    Ham = c.real('Ham'); log_u = c.real('log_u'); nn = c.real('n', pos=True); c.assume(nn >= 1)
    u_dir = c.next_uniform('u_dir'); u_acc = c.next_uniform('u_acc')
    rec = {}
    def tree(point, r, grad, Ham_, log_u_, v, j, eps_):
        rec.update(point=point, r=r, v=v, j=j, eps=eps_)
        new_x, new_r = c.avec('new_x'), c.avec('new_r'); cand = c.avec('cand')
        n1 = c.real('n1', nonneg=True); s1 = c.real('s1', lo=-0.5, hi=1.5); c.assume(c.Or(c.close(s1, 0.0), c.close(s1, 1.0)))
        if not c.sym: s1 = float(round(s1))
        al = c.real('al', nonneg=True); na = c.real('na', pos=True)
        rec.update(new_x=new_x, new_r=new_r, cand=cand, n1=n1, s1=s1)
        st_ = (new_x, new_r, G(new_x)); junk = (c.avec('junk_x'), c.avec('junk_r'), c.avec('junk_g'))
        return (*st_, *junk, cand, F(cand), G(cand), n1, s1, al, na) if v == -1 else (*junk, *st_, cand, F(cand), G(cand), n1, s1, al, na)
    s._BuildTree = tree
    theta, joint = _Store(), _Store()
    state = dict(self=s, theta=theta, joint_eval=joint, grad=G(xk), k=5, Ham=Ham, log_u=log_u, j=2, s=1, n=nn, epsilon=eps,
                 theta_minus=pm, theta_plus=pp, grad_minus=G(pm), grad_plus=G(pp), r_minus=rm_, r_plus=rp_)
    tag, st = body(state)
    c.holds('body_reaches_next_iteration_or_loop_head', tag == '__next')
    v = rec['v']
    c.holds('direction_forward_iff_uniform_below_one_half', c.Iff(v == 1, u_dir < 0.5))
    c.eq('tree_grown_from_the_end_in_the_chosen_direction', rec['point'], pm if v == -1 else pp)
    moved = len(theta.writes) > 0
    c.holds('top_level_acceptance_is_min_1_nprime_over_n_for_admissible_candidates', c.Iff(moved, c.And(rec['s1'] == 1, u_acc <= c.minimum(1.0, rec['n1'] / nn))))
    if moved:
        c.holds('accepted_state_written_to_the_current_chain_position', len(theta.writes) == 1 and theta.writes[0][0] == (slice(None, None, None), 5) and joint.writes[0][0] == 5)
        c.eq('accepted_state_is_the_candidate', theta.writes[0][1], rec['cand'])
        c.eq('accepted_logd_belongs_to_the_state', joint.writes[0][1], F(rec['cand'])); c.eq('accepted_gradient_belongs_to_the_state', st['grad'], G(rec['cand']))
    c.eq('slice_count_accumulates', st['n'], nn + rec['n1']); c.holds('depth_incremented', st['j'] == 3)
    npm = rec['new_x'] if v == -1 else pm; npp = pp if v == -1 else rec['new_x']
    nrm = rec['new_r'] if v == -1 else rm_; nrp = rp_ if v == -1 else rec['new_r']
    dp = npp - npm
    c.holds('trajectory_continues_iff_new_half_admissible_and_no_u_turn_across_whole_tree', c.Iff(st['s'] == 1, c.And(rec['s1'] == 1, (dp @ nrm) >= 0, (dp @ nrp) >= 0)))


def step_prologue(c):
    """statements before the loop: momentum refreshed, Hamiltonian and slice variable formed from the cached values"""
    s = _mk(c, XNUTS); F, G = s._target.f, s._target.g
    pre, cond, body, post, names, info = loops.split_loop(XNUTS.step, 0)
    xk = c.avec('xk'); s.current_point = xk; s.current_target_logd = F(xk); s.current_target_grad = G(xk)
    r0 = c.next_normal('r0', None if c.sym else c.numdim)
    tag, st = pre(dict(self=s))
    c.eq('momentum_is_a_fresh_standard_normal_draw', st['r_k'], r0)
    c.eq('hamiltonian_from_cached_logd_and_kinetic_energy', st['Ham'], F(xk) - _K(r0, s))
    c.eq('tree_starts_at_current_point_both_ends', st['point_minus'], xk); c.eq('tree_starts_at_current_point_plus', st['point_plus'], xk)
    c.eq('initial_gradient_is_the_cached_one', st['grad_minus'], G(xk))
    lu = np.asarray(st['log_u']).reshape(-1)[0]
    c.holds('slice_variable_below_hamiltonian', lu < st['Ham'] if not c.sym else bool(SBool(T(lu) < T(st['Ham']))))
    c.holds('counters_initialised', st['j'] == 0 and st['s'] == 1 and st['n'] == 1)


def cache_coherence(c, op):
    """'the cached log-density and gradient ALWAYS belong to the current point': representation invariant of the experimental NUTS re-established by every
    public operation on an initialised sampler that has moved away from its initial point (bounded stand-in: native run)"""
    import io, contextlib
    from cuqi.distribution import Gaussian
    from cuqi.experimental.mcmc import NUTS
    seed = int(c.real('seed', lo=0, hi=10 ** 6)); np.random.seed(seed)
    tgt = Gaussian(np.array([0.3, -0.2]), np.array([0.5, 1.2]), name='x')
    s = NUTS(tgt, initial_point=np.array([c.real('x0'), c.real('x1')]), max_depth=3)
    def coherent(tag):
        x = np.asarray(s.current_point, dtype=float)
        c.eq(f'{tag}:cached_log_density_belongs_to_the_current_point', s.current_target_logd, s.target.logd(x), tol=1e-10)
        c.eq(f'{tag}:cached_gradient_belongs_to_the_current_point', s.current_target_grad, s.target.gradient(x), tol=1e-10)
    with contextlib.redirect_stderr(io.StringIO()):
        s.warmup(3); s.sample(2)
        coherent('after_warmup_and_sampling')
        x_before = np.asarray(s.current_point, dtype=float).copy()
        if op == 'validate_target': s.validate_target()
        elif op == 'reassign_same_target': s.target = s.target
        elif op == 'state_roundtrip': s.set_state(s.get_state())
        elif op == 'sample_zero': s.sample(0)
        elif op == 'assign_new_target': s.target = Gaussian(np.array([-1.0, 0.7]), np.array([2.0, 0.3]), name='x')
        c.eq(f'after_{op}:current_point_unchanged', np.asarray(s.current_point, dtype=float), x_before, tol=0)
        coherent(f'after_{op}')
        s.sample(1)
        coherent(f'after_{op}_and_one_more_transition')


def jobs(tier):
    J = []
    X = 'cuqi.experimental.mcmc._hmc:NUTS'; L = 'cuqi.sampler._hmc:NUTS'
    for tag, cls, q in (('experimental', XNUTS, X), ('legacy', LNUTS, L)):
        J.append(Job(f'{tag}.NUTS._Leapfrog:structure_and_reversibility', lambda c, cls=cls: leapfrog(c, cls), 'Pinf', [f'{q}._Leapfrog', f'{q}._nuts_target']))
        for val in (float('-inf'), float('nan'), float('inf')):
            J.append(Job(f'{tag}.NUTS._Leapfrog:non_finite_log_density={val}', lambda c, cls=cls, val=val: leapfrog_nonfinite(c, cls, val), 'Pinf', [f'{q}._Leapfrog', f'{q}._nuts_target']))
        J.append(Job(f'{tag}.NUTS._Kfun:kinetic_energy', lambda c, cls=cls: kinetic_energy(c, cls), 'Pinf', [f'{q}._Kfun']))
        for v in (-1, 1):
            J.append(Job(f'{tag}.NUTS._BuildTree:base_case:v={v}', lambda c, cls=cls, v=v: tree_base(c, cls, v), 'Pinf', [f'{q}._BuildTree', f'{q}._Leapfrog', f'{q}._Kfun'], maxpaths=256))
            for val in (float('nan'), float('-inf')):
                J.append(Job(f'{tag}.NUTS._BuildTree:base_case:v={v}:leaf_logd={val}', lambda c, cls=cls, v=v, val=val: tree_base_nonfinite(c, cls, v, val), 'Pinf', [f'{q}._BuildTree', f'{q}._Leapfrog'], maxpaths=256))
            J.append(Job(f'{tag}.NUTS._BuildTree:induction_step:v={v}', lambda c, cls=cls, v=v: tree_step(c, cls, v), 'Pinf', [f'{q}._BuildTree'], maxpaths=4096, timeout=900))
    for nf in (None, float('nan'), float('-inf'), float('inf')):
        J.append(Job(f'experimental.NUTS.step:loop_body:{"finite" if nf is None else nf}', lambda c, nf=nf: step_body(c, nf), 'Pinf', [f'{X}.step'], maxpaths=4096, timeout=900))
    J.append(Job('legacy.NUTS._sample:doubling_loop_body', legacy_step_body, 'Pinf', [f'{L}._sample'], maxpaths=4096, timeout=900))
    J.append(Job('experimental.NUTS.step:prologue', step_prologue, 'Pinf', [f'{X}.step', f'{X}._Kfun']))
    for op in ('validate_target', 'reassign_same_target', 'state_roundtrip', 'sample_zero', 'assign_new_target'):
        J.append(Job(f'experimental.NUTS:cache_coherence_under_public_operations:{op}', lambda c, op=op: cache_coherence(c, op), 'B',
                     [f'{X}.validate_target', f'{X}._initialize', 'cuqi.experimental.mcmc._sampler:Sampler.target'], nnum=2))
    from contracts import C02 as _c02
    for iface, tag in (('exp', 'experimental'), ('leg', 'legacy')):
        J.append(Job(f'{tag}.NUTS:log_density_offset_invariance', lambda c, i=iface: _c02.offset_invariance(c, i, 'NUTS'), 'B', [f'{X}.step' if iface == 'exp' else f'{L}._sample'], nnum=2))
    return J
