"""C20 — difference operators and the priors built on them have the documented structure."""
from fractions import Fraction
import numpy as np
import z3
from pvc.runner import Job
from pvc import core, shims
import cuqi
from cuqi.operator import FirstOrderFiniteDifference, SecondOrderFiniteDifference, PrecisionFiniteDifference
from cuqi.distribution import GMRF, LMRF, CMRF

O = 'cuqi.operator._operator'
EXPLANATION = ("D @ x == stencil(x) for symbolic x at every N in the stated range, every boundary condition and order, 1-D (with grid spacing) and 2-D; "
               "P == D^T D entry-wise, x^T P x == |D x|^2, exact rational rank/null space; GMRF rank/logdet/sqrtprec against its precision; "
               "G/L/CMRF log-densities and gradients through these operators with non-zero location.")
ASSUMPTIONS = ["the stencil specifications (ghost-node extension per boundary condition) are the reading of the class docstrings used as oracle",
               "logdet of the GMRF is compared with the pseudo-determinant of its precision numerically (closed floating-point computation, tolerance 1e-6)"]


# ------------------------------------------------------------------------------------------ stencil specs
def extend(x, bc, w):
    """ghost-node extension of the vector by w nodes on each side, per boundary condition"""
    n = len(x)
    if bc == 'zero': return [0.0] * w + list(x) + [0.0] * w
    if bc == 'periodic': return [x[(i - w) % n] for i in range(w)] + list(x) + [x[i % n] for i in range(w)]
    if bc == 'neumann': return list(x)
    raise ValueError(bc)


def stencil1d(x, bc, order, dx=1):
    """documented 1-D difference operator applied to x (list of values)"""
    if order == 0 or bc == 'none': return list(x)
    if order == 1:
        if bc == 'backward':
            return [x[0] / dx] + [(x[i - 1] - x[i]) / dx for i in range(1, len(x))]
        e = extend(x, bc, 1)
        return [(e[k + 1] - e[k]) / dx for k in range(len(e) - 1)]
    if order == 2:
        e = extend(x, bc, 2)
        return [(-e[k] + 2 * e[k + 1] - e[k + 2]) / dx ** 2 for k in range(len(e) - 2)]


def stencil2d(x, N, bc, order):
    """documented Kronecker stacking: 1-D operator along the fast index of every block, then along the slow index"""
    out = []
    rows = None
    for i in range(N):
        r = stencil1d([x[i * N + j] for j in range(N)], bc, order); rows = len(r); out += r
    cols = [stencil1d([x[i * N + j] for i in range(N)], bc, order) for j in range(N)]
    for r in range(rows):
        for j in range(N): out.append(cols[j][r])
    return out


def _op(order, N, bc, dx=None, two_d=False):
    nn = (N, N) if two_d else N
    if order == 0: return FirstOrderFiniteDifference(nn, 'none')
    if order == 1: return FirstOrderFiniteDifference(nn, bc_type=bc, dx=dx)
    return SecondOrderFiniteDifference(nn, bc_type=bc, dx=dx)


def exact(M):
    M = M.toarray() if hasattr(M, 'toarray') else np.asarray(M)
    return [[Fraction(float(v)) for v in row] for row in M]


def rank_exact(M):
    M = [row[:] for row in M]; r = 0; rows = len(M); cols = len(M[0]) if rows else 0
    for cidx in range(cols):
        piv = next((i for i in range(r, rows) if M[i][cidx] != 0), None)
        if piv is None: continue
        M[r], M[piv] = M[piv], M[r]
        for i in range(rows):
            if i != r and M[i][cidx] != 0:
                f = M[i][cidx] / M[r][cidx]
                M[i] = [a - f * b for a, b in zip(M[i], M[r])]
        r += 1
    return r


# ------------------------------------------------------------------------------------------ contracts
def stencil(c, order, N, bc, dx=None, two_d=False):
    op = _op(order, N, bc, dx, two_d)
    n = N * N if two_d else N
    x = c.vec('x', n)
    if c.sym: shims.symbolize_operators(op)
    y = op @ x
    spec = stencil2d(list(x), N, bc, order) if two_d else stencil1d(list(x), bc, order, dx or 1)
    c.holds('number_of_rows', len(y) == len(spec), note=f"{len(y)} vs {len(spec)}")
    c.eq('operator_is_documented_stencil', y, np.array(spec, dtype=object if c.sym else float))


def null_dim(order, bc):
    if order == 0 or bc == 'zero' or bc == 'backward' or bc == 'none': return 0
    if order == 1: return 1                       # constants
    return 1 if bc == 'periodic' else 2           # order 2: periodic -> constants; neumann -> constants and linear functions


def precision(c, order, N, bc, two_d=False):
    P = PrecisionFiniteDifference((N, N) if two_d else N, bc_type=bc, order=order)
    D = P._diff_op
    n = N * N if two_d else N
    Pm, Dm = exact(P.get_matrix()), exact(D.get_matrix())
    DtD = [[sum(Dm[k][i] * Dm[k][j] for k in range(len(Dm))) for j in range(n)] for i in range(n)]
    c.holds('precision_is_DtD_entrywise', Pm == DtD)
    c.holds('precision_symmetric', all(Pm[i][j] == Pm[j][i] for i in range(n) for j in range(n)))
    x = c.vec('x', n)
    if c.sym: shims.symbolize_operators(P)
    Dx = D @ x
    c.eq('quadratic_form_is_norm_of_Dx_squared_hence_psd', x @ (P @ x), np.sum(np.asarray(Dx) ** 2))
    nd = null_dim(order, bc) if not two_d else (0 if null_dim(order, bc) == 0 else null_dim(order, bc) ** 2 if False else None)
    r = rank_exact(Pm)
    if not two_d:
        c.holds('null_space_dimension_implied_by_bc', n - r == nd, note=f"nullity {n - r}, expected {nd}")
        ones = [Fraction(1)] * n; lin = [Fraction(i) for i in range(n)]
        if nd >= 1: c.holds('constants_in_null_space', all(sum(a * b for a, b in zip(row, ones)) == 0 for row in Dm))
        if nd == 2: c.holds('linear_functions_in_null_space', all(sum(a * b for a, b in zip(row, lin)) == 0 for row in Dm))
    else:
        # 2-D: the null space of the stacked operator is the intersection of the two directional null spaces
        exp = {0: 0, 1: 1, 2: 4 if bc == 'neumann' else 1}[null_dim(order, bc)] if null_dim(order, bc) else 0
        c.holds('null_space_dimension_implied_by_bc', n - r == exp, note=f"nullity {n - r}, expected {exp}")


def gmrf_structure(c, order, N, bc, two_d=False):
    """rank / logdet / sqrtprec reported by the Gaussian field are those of its precision prec * P"""
    n = N * N if two_d else N
    geom = cuqi.geometry.Image2D((N, N)) if two_d else cuqi.geometry.Continuous1D(n)
    g = GMRF(np.zeros(n), 2.0, bc_type=bc, order=order, geometry=geom)
    Pm = exact(g._prec_op.get_matrix()); r = rank_exact(Pm)
    c.holds('rank_is_rank_of_precision', int(g._rank) == r, note=f"reported {g._rank}, precision has rank {r}")
    ev = np.linalg.eigvalsh(np.array(g._prec_op.get_matrix().toarray(), dtype=float))
    ev = np.sort(ev)[n - r:]
    logpdet = float(np.sum(np.log(ev)))
    c.holds('logdet_is_log_pseudo_determinant_of_precision', abs(float(g._logdet) - logpdet) <= 1e-6 * max(1.0, abs(logpdet)),
            note=f"reported {float(g._logdet):.8g}, log pdet {logpdet:.8g}")
    S = g.sqrtprec; S = S.toarray() if hasattr(S, 'toarray') else np.asarray(S)
    target = 2.0 * g._prec_op.get_matrix().toarray()
    c.holds('sqrtprecT_sqrtprec_is_prec_times_P', bool(np.allclose(S.T @ S, target, atol=1e-6)), note=f"max dev {np.abs(S.T @ S - target).max():.3g}")
    # history: the precision parameter is re-assigned (public setter) after sqrtprec has been read; the structure must follow it
    mean = np.arange(1, n + 1, dtype=float); g.mean = mean; _ = g.sqrtprecTimesMean
    g.prec = 9.0
    S2 = g.sqrtprec; S2 = S2.toarray() if hasattr(S2, 'toarray') else np.asarray(S2)
    target2 = 9.0 * g._prec_op.get_matrix().toarray()
    c.holds('after_reassigning_prec:sqrtprecT_sqrtprec_is_prec_times_P', bool(np.allclose(S2.T @ S2, target2, atol=1e-6)), note=f"max dev {np.abs(S2.T @ S2 - target2).max():.3g}")
    sm = np.asarray(g.sqrtprecTimesMean).ravel()
    c.holds('after_reassigning_prec:sqrtprecTimesMean_is_sqrtprec_times_mean', bool(np.allclose(sm, S2 @ mean, atol=1e-6)))


def _mrf(c, kind, N, bc, order=1, two_d=False):
    n = N * N if two_d else N
    geom = cuqi.geometry.Image2D((N, N)) if two_d else cuqi.geometry.Continuous1D(n)
    loc = c.vec('loc', n)
    if kind == 'GMRF':
        p = c.real('prec', pos=True); d = GMRF(loc, p, bc_type=bc, order=order, geometry=geom)
    elif kind == 'LMRF':
        p = c.real('scale', pos=True); d = LMRF(loc, p, bc_type=bc, geometry=geom)
    else:
        p = c.real('scale', pos=True); d = CMRF(loc, p, bc_type=bc, geometry=geom)
    if c.sym: shims.symbolize_operators(d)
    return d, loc, p, n


def mrf_logpdf(c, kind, N, bc, order=1, two_d=False):
    d, loc, p, n = _mrf(c, kind, N, bc, order, two_d)
    x = c.vec('x', n)
    v = list(x - loc)
    Dx = np.array(stencil2d(v, N, bc, order) if two_d else stencil1d(v, bc, order), dtype=object if c.sym else float)
    pi = shims.NP.pi if c.sym else np.pi
    if kind == 'GMRF':
        # documented Gaussian field: density of the finite differences; constants as reported by the object (checked in gmrf_structure)
        spec = 0.5 * (d._rank * (np.log(p) - np.log(2 * pi)) + d._logdet) - 0.5 * p * np.sum(Dx ** 2)
    elif kind == 'LMRF':
        spec = np.sum(-np.log(2 * p) - abs(Dx) / p)
    else:
        spec = np.sum(-np.log(pi) + np.log(p) - np.log(Dx ** 2 + p ** 2))
    c.eq('logpdf_is_documented_density_of_differences_of_shifted_variable', d.logpdf(x), spec)


def mrf_extreme_values(c, kind, N=8, bc='zero'):
    """machine arithmetic (outside the deductive part): rough vectors of large magnitude and small scales, where a density evaluated outside log space
    under- or overflows - the log-density is still the documented closed form (bounded check, native)"""
    n = N
    geom = cuqi.geometry.Continuous1D(n)
    loc = np.array([c.real(f'loc{i}') for i in range(n)])
    x = np.array([c.real(f'x{i}', lo=-1, hi=1) for i in range(n)]) * 2e3            # total variation / scale far beyond 745
    p = 0.01 + 0.02 * abs(c.real('p', lo=-1, hi=1))
    d = {'GMRF': lambda: GMRF(loc, 1 / p, bc_type=bc, geometry=geom), 'LMRF': lambda: LMRF(loc, p, bc_type=bc, geometry=geom), 'CMRF': lambda: CMRF(loc, p, bc_type=bc, geometry=geom)}[kind]()
    Dx = np.array(stencil1d(list(x - loc), bc, 1), dtype=float)
    if kind == 'GMRF': spec = 0.5 * (d._rank * (np.log(1 / p) - np.log(2 * np.pi)) + d._logdet) - 0.5 / p * np.sum(Dx ** 2)
    elif kind == 'LMRF': spec = np.sum(-np.log(2 * p) - abs(Dx) / p)
    else: spec = np.sum(-np.log(np.pi) + np.log(p) - np.log(Dx ** 2 + p ** 2))
    c.eq('logpdf_is_the_documented_closed_form_also_where_the_density_underflows', d.logpdf(x), spec, tol=1e-9)
    c.eq('logd_likewise', d.logd(x), spec, tol=1e-9)


def mrf_batch(c, kind, N=4, bc='zero'):
    """a matrix of column vectors handed to the log-density of the Laplace / Cauchy field: one value per column, each the log-density of that column
    (every column judged on its own: no value depends on the other columns)"""
    n = N; geom = cuqi.geometry.Continuous1D(n); l0 = c.real('loc0'); p = c.real('scale', pos=True)          # (a scalar location: the form with which a matrix of columns is accepted)
    d = LMRF(l0, p, bc_type=bc, geometry=geom) if kind == 'LMRF' else CMRF(l0, p, bc_type=bc, geometry=geom)
    if c.sym: shims.symbolize_operators(d)
    K = 3
    X = c.vec('X', n * K).reshape(n, K)
    out = np.asarray(d.logpdf(X))
    c.holds('one_value_per_column', np.shape(out) == (K,), note=str(np.shape(out)))
    if np.shape(out) == (K,):
        for k in range(K): c.eq(f'value[{k}]_is_the_log_density_of_column_{k}', out[k], d.logpdf(X[:, k]))


def mrf_rectangular(c, kind):
    """a 2-D geometry that is not square (2 x 8 pixels): the prior is refused, or it is the density of the finite differences on THAT
    grid (sum over rows of 8 and columns of 2) - never the density of a 4 x 4 image with the same number of pixels"""
    R, C = 2, 8; n = R * C
    geom = cuqi.geometry.Image2D((R, C))
    try:
        if kind == 'GMRF': d = GMRF(np.zeros(n), 2.0, bc_type='zero', geometry=geom)
        elif kind == 'LMRF': d = LMRF(0, 0.5, bc_type='zero', geometry=geom)
        else: d = CMRF(0, 0.5, bc_type='zero', geometry=geom)
    except (NotImplementedError, ValueError):
        c.holds('non_square_grid_refused', True); return
    x = c.vec('x', n)
    img = [[x[i * C + j] for j in range(C)] for i in range(R)]
    diffs = []
    for i in range(R): diffs += stencil1d(img[i], 'zero', 1)
    for j in range(C): diffs += stencil1d([img[i][j] for i in range(R)], 'zero', 1)
    Dx = np.array(diffs, dtype=object if c.sym else float)
    zero = np.zeros(n)
    if kind == 'GMRF': spec = -0.5 * 2.0 * np.sum(Dx ** 2)
    elif kind == 'LMRF': spec = np.sum(-abs(Dx) / 0.5)
    else: spec = np.sum(-np.log(Dx ** 2 + 0.25)) + len(Dx) * np.log(0.25)
    c.eq('density_is_that_of_the_differences_on_the_rectangular_grid', d.logpdf(x) - d.logpdf(zero), spec, tol=1e-8)


def mrf_gradient(c, kind, N, bc, order=1):
    d, loc, p, n = _mrf(c, kind, N, bc, order)
    x = c.vec('x', n)
    g = d.gradient(x)
    c.holds('gradient_is_a_vector_of_the_variable_shape', np.shape(g) == (n,), note=f"{type(g).__name__} shape {np.shape(g)}")
    c.eq('gradient_is_derivative_of_own_logd', g, c.grad_of(lambda v: d.logd(v), x), tol=1e-4)


def jobs(tier):
    J = []
    q = tier == 'quick'
    N1 = range(2, 7) if q else range(2, 13)
    N2 = range(2, 4) if q else range(2, 6)
    FO = [f'{O}:FirstOrderFiniteDifference._create_diff_matrix', f'{O}:SecondOrderFiniteDifference._create_diff_matrix', f'{O}:Operator.__matmul__']
    PO = FO + [f'{O}:PrecisionFiniteDifference._create_prec_matrix']
    for order in (1, 2):
        bcs = ('zero', 'periodic', 'neumann', 'backward') if order == 1 else ('zero', 'periodic', 'neumann')
        for bc in bcs:
            for N in N1:
                if bc == 'neumann' and N <= order: continue
                if order == 2 and N < 3: continue
                J.append(Job(f'stencil:order={order}:{bc}:N={N}', lambda c, o=order, N=N, bc=bc: stencil(c, o, N, bc), 'Pbox', FO))
                if N in (3, 5):
                    for dx in (0.5, 2):
                        J.append(Job(f'stencil:order={order}:{bc}:N={N}:dx={dx}', lambda c, o=order, N=N, bc=bc, dx=dx: stencil(c, o, N, bc, dx), 'Pbox', FO))
            if bc == 'backward': continue
            for N in N2:
                if bc == 'neumann' and N <= order: continue
                if order == 2 and N < 3: continue
                J.append(Job(f'stencil2D:order={order}:{bc}:N={N}x{N}', lambda c, o=order, N=N, bc=bc: stencil(c, o, N, bc, None, True), 'Pbox', FO))
    J.append(Job('stencil:order=0:none:N=4', lambda c: stencil(c, 0, 4, 'none'), 'Pbox', FO))
    for order in (0, 1, 2):
        for bc in ('zero', 'periodic', 'neumann'):
            for N in N1:
                if N <= order + (1 if bc == 'neumann' else 0): continue
                if order == 2 and N < 3: continue
                J.append(Job(f'precision:order={order}:{bc}:N={N}', lambda c, o=order, N=N, bc=bc: precision(c, o, N, bc), 'Pbox', PO))
                J.append(Job(f'GMRF.structure:order={order}:{bc}:N={N}', lambda c, o=order, N=N, bc=bc: gmrf_structure(c, o, N, bc), 'Pbox',
                             ['cuqi.distribution._gmrf:GMRF.__init__', 'cuqi.distribution._gmrf:GMRF.sqrtprec', 'cuqi.utilities._utilities:sparse_cholesky'], num=False))
            for N in N2:
                if N <= order + (1 if bc == 'neumann' else 0) or (order == 2 and N < 3): continue
                J.append(Job(f'GMRF.structure2D:order={order}:{bc}:N={N}x{N}', lambda c, o=order, N=N, bc=bc: gmrf_structure(c, o, N, bc, True), 'Pbox',
                             ['cuqi.distribution._gmrf:GMRF.__init__', 'cuqi.distribution._gmrf:GMRF.sqrtprec'], num=False))
                J.append(Job(f'precision2D:order={order}:{bc}:N={N}x{N}', lambda c, o=order, N=N, bc=bc: precision(c, o, N, bc, True), 'Pbox', PO))
    for kind in ('GMRF', 'LMRF', 'CMRF'):
        J.append(Job(f'{kind}:non_square_2D_geometry', lambda c, k=kind: mrf_rectangular(c, k), 'Pbox', [f'cuqi.distribution._{kind.lower()}:{kind}.__init__'], num=True))
    for kind in ('GMRF', 'LMRF', 'CMRF'):
        mod = f'cuqi.distribution._{kind.lower()}'
        for bc in ('zero', 'periodic', 'neumann'):
            for order in ((1, 2) if kind == 'GMRF' else (1,)):
                for N in ((3, 4) if q else (3, 4, 5)):
                    if order == 2 and bc == 'neumann': continue      # logdet is NaN there (known finding GMRF.structure)
                    J.append(Job(f'{kind}.logpdf:order={order}:{bc}:N={N}', lambda c, k=kind, N=N, bc=bc, o=order: mrf_logpdf(c, k, N, bc, o), 'Pbox',
                                 [f'{mod}:{kind}.logpdf', f'{mod}:{kind}.__init__'] + FO))
                    if kind in ('GMRF', 'CMRF') and N == 3 and not (order == 2 and bc == 'neumann'):   # order-2 Neumann: logdet is NaN (known finding)
                        J.append(Job(f'{kind}.gradient:order={order}:{bc}:N={N}', lambda c, k=kind, N=N, bc=bc, o=order: mrf_gradient(c, k, N, bc, o), 'Pbox',
                                     [f'{mod}:{kind}._gradient'], rtol=1e-4))
            J.append(Job(f'{kind}.logpdf2D:{bc}:N=3x3', lambda c, k=kind, bc=bc: mrf_logpdf(c, k, 3, bc, 1, True), 'Pbox', [f'{mod}:{kind}.logpdf'] + FO))
            if kind == 'GMRF' and bc in ('zero', 'periodic'):      # second-order field on an image: differences along BOTH directions (a non-symmetric image tells them apart)
                J.append(Job(f'GMRF.logpdf2D:order=2:{bc}:N=3x3', lambda c, bc=bc: mrf_logpdf(c, 'GMRF', 3, bc, 2, True), 'Pbox', [f'{mod}:GMRF.logpdf', 'cuqi.operator._operator:SecondOrderFiniteDifference._create_diff_matrix'] + FO))
    for kind in ('LMRF', 'CMRF'):
        for bc in ('zero', 'periodic'):
            J.append(Job(f'{kind}.logpdf:batch_of_columns:{bc}', lambda c, k=kind, bc=bc: mrf_batch(c, k, 4, bc), 'Pbox', [f'cuqi.distribution._{kind.lower()}:{kind}.logpdf'] + FO))
    for kind in ('GMRF', 'LMRF', 'CMRF'):
        J.append(Job(f'{kind}.logpdf:extreme_values', lambda c, k=kind: mrf_extreme_values(c, k), 'B', [f'cuqi.distribution._{kind.lower()}:{kind}.logpdf'], nnum=3))
    return J
