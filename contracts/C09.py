"""C09 — Gibbs sweeps draw each block from its conditional given the current other blocks.

Stub joint target (records the values every conditional was conditioned on) and block kernels whose draw is an
UNINTERPRETED function of (block, conditioning values, start point): the Gibbs schedule is then a statement about terms.
A real Metropolis-Hastings block sampler is also plugged in to check that the kernel's representation invariant (cached
target value belongs to the CURRENT conditional and point) holds whenever the block is advanced."""
import numpy as np
import z3
from pvc.runner import Job
from pvc import core, shims
import cuqi
from cuqi.distribution import JointDistribution
from cuqi.experimental.mcmc import HybridGibbs, Sampler, MH
from cuqi.sampler import Gibbs

EXPLANATION = ("one sweep from an arbitrary state (the induction step for any number of sweeps): before block b is advanced its sampler's target is the joint conditioned on the "
               "latest values of all other blocks (this sweep's for earlier blocks, previous for later ones); blocks visited once each in parameter order; the sampler starts from "
               "the block's current value and is advanced the configured number of times; current/stored samples are the tuple after the sweep; continuing resumes from the last "
               "stored values; a real MH block is advanced only with caches belonging to its current conditional target.")
ASSUMPTIONS = ["composition of kernels each invariant for its full conditional leaves the joint invariant (lemma L-Gibbs, cited)",
               "bounded in the number of blocks (2, 3; thorough 4) and steps per block (1..3); values, kernels and number of sweeps unbounded"]


class CondTarget:
    """conditional target returned by the stub joint: remembers what it was conditioned on"""
    def __init__(self, joint, name, cond):
        self.joint = joint; self.name = name; self.cond = dict(cond)
        self.dim = joint.dims[name]; self.geometry = cuqi.geometry._DefaultGeometry1D(self.dim)
    def logd(self, x):
        args = []
        for k in sorted(self.cond): args += list(np.atleast_1d(self.cond[k]))
        return self.joint.c.uf(f'logd_{self.name}', *args, *list(np.atleast_1d(x)))
    def get_parameter_names(self): return [self.name]


class StubJoint(JointDistribution):
    def __init__(self, c, dims):
        self.c = c; self.dims = dict(dims); self.log = []
    def get_parameter_names(self): return list(self.dims)
    def get_density(self, name): return CondTarget(self, name, {})
    def __call__(self, **cond):
        if not cond: return self
        free = [n for n in self.dims if n not in cond]
        self.log.append(dict(cond))
        return CondTarget(self, free[0] if len(free) == 1 else '+'.join(free), cond)
    _condition = __call__


def kernel(c, name, cond, start, n):
    """the draw of block `name`'s kernel: opaque function of (conditioning values, start point)"""
    args = []
    for k in sorted(cond): args += list(np.atleast_1d(cond[k]))
    return np.array([c.uf(f'K_{name}_{i}', *args, *list(np.atleast_1d(start))) for i in range(n)], dtype=object if c.sym else float)


ORDER = []          # global order of kernel applications (all stub blocks)


class BlockSampler(Sampler):
    """stub block kernel on top of the real Sampler base class (state handling is the real one)"""
    def __init__(self, c, name, initial_point, **kw):
        self.c = c; self.bname = name; self.events = []
        super().__init__(None, initial_point=initial_point, **kw)
    def _initialize(self): pass
    def validate_target(self): pass
    def tune(self, skip_len, update_count): pass
    def step(self):
        self.events.append(('step', self.target, self.current_point)); ORDER.append(self.bname)
        self.current_point = kernel(self.c, self.bname, self.target.cond, self.current_point, len(self.current_point))
        return 1


from cuqi.experimental.mcmc import NUTS


class NutsTypedBlock(NUTS):
    """a block kernel that IS-A NUTS (so that HybridGibbs takes its NUTS special case) with the stub kernel as transition"""
    _STATE_KEYS = Sampler._STATE_KEYS; _HISTORY_KEYS = Sampler._HISTORY_KEYS
    def __init__(self, c, name, initial_point):
        self.c = c; self.bname = name; self.events = []; self._max_depth = 3
        Sampler.__init__(self, None, initial_point=initial_point)
    def _initialize(self): pass
    def validate_target(self): pass
    def tune(self, skip_len, update_count): pass
    def _pre_warmup(self): pass
    def _pre_sample(self): pass
    def step(self):
        self.events.append(('step', self.target, self.current_point)); ORDER.append(self.bname)
        self.current_point = kernel(self.c, self.bname, self.target.cond, self.current_point, len(self.current_point))
        return 1


class CheckedMH(MH):
    """the REAL MH sampler with a ghost check of its representation invariant at every step"""
    ghost = []
    def step(self):
        CheckedMH.ghost.append((self.current_target_logd, self.target.logd(self.current_point)))
        return super().step()


def hybrid_sweep(c, k=2, steps=(1, 2, 1, 3), with_real_mh=False, nuts_block=False, steps_arg='joint_order'):
    names = ['a', 'b', 'cc', 'd'][:k]
    dims = {n: (2 if i % 2 == 0 else 1) for i, n in enumerate(names)}
    J = StubJoint(c, dims)
    init = {n: c.vec(f'init_{n}', dims[n]) for n in names}
    samplers = {n: BlockSampler(c, n, init[n]) for n in names}
    if nuts_block: samplers[names[0]] = NutsTypedBlock(c, names[0], init[names[0]])
    if with_real_mh:
        samplers[names[-1]] = CheckedMH(initial_point=init[names[-1]], scale=c.real('scale', pos=True))
    nsteps = {n: steps[i] for i, n in enumerate(names)}
    # the configured numbers of transitions are given BY NAME: the order of the dictionary, or leaving blocks out (default 1), is immaterial
    if steps_arg == 'reversed': arg = dict(reversed(list(nsteps.items())))
    elif steps_arg == 'partial':
        arg = {names[-1]: nsteps[names[-1]]}; nsteps = {n: (nsteps[n] if n == names[-1] else 1) for n in names}
    else: arg = nsteps
    G = HybridGibbs(J, samplers, arg)
    c.holds('initial_current_samples_are_the_samplers_initial_points', all(G.current_samples[n] is init[n] or np.all(G.current_samples[n] == init[n]) for n in names))
    # arbitrary state at the start of a sweep (invariant: every sampler sits at its block's current value)
    cur = {n: c.vec(f'cur_{n}', dims[n]) for n in names}
    for n in names:
        G.current_samples[n] = cur[n]; samplers[n].current_point = cur[n]
        if isinstance(samplers[n], (BlockSampler, NutsTypedBlock)): samplers[n].events.clear()
    if with_real_mh:
        mh = samplers[names[-1]]
        others = {m: cur[m] for m in names if m != names[-1]}
        mh._target = J(**others); mh.current_target_logd = mh.target.logd(cur[names[-1]])     # invariant holds before the sweep
        for j in range(len(names[-1:])): pass
        u = [c.next_uniform(f'u{j}') for j in range(nsteps[names[-1]])]
        xi = [c.vec(f'xi{j}', dims[names[-1]]) for j in range(nsteps[names[-1]])]
        for z in xi:
            if c.sym: shims.PRESET['normal'].append(z.reshape(-1, 1))
            else: c._numq['normal'].append(z.reshape(-1, 1)); c._patch_random()
        CheckedMH.ghost.clear()
    J.log.clear(); del ORDER[:]
    if c.sym: shims.CLOSE_MODEL[0] = 'tolerance'       # closeness tests in the schedule are modelled as numpy documents them
    nstored = {n: len(G.samples[n]) for n in names}
    G.step(); G._store_samples()
    # reference schedule written from the property statement
    latest = dict(cur)
    for bi, n in enumerate(names):
        others = {m: latest[m] for m in names if m != n}
        smp = samplers[n]
        if isinstance(smp, (BlockSampler, NutsTypedBlock)):
            ev = smp.events
            c.holds(f'block[{n}]_advanced_the_configured_number_of_times', len(ev) == nsteps[n], note=f"{len(ev)} vs {nsteps[n]}")
            if ev:
                tgt = ev[0][1]
                c.holds(f'block[{n}]_target_conditioned_on_exactly_the_other_blocks', set(tgt.cond) == set(others))
                for m in others:
                    c.eq(f'block[{n}]_conditioned_on_latest_value_of_{m}', tgt.cond[m], others[m])
                c.eq(f'block[{n}]_starts_from_the_blocks_current_value', ev[0][2], cur[n])
                c.holds(f'block[{n}]_same_target_for_all_its_steps', all(e[1] is tgt for e in ev))
            p = cur[n]
            for _ in range(nsteps[n]): p = kernel(c, n, others, p, dims[n])
            latest[n] = p
            c.eq(f'block[{n}]_value_after_sweep_is_its_kernel_applied_to_conditional_on_latest_others', G.current_samples[n], p)
        else:
            for j, (cache, fresh) in enumerate(CheckedMH.ghost):
                c.eq(f'real_MH_block_step[{j}]_cached_target_value_belongs_to_current_conditional', cache, fresh)
            c.holds('real_MH_block_advanced_the_configured_number_of_times', len(CheckedMH.ghost) == nsteps[n])
            c.eq('real_MH_block_target_conditioned_on_latest_others', np.concatenate([np.atleast_1d(smp.target.cond[m]) for m in sorted(others)]),
                 np.concatenate([np.atleast_1d(others[m]) for m in sorted(others)]))
            latest[n] = G.current_samples[n]
    # (the order is observed on the kernels' applications, not on how often the joint is re-conditioned: re-using a conditional that
    #  is still the right one is not a violation)
    want = [n for n in names if isinstance(samplers[n], (BlockSampler, NutsTypedBlock)) for _ in range(nsteps[n])]
    c.holds('block_kernels_applied_in_parameter_order', ORDER == want, note=f"{ORDER} vs {want}")
    for n in names:
        c.holds(f'stored_sample_of_{n}_appended_once', len(G.samples[n]) == nstored[n] + 1)
        c.eq(f'stored_sample_of_{n}_is_value_after_the_sweep', G.samples[n][-1], G.current_samples[n])
        c.eq(f'sampler_of_{n}_holds_the_blocks_value', samplers[n].current_point, G.current_samples[n])


def refresh_contract(c):
    """HybridGibbs._refresh_cached_target_evaluations: after a block's target has been replaced, every cached evaluation the block
    sampler declares in its state is that of the NEW target at the current point - the log-density for MH-type samplers, log-density
    and gradient for gradient-based ones, and the LIKELIHOOD log-density for pCN (whose acceptance ratio is likelihood-only)"""
    import types
    x = c.vec('x', 2)
    logd = lambda v: c.uf('newlogd', *list(v)); grad = lambda v: np.array([c.uf(f'newgrad{i}', *list(v)) for i in range(2)], dtype=object if c.sym else float)
    like = lambda v: c.uf('newloglike', *list(v))
    tgt = types.SimpleNamespace(logd=logd, gradient=grad)
    for name, keys in (('MH_like', {'current_point', 'current_target_logd'}), ('gradient_based', {'current_point', 'current_target_logd', 'current_target_grad'}),
                       ('pCN_like', {'current_point', 'current_likelihood_logd'})):
        smp = types.SimpleNamespace(_STATE_KEYS=keys, target=tgt, current_point=x, _loglikelihood=like,
                                    current_target_logd='stale', current_target_grad='stale', current_likelihood_logd='stale')
        HybridGibbs._refresh_cached_target_evaluations(smp)
        if 'current_target_logd' in keys: c.eq(f'{name}:cached_log_density_is_the_new_targets', smp.current_target_logd, logd(x))
        else: c.holds(f'{name}:undeclared_log_density_cache_untouched', smp.current_target_logd == 'stale')
        if 'current_target_grad' in keys: c.eq(f'{name}:cached_gradient_is_the_new_targets', smp.current_target_grad, grad(x))
        else: c.holds(f'{name}:undeclared_gradient_cache_untouched', isinstance(smp.current_target_grad, str))
        if 'current_likelihood_logd' in keys: c.eq(f'{name}:cached_likelihood_value_is_the_new_LIKELIHOOD_log_density', smp.current_likelihood_logd, like(x))
        else: c.holds(f'{name}:undeclared_likelihood_cache_untouched', smp.current_likelihood_logd == 'stale')
        c.holds(f'{name}:current_point_untouched', smp.current_point is x)


def hybrid_continue(c):
    """sample(1) twice == resume from the last stored values (values as terms)"""
    names = ['a', 'b']; dims = {'a': 2, 'b': 1}
    def run(split):
        J = StubJoint(c, dims)
        init = {n: c.vec(f'init_{n}', dims[n]) for n in names}
        G = HybridGibbs(J, {n: BlockSampler(c, n, init[n]) for n in names})
        if split: G.sample(1); G.sample(1)
        else: G.sample(2)
        return G
    A, B = run(True), run(False)
    for n in names:
        c.holds(f'{n}:same_number_of_stored_samples', len(A.samples[n]) == len(B.samples[n]) == 2)
        for k in range(2): c.eq(f'{n}:stored[{k}]_same_chain', A.samples[n][k], B.samples[n][k])
    # the Samples objects handed out: column k of block n is the block's value after sweep k - also when the number of sweeps equals the block's
    # dimension (2 sweeps, block 'a' of dimension 2: the stacked array is square) and when it does not (3 sweeps)
    for sweeps in (2, 3):
        Jq = StubJoint(c, dims); initq = {n: c.vec(f'init_{n}', dims[n]) for n in names}
        Gq = HybridGibbs(Jq, {n: BlockSampler(c, n, initq[n]) for n in names}); Gq.sample(sweeps)
        out = Gq.get_samples()
        for n in names:
            arr = np.asarray(out[n].samples)
            c.holds(f'sweeps={sweeps}:{n}:handed_out_chain_has_one_column_per_sweep', arr.shape == (dims[n], sweeps), note=str(arr.shape))
            if arr.shape == (dims[n], sweeps):
                for k in range(sweeps): c.eq(f'sweeps={sweeps}:{n}:handed_out_column[{k}]_is_the_value_after_sweep_{k}', arr[:, k], np.asarray(Gq.samples[n][k]).reshape(-1))
    W = run(False)                      # warm-up followed by sampling continues the same chain
    J = StubJoint(c, dims); init = {n: c.vec(f'init_{n}', dims[n]) for n in names}
    G = HybridGibbs(J, {n: BlockSampler(c, n, init[n]) for n in names}); G.warmup(1); G.sample(1)
    for n in names:
        for k in range(2): c.eq(f'{n}:warmup_then_sample[{k}]_same_chain', G.samples[n][k], W.samples[n][k])


class TunedBlock(BlockSampler):
    """block kernel that records the tuning calls it receives"""
    def tune(self, skip_len, update_count): self.events.append(('tune', skip_len, update_count, len(ORDER)))


def hybrid_warmup_lengths(c, Nb, tune_freq):
    """warm-up of any length, tuned at any frequency: every one of the Nb sweeps is a stored state of the chain (also the sweeps after the last tuning
    point when Nb is not a multiple of the tuning interval), the chain is the one Nb plain sweeps give, and tuning happens after every full interval"""
    names = ['a', 'b']; dims = {'a': 2, 'b': 1}
    def make(cls):
        J = StubJoint(c, dims); init = {n: c.vec(f'init_{n}', dims[n]) for n in names}
        return HybridGibbs(J, {n: cls(c, n, init[n]) for n in names})
    del ORDER[:]
    G = make(TunedBlock); G.warmup(Nb, tune_freq) if tune_freq is not None else G.warmup(Nb)
    R = make(BlockSampler); R.sample(Nb)
    interval = max(int((0.1 if tune_freq is None else tune_freq) * Nb), 1)
    for n in names:
        c.holds(f'{n}:one_stored_state_per_warmup_sweep', len(G.samples[n]) == Nb, note=f'{len(G.samples[n])} stored for {Nb} sweeps')
        for k in range(min(Nb, len(G.samples[n]))): c.eq(f'{n}:stored[{k}]_is_the_state_after_sweep_{k}', G.samples[n][k], R.samples[n][k])
        c.eq(f'{n}:block_sampler_ends_at_the_last_sweeps_value', G.samplers[n].current_point, R.samplers[n].current_point)
        tunes = [(e[1], e[2]) for e in G.samplers[n].events if e[0] == 'tune']
        c.holds(f'{n}:tuned_after_every_full_interval', tunes == [(interval, k) for k in range(Nb // interval)], note=str(tunes))
    G.sample(1); R.sample(1)
    for n in names:
        c.holds(f'{n}:sampling_after_warmup_appends_one_state', len(G.samples[n]) == Nb + 1)
        c.eq(f'{n}:sampling_after_warmup_continues_the_chain', G.samples[n][-1], R.samples[n][-1])


class ComponentwiseFlagsBlock(BlockSampler):
    """a block kernel that, like CWMH, reports ONE ACCEPTANCE FLAG PER COMPONENT (here: a mixed vector - some components accepted, some not) while it moves
    the block's value"""
    def step(self):
        super().step()
        return np.array([1, 0] * len(self.current_point))[:len(self.current_point)]


def hybrid_vector_flags(c, steps):
    """the value a block has after its transitions is the block sampler's point, whatever the sampler returns as acceptance information (a scalar flag, or one
    flag per component as the component-wise sampler does, some zero): the chain is the one the same kernel gives with scalar flags"""
    names = ['a', 'b']; dims = {'a': 2, 'b': 1}
    def make(cls):
        J = StubJoint(c, dims); init = {n: c.vec(f'init_{n}', dims[n]) for n in names}
        return HybridGibbs(J, {'a': cls(c, 'a', init['a']), 'b': BlockSampler(c, 'b', init['b'])}, num_sampling_steps={'a': steps, 'b': 1})
    G = make(ComponentwiseFlagsBlock); G.sample(3); R = make(BlockSampler); R.sample(3)
    for n in names:
        c.holds(f'{n}:one_stored_state_per_sweep', len(G.samples[n]) == 3)
        for k in range(min(3, len(G.samples[n]))): c.eq(f'{n}:stored[{k}]_is_the_state_after_sweep_{k}', G.samples[n][k], R.samples[n][k])
    c.eq('a:current_value_is_the_block_samplers_point', G.current_samples['a'], G.samplers['a'].current_point)


def hybrid_warmup_loop(c):
    """HybridGibbs.warmup, loop cut mechanically from the real method: ONE iteration at an arbitrary (symbolic) loop counter and tuning interval performs
    exactly one sweep, records exactly one state AFTER it, and tunes iff a full interval is complete - the induction step of `warmup(Nb) stores Nb
    states` for every Nb and every tuning frequency (the enumerated jobs above are its instances run end to end)"""
    import z3, builtins, types
    from pvc import loops, core
    from pvc.ghost import SInt, sint
    import cuqi.experimental.mcmc._gibbs as GM
    calls = []
    me = types.SimpleNamespace(step=lambda: calls.append(('step',)), tune=lambda a, b: calls.append(('tune', a, b)),
                               _store_samples=lambda: calls.append(('store',)))
    pre, cond, body, post, names, info = loops.split_loop(HybridGibbs.warmup, 0)
    old_tqdm = GM.tqdm; GM.tqdm = lambda it, *a, **k: it
    try:
        tag, st = pre({'self': me, 'Nb': 10, 'tune_freq': 0.3}); st = dict(st)
        c.holds('prologue:falls_through_without_a_sweep', tag == '__next' and calls == [])
        c.holds('prologue:tuning_interval_is_the_documented_fraction', st.get('tune_interval') == 3, note=str(st.get('tune_interval')))
        it = cond(st)
        if not (isinstance(it, builtins.range) and it == builtins.range(10)):
            # the method is no longer ONE loop over the requested sweeps (e.g. re-organised into tuning windows): this decomposition does not apply to it any
            # more - undecided here; the end-to-end jobs `warmup_of_any_length` decide the restructured method
            raise loops.StaleAnchor(f"HybridGibbs.warmup: loop #0 iterates {it!r}, not range(Nb): the one-loop decomposition of this contract does not apply")
        c.holds('loop_runs_once_per_requested_sweep', True)
        idx = sint('idx'); ti = sint('tune_interval'); c.assume(core.SBool(z3.And(idx.t >= 0, ti.t >= 1)))
        st['tune_interval'] = ti; st[info['target']] = idx
        tagb, st1 = body(st)
        c.holds('iteration:falls_through', tagb == '__next')
        c.holds('iteration:exactly_one_sweep_first', [e[0] for e in calls].count('step') == 1 and calls[0] == ('step',), note=str(calls))
        c.holds('iteration:exactly_one_state_recorded_after_the_sweep', [e[0] for e in calls].count('store') == 1 and calls[-1] == ('store',), note=str(calls))
        tunes = [e for e in calls if e[0] == 'tune']; due = core.SBool((idx.t + 1) % ti.t == 0)
        if tunes:
            c.holds('iteration:tuning_only_when_an_interval_is_complete', due)
            c.holds('iteration:tuned_once_with_interval_and_number_of_completed_intervals_before', len(tunes) == 1 and SInt.lift(tunes[0][1]) == ti
                    and core.SBool(SInt.lift(tunes[0][2]).t * ti.t == idx.t + 1 - ti.t))
        else:
            c.holds('iteration:tuning_whenever_an_interval_is_complete', core.SBool(z3.Not(due.t)))
        k0 = len(calls); tagp, ret = post(dict(st1))
        c.holds('epilogue:returns_the_sampler_without_a_further_sweep', tagp == '__ret' and ret is me and len(calls) == k0)
    finally:
        GM.tqdm = old_tqdm


class LegacyBlock:
    """legacy block sampler class: constructed per step with the conditional target, step(x) returns the draw"""
    log = []
    def __init__(self, target): self.target = target
    def step(self, x):
        LegacyBlock.log.append((self.target, x))
        return kernel(self.target.joint.c, self.target.name, self.target.cond, x, len(np.atleast_1d(x)))


def legacy_sweep(c, k=2, grouping=None):
    """`grouping`: the documented short form of the sampling strategy - several parameters under ONE tuple key share a sampler class; they are still
    separate blocks, each conditioned on the latest values of all the others (including those of its own group drawn earlier in the sweep)"""
    names = ['a', 'b', 'cc'][:k]; dims = {n: (2 if i % 2 == 0 else 1) for i, n in enumerate(names)}
    J = StubJoint(c, dims)
    strategy = {n: LegacyBlock for n in names} if grouping is None else {(g if len(g) > 1 else g[0]): LegacyBlock for g in grouping}
    G = Gibbs(J, strategy)
    cur = {n: c.vec(f'cur_{n}', dims[n]) for n in names}
    LegacyBlock.log.clear(); J.log.clear()
    out = G.step({n: cur[n].copy() for n in names})
    latest = dict(cur)
    for bi, n in enumerate(names):
        others = {m: latest[m] for m in names if m != n}
        tgt, start = LegacyBlock.log[bi]
        c.holds(f'block[{n}]_target_conditioned_on_exactly_the_other_blocks', set(tgt.cond) == set(others) and tgt.name == n)
        for m in others: c.eq(f'block[{n}]_conditioned_on_latest_value_of_{m}', tgt.cond[m], others[m])
        c.eq(f'block[{n}]_starts_from_the_blocks_current_value', start, cur[n])
        latest[n] = kernel(c, n, others, cur[n], dims[n])
        c.eq(f'block[{n}]_value_after_sweep', out[n], latest[n])
    c.holds('every_block_visited_once_in_parameter_order', len(LegacyBlock.log) == k and [t.name for t, _ in LegacyBlock.log] == names)


def legacy_run(c):
    """legacy sample(): stored columns are the values after each sweep; a second call resumes from the last column"""
    names = ['a', 'b']; dims = {'a': 2, 'b': 1}
    def mk():
        J = StubJoint(c, dims)
        return Gibbs(J, {n: LegacyBlock for n in names}), J
    G1, _ = mk(); shims_np = None
    r1 = G1.sample(2)
    G2, _ = mk(); G2.sample(1); r2 = G2.sample(1)
    for n in names:
        c.holds(f'{n}:two_columns', r1[n].samples.shape[-1] == 2 and r2[n].samples.shape[-1] == 2)
        c.eq(f'{n}:split_run_same_chain', r2[n].samples, r1[n].samples)
    # with warm-up: sample(1, Nb=1) then sample(1) continues from the last SAMPLE, as sample(2, Nb=1) does
    G3, _ = mk(); r3 = G3.sample(2, 1)
    G4, _ = mk(); G4.sample(1, 1); r4 = G4.sample(1)
    for n in names:
        c.holds(f'{n}:after_warmup:two_columns', r3[n].samples.shape[-1] == 2 and r4[n].samples.shape[-1] == 2, note=f"{r3[n].samples.shape} {r4[n].samples.shape}")
        c.eq(f'{n}:after_warmup:split_run_same_chain', r4[n].samples, r3[n].samples)
    # split position 0: sample(0) then sample(2) is sample(2); warm-up only, then sampling, is sample(2, Nb=1)
    G5, _ = mk(); G5.sample(0); r5 = G5.sample(2)
    G6, _ = mk(); G6.sample(0, 1); r6 = G6.sample(2)
    for n in names:
        c.eq(f'{n}:empty_first_call:split_run_same_chain', r5[n].samples, r1[n].samples)
        c.eq(f'{n}:warmup_only_first_call:split_run_same_chain', r6[n].samples, r3[n].samples)
    # warm-up only, then an EMPTY call, then sampling: still the chain of sample(2, Nb=1) (the empty call must not drop the stored warm-up state)
    G7, _ = mk(); G7.sample(0, 1); G7.sample(0); r7 = G7.sample(2)
    for n in names:
        c.eq(f'{n}:warmup_only_then_empty_call:split_run_same_chain', r7[n].samples, r3[n].samples)


def nuts_block_step_size(c):
    """'with exact or invariant block samplers the joint target is left invariant': a NUTS block without a configured step size is an invariant kernel only if
    the step size it uses during the sampling phase does not depend on the block's current value (a step size chosen from the current state makes the
    transition kernel state-dependent; its stationary law is then not the conditional). Observed: the step size each sweep's NUTS transition uses, for two
    different starting values of the block and otherwise identical runs (bounded stand-in: native; deterministic)"""
    import io, contextlib
    from cuqi.distribution import Gaussian, Gamma, JointDistribution
    from cuqi.model import LinearModel
    import cuqi.experimental.mcmc as EX
    def run(x_start):
        d = Gamma(2, 1, name='d'); x = Gaussian(np.zeros(2), lambda d: 1 / d, name='x'); y = Gaussian(LinearModel(np.eye(2))(x), 0.5, name='y')
        J = JointDistribution(d, x, y)(y=np.array([1.0, -1.0]))
        np.random.seed(0)
        G = EX.HybridGibbs(J, {'x': EX.NUTS(max_depth=3, initial_point=x_start), 'd': EX.Conjugate()})
        eps = []; orig = EX.NUTS.step
        def rec(self): eps.append(float(self._epsilon)); return orig(self)
        EX.NUTS.step = rec
        try:
            with contextlib.redirect_stdout(io.StringIO()), contextlib.redirect_stderr(io.StringIO()): G.sample(4)
        finally: EX.NUTS.step = orig
        return eps
    a = run(np.array([0.1, 0.1]) + 0.01 * c.real('p')); b = run(np.array([30.0, -30.0]))
    c.holds('nuts_block_step_size_does_not_depend_on_the_blocks_current_value', a == b and len(set(a)) == 1, note=f"step sizes used per sweep: {a} (start near the mode) vs {b} (start far away)")


def sampler_objects(c, case):
    """HybridGibbs keeps each block's state inside that block's sampler object: one object serving two blocks, or objects still holding the state of an
    earlier run, cannot start 'from that block's current value' - such a construction must be refused, or the first sweep must start every block at the
    NEW run's initial value (bounded stand-in: native)"""
    import io, contextlib
    from cuqi.distribution import Gaussian, JointDistribution
    import cuqi.experimental.mcmc as EX
    def joint():
        a = Gaussian(np.zeros(1), 1.0, name='a'); b = Gaussian(lambda a: a, 1.0, geometry=1, name='b')
        return JointDistribution(a, b)
    seed = int(c.real('seed', lo=0, hi=10 ** 6)); np.random.seed(seed)
    with contextlib.redirect_stdout(io.StringIO()), contextlib.redirect_stderr(io.StringIO()):
        if case == 'one_object_for_two_blocks':
            mh = EX.MH(scale=0.5)
            c.expect_raise('construction_refused', lambda: EX.HybridGibbs(joint(), {'a': mh, 'b': mh}))
        else:
            sa, sb = EX.MH(scale=0.5, initial_point=np.array([50.0])), EX.MH(scale=0.5, initial_point=np.array([-50.0]))
            G1 = EX.HybridGibbs(joint(), {'a': sa, 'b': sb}); G1.sample(3)
            sa.initial_point = np.array([0.25]); sb.initial_point = np.array([-0.25])
            try: G2 = EX.HybridGibbs(joint(), {'a': sa, 'b': sb})
            except Exception:
                c.holds('reuse_refused', True); return
            # accepted: the first sweep must start every block at the new initial value (a unit-scale step cannot move far from it)
            G2.sample(1)
            S = G2.get_samples()
            c.holds('first_sweep_starts_from_the_new_initial_values', bool(abs(S['a'].samples[0, 0]) < 10 and abs(S['b'].samples[0, 0]) < 10), note=f"{S['a'].samples[0, 0]}, {S['b'].samples[0, 0]}")


def block_target_of_real_joint(c):
    """the conditional handed to a gradient-driven block sampler by the REAL HybridGibbs for a block on which two other factors depend (another block and a data
    set: the conditional is a several-likelihood posterior): it is the joint conditioned on the others - log-density differences equal those of the joint, and its
    gradient is the derivative of that log-density (prior of the block included); bounded stand-in: native"""
    import io, contextlib
    from cuqi.distribution import Gaussian, JointDistribution
    import cuqi.experimental.mcmc as EX
    n = 2
    B1 = np.array([[c.real(f'B1{i}{j}') for j in range(n)] for i in range(n)]); B2 = np.array([[c.real(f'B2{i}{j}') for j in range(n)] for i in range(n)])
    s_ = Gaussian(np.array([c.real('m0'), c.real('m1')]), 0.7, name='s')
    from cuqi.model import LinearModel
    x1 = Gaussian(LinearModel(B1)(s_), 0.5, name='x1'); x2 = Gaussian(LinearModel(B2)(s_), 0.4, name='x2')
    d2 = np.array([c.real('d0'), c.real('d1')])
    J = JointDistribution(s_, x1, x2)(x2=d2)
    with contextlib.redirect_stdout(io.StringIO()), contextlib.redirect_stderr(io.StringIO()):
        G = EX.HybridGibbs(J, {'s': EX.ULA(scale=0.01), 'x1': EX.Direct()})
        G._set_target('s')
    T = G.samplers['s'].target
    x1v = np.asarray(G.current_samples['x1'], dtype=float)
    a = np.array([c.real('a0'), c.real('a1')]); b = np.array([c.real('b0'), c.real('b1')])
    c.eq('block_target_log_density_differences_are_those_of_the_joint', T.logd(a) - T.logd(b), J.logd(s=a, x1=x1v) - J.logd(s=b, x1=x1v), tol=1e-9)
    try: g = np.asarray(T.gradient(a), dtype=float).ravel()
    except NotImplementedError:
        c.holds('gradient_refused', True); return
    h = 1e-6
    fd = np.array([(J.logd(s=a + h * e, x1=x1v) - J.logd(s=a - h * e, x1=x1v)) / (2 * h) for e in np.eye(n)]).ravel()
    c.eq('block_target_gradient_is_the_derivative_of_the_conditioned_joint', g, fd, tol=1e-5)


def jobs(tier):
    J = []
    q = tier == 'quick'
    HG = ['cuqi.experimental.mcmc._gibbs:HybridGibbs.step', 'cuqi.experimental.mcmc._gibbs:HybridGibbs._set_target', 'cuqi.experimental.mcmc._gibbs:HybridGibbs._store_samples',
          'cuqi.experimental.mcmc._gibbs:HybridGibbs.__init__', 'cuqi.experimental.mcmc._gibbs:HybridGibbs._initialize', 'cuqi.experimental.mcmc._sampler:Sampler.reinitialize',
          'cuqi.experimental.mcmc._sampler:Sampler.get_state', 'cuqi.experimental.mcmc._sampler:Sampler.set_state']
    for k in ((2, 3) if q else (2, 3, 4)):
        for steps in ((1, 1, 1, 1), (2, 1, 3, 2)):
            J.append(Job(f'HybridGibbs.sweep:blocks={k}:steps={"-".join(map(str, steps[:k]))}', lambda c, k=k, s=steps: hybrid_sweep(c, k, s), 'Pbox', HG, maxpaths=64))
    for sa in ('reversed', 'partial'):
        J.append(Job(f'HybridGibbs.sweep:blocks=3:steps=2-1-3:num_sampling_steps_{sa}', lambda c, sa=sa: hybrid_sweep(c, 3, (2, 1, 3, 2), False, False, sa), 'Pbox', HG, maxpaths=64))
    J.append(Job('HybridGibbs.sweep:real_MH_block:blocks=2', lambda c: hybrid_sweep(c, 2, (1, 2), True), 'Pbox', HG + ['cuqi.experimental.mcmc._mh:MH.step'], maxpaths=256))
    J.append(Job('HybridGibbs.sweep:NUTS_typed_block:blocks=2', lambda c: hybrid_sweep(c, 2, (2, 1), False, True), 'Pbox', HG, maxpaths=64))
    J.append(Job('HybridGibbs._refresh_cached_target_evaluations:per_declared_state_key', refresh_contract, 'Pbox', ['cuqi.experimental.mcmc._gibbs:HybridGibbs._refresh_cached_target_evaluations']))
    for Nb, tf in ((3, None), (5, 0.5), (7, 0.3), (10, 0.3), (6, 0.5), (25, None)):
        J.append(Job(f'HybridGibbs:warmup_of_any_length:Nb={Nb}:tune_freq={tf}', lambda c, Nb=Nb, tf=tf: hybrid_warmup_lengths(c, Nb, tf), 'Pbox',
                     HG + ['cuqi.experimental.mcmc._gibbs:HybridGibbs.warmup'], timeout=600))
    for steps in (1, 2):
        J.append(Job(f'HybridGibbs:block_sampler_reporting_one_acceptance_flag_per_component:steps={steps}', lambda c, st=steps: hybrid_vector_flags(c, st), 'Pbox', HG, timeout=600))
    J.append(Job('HybridGibbs:warmup_loop_contract', hybrid_warmup_loop, 'Pinf', ['cuqi.experimental.mcmc._gibbs:HybridGibbs.warmup'], timeout=600))
    J.append(Job('HybridGibbs:continuation_and_warmup', hybrid_continue, 'Pbox', HG + ['cuqi.experimental.mcmc._gibbs:HybridGibbs.sample', 'cuqi.experimental.mcmc._gibbs:HybridGibbs.warmup']))
    LG = ['cuqi.sampler._gibbs:Gibbs.step', 'cuqi.sampler._gibbs:Gibbs.sample', 'cuqi.sampler._gibbs:Gibbs._get_initial_points', 'cuqi.sampler._gibbs:Gibbs._store_samples', 'cuqi.sampler._gibbs:Gibbs._allocate_samples']
    for k in (2, 3):
        J.append(Job(f'legacy.Gibbs.sweep:blocks={k}', lambda c, k=k: legacy_sweep(c, k), 'Pbox', LG))
    for k, grouping in ((2, (('a', 'b'),)), (3, (('a', 'b'), ('cc',))), (3, (('a',), ('b', 'cc'))), (3, (('a', 'b', 'cc'),))):
        J.append(Job(f'legacy.Gibbs.sweep:blocks={k}:strategy_keys={"|".join("+".join(g) for g in grouping)}', lambda c, k=k, g=grouping: legacy_sweep(c, k, g), 'Pbox', LG + ['cuqi.sampler._gibbs:Gibbs.__init__']))
    J.append(Job('legacy.Gibbs:stored_columns_and_continuation', legacy_run, 'Pbox', LG))
    J.append(Job('HybridGibbs:block_target_of_a_real_joint:several_dependent_factors', block_target_of_real_joint, 'B', ['cuqi.experimental.mcmc._gibbs:HybridGibbs._set_target', 'cuqi.distribution._joint_distribution:MultipleLikelihoodPosterior.gradient'], nnum=3))
    for case in ('one_object_for_two_blocks', 'objects_of_a_finished_run'):
        J.append(Job(f'HybridGibbs:sampler_objects:{case}', lambda c, case=case: sampler_objects(c, case), 'B', ['cuqi.experimental.mcmc._gibbs:HybridGibbs._initialize_samplers', 'cuqi.experimental.mcmc._sampler:Sampler.initialize'], nnum=2))
    J.append(Job('HybridGibbs:NUTS_block:step_size_in_the_sampling_phase', nuts_block_step_size, 'B', ['cuqi.experimental.mcmc._gibbs:HybridGibbs.step', 'cuqi.experimental.mcmc._gibbs:HybridGibbs._pre_warmup_and_pre_sample_sampler', 'cuqi.experimental.mcmc._hmc:NUTS._pre_warmup'], nnum=1))
    return J
