"""C07 — a linear model's adjoint is the transpose of its forward map."""
import numpy as np
import z3
from pvc.runner import Job
from pvc import core, shims
import cuqi
from cuqi.model import LinearModel
from cuqi.geometry import Continuous1D, Image2D, StepExpansion, MappedGeometry
import cuqi.testproblem._testproblem as TP

M = 'cuqi.model._model'
EXPLANATION = ("<forward(x), y> == <x, adjoint(y)> for symbolic x, y and symbolic matrix entries / function pairs, every geometry pairing; "
               "get_matrix column i == forward(e_i); transposed model swaps the two; 2-D deconvolution forward/backward projectors with SYMBOLIC point-spread "
               "function for every boundary condition and both size parities; shipped Deconvolution1D/2D and Abel models.")
ASSUMPTIONS = ["scipy.signal.fftconvolve is replaced by the direct-sum definition of the convolution (contract); numpy.pad runs natively on object arrays"]


def geom(kind, n):
    if kind == 'default': return n
    if kind == 'Continuous1D': return Continuous1D(n)
    if kind == 'Image2D:C': return Image2D((2, n // 2), order='C')
    if kind == 'Image2D:F': return Image2D((2, n // 2), order='F')
    if kind == 'Step': return StepExpansion(np.linspace(0, 1, 2 * n), n_steps=n)          # par_dim n, fun_dim 2n
    if kind == 'MappedLinear': return MappedGeometry(Continuous1D(n), map=lambda v: 2 * v, imap=lambda f: f / 2)
    raise ValueError(kind)


def fun_dim(kind, n): return 2 * n if kind == 'Step' else n


def adjoint_identity(c, backing, dom, rng, m, n):
    """parameter-to-parameter maps exposed as forward and adjoint"""
    gd, gr = geom(dom, n), geom(rng, m)
    fm, fn_ = fun_dim(rng, m), fun_dim(dom, n)
    A = c.mat('A', fm, fn_)
    shp_d = (2, n // 2) if dom.startswith('Image2D') else None
    shp_r = (2, m // 2) if rng.startswith('Image2D') else None
    def fwd(v):
        out = A @ (v.ravel(order='F' if dom.endswith(':F') else 'C') if shp_d else v)
        return out.reshape(shp_r, order='F' if rng.endswith(':F') else 'C') if shp_r else out
    def adj(w):
        out = A.T @ (w.ravel(order='F' if rng.endswith(':F') else 'C') if shp_r else w)
        return out.reshape(shp_d, order='F' if dom.endswith(':F') else 'C') if shp_d else out
    if backing == 'sparse':
        import scipy.sparse as sp
        model = LinearModel(shims.STag(A, 'csr') if c.sym else sp.csr_matrix(np.asarray(A, dtype=float)), range_geometry=gr, domain_geometry=gd)
    elif backing == 'matrix':
        model = LinearModel(A, range_geometry=gr, domain_geometry=gd)
    else:
        model = LinearModel(fwd, adj, range_geometry=gr, domain_geometry=gd)     # the pair is adjoint in function space
    x = c.vec('x', n); y = c.vec('y', m)
    Fx = model.forward(x); Aty = model.adjoint(y)
    c.holds('forward_returns_range_parameters', np.shape(Fx) == (m,), note=str(np.shape(Fx)))
    c.holds('adjoint_returns_domain_parameters', np.shape(Aty) == (n,), note=str(np.shape(Aty)))
    c.eq('adjoint_identity', np.sum(np.asarray(Fx) * y), np.sum(x * np.asarray(Aty)))
    # matrix representation reproduces the forward map column by column
    Mx = model.get_matrix()
    Mx = Mx.toarray() if hasattr(Mx, 'toarray') else np.asarray(Mx)
    c.holds('matrix_shape', np.shape(Mx) == (m, n) or backing in ('matrix', 'sparse'), note=str(np.shape(Mx)))
    if np.shape(Mx) == (m, n):
        for i in range(n):
            e = np.zeros(n); e[i] = 1.0
            c.eq(f'matrix_column[{i}]_is_forward_of_unit_vector', Mx[:, i], model.forward(e))
    # transposed model swaps the two consistently
    T = model.T
    c.eq('T_forward_is_adjoint', T.forward(y), Aty)
    c.eq('T_adjoint_is_forward', T.adjoint(x), Fx)
    TM = T.get_matrix(); TM = TM.toarray() if hasattr(TM, 'toarray') else np.asarray(TM)
    if np.shape(Mx) == (m, n) and np.shape(TM) == (n, m):
        c.eq('T_matrix_is_transpose', TM, Mx.T)
    c.eq('matmul_is_forward', model @ x, Fx)
    # matrix-backed models also take a plain 2-D array of column vectors (as many columns as rows: the shape that cannot tell A^T Y from Y A apart by itself)
    if backing in ('matrix', 'sparse') and dom in ('default', 'Continuous1D') and rng in ('default', 'Continuous1D'):
        Yb = c.vec('Yb', m * m).reshape(m, m); Xb = c.vec('Xb', n * n).reshape(n, n)
        AYb = np.asarray(model.adjoint(Yb)); FXb = np.asarray(model.forward(Xb))
        c.holds('adjoint_of_a_square_batch_has_one_column_per_vector', np.shape(AYb) == (n, m), note=str(np.shape(AYb)))
        if np.shape(AYb) == (n, m):
            for k in range(m): c.eq(f'adjoint_of_batch_column[{k}]_is_adjoint_of_that_vector', AYb[:, k], model.adjoint(Yb[:, k]))
        if np.shape(FXb) == (m, n):
            for k in range(n): c.eq(f'forward_of_batch_column[{k}]_is_forward_of_that_vector', FXb[:, k], model.forward(Xb[:, k]))
    # a collection of vectors goes through the same maps column by column (forward and adjoint)
    from cuqi.samples import Samples
    X = c.vec('X', 2 * n).reshape(n, 2); Y = c.vec('Y', 2 * m).reshape(m, 2)
    FS = model.forward(Samples(X, model.domain_geometry)); AS = model.adjoint(Samples(Y, model.range_geometry))
    c.holds('forward_of_samples_is_samples_on_the_range_geometry', isinstance(FS, Samples) and FS.geometry == model.range_geometry and np.shape(FS.samples) == (m, 2), note=str(np.shape(getattr(FS, 'samples', FS))))
    c.holds('adjoint_of_samples_is_samples_on_the_domain_geometry', isinstance(AS, Samples) and AS.geometry == model.domain_geometry and np.shape(AS.samples) == (n, 2), note=str(np.shape(getattr(AS, 'samples', AS))))
    for k in range(2):
        c.eq(f'forward_of_samples_column[{k}]_is_forward_of_that_vector', FS.samples[:, k], model.forward(X[:, k]))
        c.eq(f'adjoint_of_samples_column[{k}]_is_adjoint_of_that_vector', AS.samples[:, k], model.adjoint(Y[:, k]))


def view_models(c, kind, n=4):
    """function-backed models whose forward returns its input object / a view of it (identity, subsampling, flip)"""
    if kind == 'identity':
        m = n; model = LinearModel(lambda v: v, lambda w: w, range_geometry=m, domain_geometry=n)
        ref = np.eye(n)
    elif kind == 'subsample':
        m = n // 2
        def adj(w):
            z = np.zeros(n) if not core.is_sym(w) else np.array([0.0] * n, dtype=object); z[::2] = w; return z
        model = LinearModel(lambda v: v[::2], adj, range_geometry=m, domain_geometry=n)
        ref = np.eye(n)[::2]
    else:
        m = n; model = LinearModel(lambda v: v[::-1], lambda w: w[::-1], range_geometry=m, domain_geometry=n)
        ref = np.eye(n)[::-1]
    x = c.vec('x', n); y = c.vec('y', m)
    c.eq('adjoint_identity', np.sum(np.asarray(model.forward(x)) * y), np.sum(x * np.asarray(model.adjoint(y))))
    Mx = model.get_matrix(); Mx = Mx.toarray() if hasattr(Mx, 'toarray') else np.asarray(Mx)
    c.holds('matrix_shape', np.shape(Mx) == (m, n), note=str(np.shape(Mx)))
    c.eq('matrix_reproduces_forward_column_by_column', Mx, ref)
    c.eq('matrix_times_x_is_forward', Mx @ x, model.forward(x))
    M2 = model.get_matrix(); M2 = M2.toarray() if hasattr(M2, 'toarray') else np.asarray(M2)
    c.eq('second_call_returns_the_same_matrix', M2, ref)
    TM = model.T.get_matrix(); TM = TM.toarray() if hasattr(TM, 'toarray') else np.asarray(TM)
    c.eq('T_matrix_is_transpose', TM, ref.T)


def proj2d(c, n, ps, BC):
    """real _proj_forward_2D / _proj_backward_2D on a symbolic image with a SYMBOLIC point-spread function"""
    X = c.mat('X', n, n); Y = c.mat('Y', n, n); P = c.mat('P', ps, ps)
    AX = TP._proj_forward_2D(X, P, BC); ATY = TP._proj_backward_2D(Y, P, BC)
    c.holds('shapes', np.shape(AX) == (n, n) and np.shape(ATY) == (n, n), note=f"{np.shape(AX)} {np.shape(ATY)}")
    c.eq('adjoint_identity', np.sum(np.asarray(AX) * Y), np.sum(X * np.asarray(ATY)))


def shipped(c, which, **opts):
    """the forward model handed out by a shipped test problem (constructed natively by the pre-hook)"""
    model = c.pre
    if c.sym: shims.symbolize_operators(model)
    n, m = model.domain_dim, model.range_dim
    x = c.vec('x', n); y = c.vec('y', m)
    Fx = model.forward(x); Aty = model.adjoint(y)
    c.eq('adjoint_identity', np.sum(np.asarray(Fx) * y), np.sum(x * np.asarray(Aty)))


def _mk(which, **opts):
    def pre():
        import warnings; warnings.filterwarnings('ignore')
        np.random.seed(0)
        tp = getattr(cuqi.testproblem, which)(**opts)
        return tp.model
    return pre


def geometry_reassignment(c):
    """history: the transposed model is read, the model's geometries are reassigned (public attributes), the transposed model is read again"""
    L = c.mat('L', 2, 2); R = c.mat('R', 2, 2)
    fwd = lambda X: L @ X @ R; adj = lambda Y: L.T @ Y @ R.T            # adjoint pair on 2x2 images, independent of the vectorisation order
    gC = lambda: cuqi.geometry.Image2D((2, 2), order='C'); gF = lambda: cuqi.geometry.Image2D((2, 2), order='F')
    model = LinearModel(fwd, adj, range_geometry=gC(), domain_geometry=gC())
    x = c.vec('x', 4); y = c.vec('y', 4)
    def check(tag, order):
        T = model.T
        Fx = model.forward(x); Aty = model.adjoint(y)
        c.eq(f'{tag}:forward_is_the_documented_map', Fx, fwd(x.reshape((2, 2), order=order)).ravel(order=order))
        c.eq(f'{tag}:adjoint_identity', np.sum(np.asarray(Fx) * y), np.sum(x * np.asarray(Aty)))
        c.eq(f'{tag}:T_forward_is_adjoint', T.forward(y), Aty)
        c.eq(f'{tag}:T_adjoint_is_forward', T.adjoint(x), Fx)
        c.holds(f'{tag}:T_swaps_the_geometries', T.domain_geometry == model.range_geometry and T.range_geometry == model.domain_geometry)
        c.eq(f'{tag}:T_matmul', T @ y, Aty)
    check('as_constructed', 'C')
    model.domain_geometry = gF(); model.range_geometry = gF()
    check('after_reassigning_geometries', 'F')
    model.domain_geometry = gC()
    Fx = model.forward(x)
    c.eq('mixed_orders:T_adjoint_is_forward', model.T.adjoint(x), Fx); c.eq('mixed_orders:T_forward_is_adjoint', model.T.forward(y), model.adjoint(y))


def jobs(tier):
    J = []
    q = tier == 'quick'
    FL = [f'{M}:LinearModel.__init__', f'{M}:LinearModel.adjoint', f'{M}:LinearModel.get_matrix', f'{M}:LinearModel.T', f'{M}:Model.forward',
          f'{M}:Model._apply_func', f'{M}:Model._2fun', f'{M}:Model._2par']
    pairs = [('default', 'default'), ('Continuous1D', 'Continuous1D'), ('Image2D:C', 'default'), ('default', 'Image2D:F'), ('Image2D:F', 'Image2D:C'),
             ('Step', 'default'), ('default', 'Step'), ('MappedLinear', 'default')]
    for backing in ('matrix', 'functions'):
        for dom, rng in pairs:
            sizes = [(2, 2)] if q else [(2, 2), (4, 2), (2, 4)]
            for m, n in sizes:
                if backing == 'matrix' and ('Image2D' in dom or 'Image2D' in rng): continue      # a matrix cannot act on image-shaped function values
                if 'Image2D' in dom and n % 2: continue
                if 'Image2D' in rng and m % 2: continue
                J.append(Job(f'LinearModel:{backing}:domain={dom}:range={rng}:m={m}:n={n}',
                             lambda c, b=backing, d=dom, r=rng, m=m, n=n: adjoint_identity(c, b, d, r, m, n), 'Pbox', FL, maxpaths=64))
    for (m_, n_) in ((2, 3), (3, 2)):
        J.append(Job(f'LinearModel:sparse:domain=default:range=default:m={m_}:n={n_}', lambda c, m_=m_, n_=n_: adjoint_identity(c, 'sparse', 'default', 'default', m_, n_), 'Pbox', FL, maxpaths=64))
    J.append(Job('LinearModel:functions:history:geometries_reassigned_after_T_was_read', geometry_reassignment, 'Pbox', FL))
    for kind in ('identity', 'subsample', 'flip'):
        J.append(Job(f'LinearModel:functions:{kind}_view', lambda c, k=kind: view_models(c, k), 'Pbox', FL))
    TPF = ['cuqi.testproblem._testproblem:_proj_forward_2D', 'cuqi.testproblem._testproblem:_proj_backward_2D']
    for BC in ('wrap', 'constant', 'symmetric', 'reflect', 'edge'):
        for ps in ((2, 3) if q else (2, 3, 4, 5)):
            for n in ((3,) if q else (3, 4)):
                if BC == 'reflect' and ps // 2 >= n: continue
                J.append(Job(f'Deconvolution2D.projectors:BC={BC}:PSF={ps}x{ps}:image={n}x{n}', lambda c, n=n, ps=ps, BC=BC: proj2d(c, n, ps, BC), 'Pbox', TPF, timeout=900))
    # point-spread function wider than the image (PSF_size // 2 >= image side): every pixel overlaps every other one
    for BC in ('wrap', 'constant'):
        J.append(Job(f'Deconvolution2D.projectors:BC={BC}:PSF=7x7:image=3x3', lambda c, BC=BC: proj2d(c, 3, 7, BC), 'Pbox', TPF, timeout=900))
    for BC in ('periodic', 'zero'):
        for ps in (3,) if q else (3, 5):
            J.append(Job(f'Deconvolution2D.shipped:BC={BC}:PSF_size={ps}:dim=4', lambda c: shipped(c, 'Deconvolution2D'), 'Pbox',
                         TPF + ['cuqi.testproblem._testproblem:Deconvolution2D.__init__'], pre=_mk('Deconvolution2D', dim=4, PSF_size=ps, BC=BC), timeout=900))
    # every named point-spread function with the boundary conditions whose adjoint is the flipped-PSF convolution for point-symmetric PSFs (odd sizes)
    for PSF in ('Gauss', 'Moffat', 'Defocus'):
        for BC in ('Neumann', 'periodic') if q else ('Neumann', 'periodic', 'zero'):
            for ps in ((3,) if q else (3, 5)):
                J.append(Job(f'Deconvolution2D.shipped:PSF={PSF}:BC={BC}:PSF_size={ps}:dim=4', lambda c: shipped(c, 'Deconvolution2D'), 'Pbox',
                             TPF + ['cuqi.testproblem._testproblem:Deconvolution2D.__init__', 'cuqi.testproblem._testproblem:_MoffatPSF', 'cuqi.testproblem._testproblem:_DefocusPSF'],
                             pre=_mk('Deconvolution2D', dim=4, PSF=PSF, PSF_size=ps, PSF_param=1.2, BC=BC), timeout=900))
    # image smaller than the (default, 21 x 21) point-spread function: the documented PSF size is what the model uses, whatever the image size
    for PSF in ('Gauss', 'Moffat', 'Defocus'):
        for BC in ('periodic', 'zero'):
            for dim in ((6,) if q else (4, 6, 10)):
                J.append(Job(f'Deconvolution2D.shipped:PSF={PSF}:BC={BC}:PSF_size=default:dim={dim}', lambda c: shipped(c, 'Deconvolution2D'), 'B',
                             TPF + ['cuqi.testproblem._testproblem:Deconvolution2D.__init__'], pre=_mk('Deconvolution2D', dim=dim, PSF=PSF, BC=BC), nnum=3))
    for BC in ('periodic', 'zero', 'Reflect', 'Mirror', 'Nearest') if not q else ('periodic', 'zero'):
        J.append(Job(f'Deconvolution1D.shipped:BC={BC}:dim=6', lambda c: shipped(c, 'Deconvolution1D'), 'Pbox',
                     ['cuqi.testproblem._testproblem:Deconvolution1D.__init__', 'cuqi.testproblem._testproblem:_getConvolutionOperator'],
                     pre=_mk('Deconvolution1D', dim=6, PSF_size=3, BC=BC)))
    J.append(Job('Abel1D.shipped:dim=5', lambda c: shipped(c, 'Abel1D'), 'Pbox', ['cuqi.testproblem._testproblem:Abel1D.__init__'], pre=_mk('Abel1D', dim=5)))
    # function-backed models between 2-D fields whose callables hand back arrays in other memory layouts (shared with C12): adjoint = closed-form transpose
    from contracts import C12 as _c12
    J += [j for j in _c12.jobs(tier) if j.id.startswith('field_models_2d:') or j.id.startswith('same_class_geometries:Image2D')]
    return J
