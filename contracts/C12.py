"""C12 — forward models act identically on every representation of their input."""
import numpy as np
import z3
from pvc.runner import Job
from pvc import core, shims
import cuqi
from cuqi.model import Model, LinearModel, PDEModel
from cuqi.geometry import Continuous1D, Image2D, StepExpansion, MappedGeometry, KLExpansion, Discrete
from cuqi.array import CUQIarray
from cuqi.samples import Samples

M = 'cuqi.model._model'
EXPLANATION = ("forward(p) == forward(par2fun(p), is_par=False) == forward(CUQIarray in either representation) == column k of forward(Samples) == "
               "fun2par_range(f(par2fun_domain(p))) with output wrapped like the input; gradient(d, w) == (d forward/dp)^T d incl. the geometry's own derivative, "
               "refused otherwise; forward(distribution) only renames the input.")
ASSUMPTIONS = ["the model function f is an arbitrary smooth map represented by a symbolic polynomial family (matrix times squares plus matrix times x): derivative by term differentiation"]


class GradGeometry(Continuous1D):
    """user geometry with its own derivative: par2fun(p) = p**2 ; gradient(direction, wrt) = 2 wrt * direction"""
    def par2fun(self, p): return p ** 2
    def fun2par(self, f): raise NotImplementedError
    def gradient(self, direction, wrt): return 2 * wrt * direction


class GradInvGeometry(Continuous1D):
    """user geometry with its own derivative AND an inverse map: par2fun(p) = p**3 + p (increasing) ; gradient(direction, wrt) = (3 wrt**2 + 1) * direction ;
    fun2par is a map that is NOT the identity (here: f / 2 - a deliberately simple, clearly non-identity function; the gradient path must never apply it)"""
    def par2fun(self, p): return p ** 3 + p
    def fun2par(self, f): return f / 2
    def gradient(self, direction, wrt): return (3 * wrt ** 2 + 1) * direction


def dom_geom(kind, n):
    if kind == 'default': return n
    if kind == 'Continuous1D': return Continuous1D(n)
    if kind == 'Image2D:C': return Image2D((2, n // 2), order='C')
    if kind == 'Image2D:F': return Image2D((2, n // 2), order='F')
    if kind == 'Mapped': return MappedGeometry(Continuous1D(n), map=lambda v: v ** 3 + v, imap=None)
    if kind == 'MappedInv': return MappedGeometry(Continuous1D(n), map=lambda v: 2 * v + 1, imap=lambda f: (f - 1) / 2)
    if kind == 'Step': return StepExpansion(np.linspace(0, 1, 2 * n), n_steps=n)
    if kind == 'KL': return KLExpansion(np.linspace(0, 1, 2 * n), num_modes=n)
    if kind == 'KLfull': return KLExpansion(np.arange(n), num_modes=n)          # as many modes as nodes, default grid: par_dim == fun_dim
    if kind == 'Grad': return GradGeometry(n)
    if kind == 'GradInv': return GradInvGeometry(n)
    raise ValueError(kind)


def _model(c, kind, dom, m, n, gd, gr):
    nf = int(np.prod(gd.fun_shape)) if not isinstance(gd, int) else n
    A = c.mat('A', m, nf); B = c.mat('B', m, nf)
    flat = (lambda v: v.ravel(order='F' if dom.endswith(':F') else 'C')) if dom.startswith('Image2D') else (lambda v: v)
    f = lambda v: A @ (flat(v) ** 2) + B @ flat(v)
    Jt = lambda d, v: ((A * (2 * flat(v)) + B).T @ d)
    shp = gd.fun_shape if not isinstance(gd, int) else None
    back = (lambda g: g.reshape(shp, order='F' if dom.endswith(':F') else 'C')) if dom.startswith('Image2D') else (lambda g: g)
    if kind == 'jacobian':
        if dom.startswith('Image2D'): return None, f
        return Model(lambda x: f(x), gr, gd, jacobian=lambda x: A * (2 * x) + B), f
    if kind == 'gradient':
        return Model(lambda x: f(x), gr, gd, gradient=lambda direction, wrt: back(Jt(direction, wrt))), f
    if kind == 'linear':
        return LinearModel(lambda x: B @ flat(x), lambda y: back(B.T @ y), gr, gd), (lambda v: B @ flat(v))
    if kind == 'nograd':
        return Model(lambda x: f(x), gr, gd), f


def representations(c, kind, dom, m=2, n=2, N=2):
    gd = dom_geom(dom, n); gr = m
    if isinstance(gd, int): gd = cuqi.geometry._DefaultGeometry1D(gd)
    model, f = _model(c, kind, dom, m, n, gd, gr)
    p = c.vec('p', n)
    spec = f(gd.par2fun(p))                       # range geometry is identity-like: parameters == function values
    out = model.forward(p)
    c.eq('forward_of_parameters', out, spec)
    c.holds('plain_input_gives_plain_output', type(out) is np.ndarray or not isinstance(out, CUQIarray))
    c.eq('forward_of_function_values_flagged', model.forward(gd.par2fun(p), is_par=False), spec)
    a = CUQIarray(p.copy(), is_par=True, geometry=gd)
    oa = model.forward(a)
    c.holds('cuqiarray_in_gives_cuqiarray_out_as_range_parameters', isinstance(oa, CUQIarray) and oa.is_par and oa.geometry == model.range_geometry)
    c.eq('forward_of_cuqiarray_parameters', np.asarray(oa), spec)
    # a CUQIarray built WITHOUT a geometry (default geometry) is a plain parameter vector: the model's own domain geometry applies
    if not dom.startswith('Image2D'):
        c.eq('forward_of_default_geometry_cuqiarray_is_forward_of_the_vector', np.asarray(model.forward(CUQIarray(p.copy()))), spec)
        od = model.forward(CUQIarray(p.copy()))
        c.holds('default_geometry_cuqiarray_in_gives_cuqiarray_out_as_range_parameters', isinstance(od, CUQIarray) and od.is_par and od.geometry == model.range_geometry, note=type(od).__name__)
    # history: the same array object is updated in place and used again (as samplers and optimisers do)
    q = c.vec('q', n)
    a[:] = q
    c.eq('forward_of_cuqiarray_after_in_place_update_uses_the_current_values', np.asarray(model.forward(a)), f(gd.par2fun(q)))
    c.eq('funvals_of_cuqiarray_after_in_place_update', np.asarray(a.funvals), gd.par2fun(q))
    af = CUQIarray(gd.par2fun(p), is_par=False, geometry=gd)
    oaf = model.forward(af)
    c.holds('cuqiarray_funvals_in_gives_cuqiarray_out', isinstance(oaf, CUQIarray) and oaf.is_par)
    c.eq('forward_of_cuqiarray_function_values', np.asarray(oaf), spec)
    # the representation flag given as a numpy boolean (what array comparisons return): the same two representations
    c.eq('forward_of_cuqiarray_parameters_flagged_by_a_numpy_bool', np.asarray(model.forward(CUQIarray(p.copy(), is_par=np.True_, geometry=gd))), spec)
    c.eq('forward_of_cuqiarray_function_values_flagged_by_a_numpy_bool', np.asarray(model.forward(CUQIarray(gd.par2fun(p), is_par=np.False_, geometry=gd))), spec)
    # the same function values carried by a DISTINCT geometry object of the same configuration (the user built it a second time): same result,
    # whatever the model's own geometry object has been used for in the meantime
    if dom != 'Grad' and not dom.startswith('Mapped'):
        gd2 = dom_geom(dom, n); gd2 = cuqi.geometry._DefaultGeometry1D(gd2) if isinstance(gd2, int) else gd2
        c.holds('an_equally_configured_geometry_object_compares_equal_after_use', bool(gd2 == gd) and bool(gd == gd2))
        af2 = CUQIarray(gd.par2fun(p), is_par=False, geometry=gd2)
        c.eq('forward_of_function_values_carrying_an_equal_geometry_object', np.asarray(model.forward(af2)), spec)
    c.eq('call_is_forward', model(p), spec)
    P = c.vec('s', n * N).reshape(n, N)
    S = model.forward(Samples(P, gd))
    c.holds('samples_in_gives_samples_out_with_range_geometry', isinstance(S, Samples) and S.geometry == model.range_geometry and S.samples.shape == (m, N))
    for k in range(N):
        c.eq(f'samples_column[{k}]', S.samples[:, k], f(gd.par2fun(P[:, k])))
    # the same collection held as FUNCTION VALUES (Samples.funvals; flag is_par False): the same outputs
    try: SF = Samples(P, gd).funvals
    except Exception: SF = None
    if SF is not None and not SF.is_par:
        S2 = model.forward(SF)
        c.holds('function_value_samples_in_gives_samples_out_with_range_geometry', isinstance(S2, Samples) and S2.geometry == model.range_geometry and S2.samples.shape == (m, N))
        for k in range(N):
            c.eq(f'function_value_samples_column[{k}]', S2.samples[:, k], f(gd.par2fun(P[:, k])))


def gradient(c, kind, dom, m=2, n=2):
    """gradient(direction, wrt) == (d forward / d p)^T direction, or refused"""
    gd = dom_geom(dom, n); gr = m
    if isinstance(gd, int): gd = cuqi.geometry._DefaultGeometry1D(gd)
    model, f = _model(c, kind, dom, m, n, gd, gr)
    p = c.vec('p', n); d = c.vec('d', m)
    identity_like = dom in ('default', 'Continuous1D', 'Image2D:C', 'Image2D:F')
    has_grad = dom in ('Grad', 'GradInv')
    if kind == 'nograd' or not (identity_like or has_grad):
        c.expect_raise('gradient_refused_when_it_cannot_be_formed', lambda: model.gradient(d, p), note=f"{kind} {dom}")
        return
    g = model.gradient(d, p)
    c.holds('gradient_has_domain_parameter_shape', np.shape(g) == (n,), note=str(np.shape(g)))
    spec = c.grad_of(lambda v: np.sum(np.asarray(model.forward(v)) * d), p)
    c.eq('gradient_is_transposed_jacobian_times_direction', g, spec, tol=1e-4)
    w = CUQIarray(p.copy(), is_par=True, geometry=gd)
    c.eq('gradient_wrt_cuqiarray_parameters', np.asarray(model.gradient(d, w)), spec, tol=1e-4)
    q = c.vec('q', n); w[:] = q
    c.eq('gradient_wrt_cuqiarray_after_in_place_update_uses_the_current_values', np.asarray(model.gradient(d, w)),
         c.grad_of(lambda v: np.sum(np.asarray(model.forward(v)) * d), q), tol=1e-4)
    # the linearisation point and the direction given as FUNCTION values (flags of the public signature)
    if identity_like:
        c.eq('gradient_with_wrt_given_as_function_values', np.asarray(model.gradient(d, gd.par2fun(p), is_wrt_par=False)), spec, tol=1e-4)
        c.eq('gradient_with_wrt_given_as_function_form_cuqiarray', np.asarray(model.gradient(d, CUQIarray(gd.par2fun(p), is_par=False, geometry=gd))), spec, tol=1e-4)
    else:
        if dom == 'Grad': c.expect_raise('wrt_as_function_values_refused_without_fun2par', lambda: model.gradient(d, gd.par2fun(p), is_wrt_par=False))
    c.eq('gradient_with_direction_given_as_function_values', np.asarray(model.gradient(model.range_geometry.par2fun(d), p, is_direction_par=False)), spec, tol=1e-4)
    ga = model.gradient(CUQIarray(d, geometry=model.range_geometry), p)
    c.holds('cuqiarray_direction_gives_cuqiarray_gradient', isinstance(ga, CUQIarray))
    c.eq('gradient_of_cuqiarray_direction', np.asarray(ga), spec, tol=1e-4)


def field_models_2d(c, geom, layout):
    """models between 2-D fields (range and domain geometry Continuous2D on a NON-square grid, or Image2D): the user's forward / gradient functions
    hand back 2-D arrays in whatever memory layout numpy / scipy produced them (C order, Fortran order as scipy.linalg.solve returns, a transposed view):
    the model output is the parameter vector of THAT field - element (i, j) at position i*ny + j (Image2D order F: j... per its order) - independent of
    the memory layout; bounded stand-in (native)"""
    from cuqi.geometry import Continuous2D
    nx, ny, mx, my = 2, 3, 3, 2
    if geom == 'Continuous2D':
        gd = Continuous2D((np.linspace(0, 1, nx), np.linspace(0, 1, ny))); gr = Continuous2D((np.linspace(0, 1, mx), np.linspace(0, 1, my)))
        order = 'C'
    else:
        order = geom[-1]; gd = Image2D((nx, ny), order=order); gr = Image2D((mx, my), order=order)
    L = np.array([[c.real(f'L{i}{j}') for j in range(nx)] for i in range(mx)]); R = np.array([[c.real(f'R{i}{j}') for j in range(my)] for i in range(ny)])
    lay = {'C': np.ascontiguousarray, 'F': np.asfortranarray, 'T': lambda a: np.ascontiguousarray(a.T).T}[layout]
    fwd = lambda U: lay(L @ U @ R)                                     # (nx, ny) field -> (mx, my) field
    adj = lambda V: lay(L.T @ V @ R.T)
    p = np.array([c.real(f'p{i}') for i in range(nx * ny)]); d = np.array([c.real(f'd{i}') for i in range(mx * my)])
    U = p.reshape((nx, ny), order=order); V = d.reshape((mx, my), order=order)
    spec = (L @ U @ R).ravel(order=order); gspec = (L.T @ V @ R.T).ravel(order=order)
    for nm, model in (('Model', Model(fwd, gr, gd, gradient=lambda direction, wrt: adj(direction))), ('LinearModel', LinearModel(fwd, adj, gr, gd))):
        out = model.forward(p)
        c.eq(f'{nm}:forward_is_the_parameter_vector_of_the_output_field', np.asarray(out), spec)
        c.eq(f'{nm}:forward_of_function_values', np.asarray(model.forward(lay(U), is_par=False)), spec)
        oa = model.forward(CUQIarray(p.copy(), is_par=True, geometry=gd))
        c.eq(f'{nm}:forward_of_cuqiarray', np.asarray(oa), spec)
        c.eq(f'{nm}:funvals_of_the_output_are_the_output_field', np.asarray(oa.funvals), L @ U @ R)
        S = model.forward(Samples(np.stack([p, 2 * p], axis=-1), gd))
        c.eq(f'{nm}:samples_column[1]', S.samples[:, 1], 2 * spec)
        # the same collection as function values (fields), and as function values in VECTOR form (Samples.funvals.vector): the same outputs
        SP = Samples(np.stack([p, 2 * p], axis=-1), gd)
        for form, coll in (('function_values', lambda: SP.funvals), ('function_values_in_vector_form', lambda: SP.funvals.vector)):
            try: Cc = coll()
            except NotImplementedError: continue                        # (the geometry does not offer this form)
            So = model.forward(Cc)
            c.holds(f'{nm}:samples_as_{form}:sample_collection_out', isinstance(So, Samples) and So.samples.shape == (mx * my, 2), note=str(getattr(getattr(So, 'samples', None), 'shape', None)))
            c.eq(f'{nm}:samples_as_{form}:column[1]', So.samples[:, 1], 2 * spec)
        g = model.gradient(d, p)
        c.eq(f'{nm}:gradient_is_the_parameter_vector_of_the_adjoint_field', np.asarray(g), gspec)
        if nm == 'LinearModel':
            c.eq('LinearModel:adjoint', np.asarray(model.adjoint(d)), gspec)
            M = model.get_matrix(); M = M.toarray() if hasattr(M, 'toarray') else np.asarray(M)
            c.eq('LinearModel:matrix_times_parameters', M @ p, spec)


def same_class_geometries(c, kind):
    """domain and range geometry of the SAME class and parameter shape but not equal (two images of transposed shapes and different orders; two step
    expansions that differ only in the projection option): the model's callable is plain numpy arithmetic, which keeps the array subclass - the output of a
    CUQIarray input therefore still carries the DOMAIN geometry - and the output must nevertheless be converted with the RANGE geometry: all representations
    of the input give the same parameters (bounded stand-in: native)"""
    if kind == 'Image2D_transposed_orders':
        gd = Image2D((2, 3), order='C'); gr = Image2D((3, 2), order='F')
        Lm = np.array([[c.real(f'L{i}{j}') for j in range(2)] for i in range(2)]); Rm = np.array([[c.real(f'R{i}{j}') for j in range(3)] for i in range(3)])
        fwd = lambda X: Rm @ X.T @ Lm; adj = lambda V: (Rm.T @ V @ Lm.T).T
        n, m = 6, 6
        dense = lambda p: (Rm @ p.reshape((2, 3), order='C').T @ Lm).ravel(order='F')
        dense_adj = lambda d: ((Rm.T @ d.reshape((3, 2), order='F') @ Lm.T).T).ravel(order='C')
        model = LinearModel(fwd, adj, gr, gd)
    else:
        grid = np.linspace(0, 1, 6)
        gd = StepExpansion(grid, n_steps=3, fun2par_projection='mean'); gr = StepExpansion(grid, n_steps=3, fun2par_projection='max')
        w = np.array([1.0, 2.0, -1.0, 0.5, 3.0, 1.5]) + 0.1 * np.array([c.real(f'w{i}') for i in range(6)])
        fwd = lambda f: f * w
        n, m = 3, 3
        dense = lambda p: np.asarray(gr.fun2par(w * np.asarray(gd.par2fun(p), dtype=float)))
        model = Model(fwd, gr, gd); dense_adj = None
    p = np.array([c.real(f'p{i}') for i in range(n)])
    spec = dense(p)
    c.eq('forward_of_parameters', np.asarray(model.forward(p)), spec, tol=1e-12)
    oa = model.forward(CUQIarray(p.copy(), is_par=True, geometry=gd))
    c.eq('forward_of_cuqiarray_parameters', np.asarray(oa), spec, tol=1e-12)
    c.holds('output_carries_the_range_geometry', isinstance(oa, CUQIarray) and oa.geometry == gr and not (oa.geometry == gd))
    of = model.forward(CUQIarray(np.asarray(gd.par2fun(p)), is_par=False, geometry=gd))
    c.eq('forward_of_cuqiarray_function_values', np.asarray(of), spec, tol=1e-12)
    c.eq('forward_of_samples_column', model.forward(Samples(np.stack([p, p], axis=-1), gd)).samples[:, 1], spec, tol=1e-12)
    if dense_adj is not None:
        d = np.array([c.real(f'd{i}') for i in range(m)])
        c.eq('adjoint_of_parameters', np.asarray(model.adjoint(d)), dense_adj(d), tol=1e-12)
        c.eq('adjoint_of_cuqiarray_parameters', np.asarray(model.adjoint(CUQIarray(d.copy(), is_par=True, geometry=gr))), dense_adj(d), tol=1e-12)
        # a sample collection through the adjoint: one column per sample, labelled with the geometry the adjoint maps INTO (the model's domain)
        SA = model.adjoint(Samples(np.stack([d, 2 * d], axis=-1), gr))
        c.holds('adjoint_of_samples_is_a_sample_collection_on_the_domain_geometry', isinstance(SA, Samples) and SA.geometry == gd and not (SA.geometry == gr), note=repr(getattr(SA, 'geometry', None)))
        c.eq('adjoint_of_samples_column', SA.samples[:, 1], dense_adj(2 * d), tol=1e-12)
        SFw = model.forward(Samples(np.stack([p, p], axis=-1), gd))
        c.holds('forward_of_samples_is_a_sample_collection_on_the_range_geometry', isinstance(SFw, Samples) and SFw.geometry == gr and not (SFw.geometry == gd), note=repr(getattr(SFw, 'geometry', None)))
        M = model.get_matrix(); M = M.toarray() if hasattr(M, 'toarray') else np.asarray(M)
        c.eq('matrix_times_parameters_is_forward_of_cuqiarray', M @ p, np.asarray(oa), tol=1e-12)


def range_not_identity(c, n=2):
    A = c.mat('A', 2, n)
    model = Model(lambda x: A @ x, MappedGeometry(Continuous1D(2), map=lambda v: v ** 2), n, jacobian=lambda x: A)
    c.expect_raise('gradient_refused_for_non_identity_range', lambda: model.gradient(c.vec('d', 2), c.vec('p', n)))
    model2 = Model(lambda x: A @ x, StepExpansion(np.linspace(0, 1, 4), n_steps=2), n, jacobian=lambda x: A)
    c.expect_raise('gradient_refused_for_expansion_range', lambda: model2.gradient(c.vec('e', 2), c.vec('q', n)))


def mapped_range(c, inner='KL'):
    """range geometry = mapped geometry over an inner geometry whose function-to-parameter map is a genuine projection: the model's
    output is the range PARAMETER vector, i.e. inner.fun2par(imap(function values)), for every input representation"""
    from cuqi.geometry import KLExpansion
    m, n = 6, 2
    if inner == 'KL': gi = KLExpansion(np.linspace(0, 1, m), num_modes=3)
    else: gi = StepExpansion(np.linspace(0, 1, m), n_steps=3, fun2par_projection='mean')
    # (square map for the step expansion: the mean projection does not commute with it)
    fmap, fimap = ((lambda v: 2 * v + 1), (lambda f: (f - 1) / 2)) if inner == 'KL' else ((lambda v: v * v + 1), None)
    gr = MappedGeometry(gi, map=fmap, imap=(fimap if fimap else (lambda f: f - 1)))      # for Step: imap only needs to be what the spec below applies
    B = c.mat('B', m, n)
    model = Model(lambda x: B @ x, gr, n)
    p = c.vec('p', n)
    spec = gi.fun2par(gr.imap(B @ p))
    cc = c
    if inner == 'KL' and c.sym:
        class _A:
            def __init__(s, c): s._c = c
            def __getattr__(s, k): return getattr(s._c, k)
            def eq(s, name, a, b, note='', tol=None, approx=True): return s._c.eq(name, a, b, note=note, tol=tol, approx=True)
        cc = _A(c)
    out = model.forward(p)
    cc.eq('output_is_range_parameters_of_the_function_values', np.asarray(out), spec, tol=1e-7)
    oa = model.forward(CUQIarray(p.copy(), is_par=True, geometry=model.domain_geometry))
    c.holds('cuqiarray_output_is_parameters_with_range_geometry', isinstance(oa, CUQIarray) and oa.is_par and oa.geometry == gr)
    cc.eq('cuqiarray_output_values', np.asarray(oa), spec, tol=1e-7)
    a = CUQIarray(B @ p, is_par=False, geometry=gr)
    cc.eq('function_form_array_converts_to_the_same_parameters', np.asarray(a.parameters), spec, tol=1e-7)


def integer_typed_inputs(c, kind):
    """the value of the input matters, not its storage type: integer-typed vectors, geometry-carrying arrays and sample collections
    give the outputs of the same values stored as floats (bounded stand-in: native, numpy's dtype rules are not modelled)"""
    rng = np.random.default_rng(int(c.real('seed', lo=0, hi=10 ** 6)))
    m, n, N = 3, 4, 3
    A = rng.standard_normal((m, n)) * 0.7
    gd = {'default': lambda: n, 'Step': lambda: StepExpansion(np.linspace(0, 1, 2 * n), n_steps=n), 'Image2D:F': lambda: Image2D((2, 2), order='F')}[kind]()
    nf = 2 * n if kind == 'Step' else n
    A = rng.standard_normal((m, nf)) * 0.7
    flat = (lambda v: v.ravel(order='F')) if kind == 'Image2D:F' else (lambda v: v)
    models = [Model(lambda x: A @ (flat(x) ** 2) + A @ flat(x), m, gd), LinearModel(lambda x: A @ flat(x), lambda y: (A.T @ y).reshape((2, 2), order='F') if kind == 'Image2D:F' else A.T @ y, m, gd)]
    if kind == 'default': models.append(LinearModel(A))
    Xi = rng.integers(-3, 4, size=(n, N)); Xf = Xi.astype(float)
    for k, model in enumerate(models):
        g = model.domain_geometry
        c.eq(f'model[{k}]:integer_vector', np.asarray(model.forward(Xi[:, 0])), np.asarray(model.forward(Xf[:, 0])), tol=1e-12)
        c.eq(f'model[{k}]:integer_cuqiarray', np.asarray(model.forward(CUQIarray(Xi[:, 1], geometry=g))), np.asarray(model.forward(CUQIarray(Xf[:, 1], geometry=g))), tol=1e-12)
        c.eq(f'model[{k}]:integer_samples', model.forward(Samples(Xi, g)).samples, model.forward(Samples(Xf, g)).samples, tol=1e-12)
        c.eq(f'model[{k}]:integer_samples_columnwise', model.forward(Samples(Xi, g)).samples[:, 2], np.asarray(model.forward(Xf[:, 2])), tol=1e-12)
        if isinstance(model, LinearModel):
            Yi = rng.integers(-3, 4, size=(m, N)); Yf = Yi.astype(float)
            c.eq(f'model[{k}]:adjoint_integer_vector', np.asarray(model.adjoint(Yi[:, 0])), np.asarray(model.adjoint(Yf[:, 0])), tol=1e-12)
            c.eq(f'model[{k}]:adjoint_integer_samples', model.adjoint(Samples(Yi, model.range_geometry)).samples, model.adjoint(Samples(Yf, model.range_geometry)).samples, tol=1e-12)


def apply_to_distribution(c, n=2):
    A = c.mat('A', 2, n)
    model = LinearModel(A)
    x = cuqi.distribution.Gaussian(np.zeros(n), 1, name='z')
    before = dict(model.__dict__)
    m2 = model(x)
    c.holds('returns_a_model_of_same_class', type(m2) is type(model) and m2 is not model)
    c.holds('input_is_renamed_to_the_distribution_name', m2._non_default_args == ['z'])
    c.holds('original_model_unchanged', all(model.__dict__[k] is before[k] for k in before) and model._non_default_args == ['x'])
    c.holds('nothing_else_changed', all(m2.__dict__[k] is model.__dict__[k] for k in model.__dict__ if k != '_non_default_args'))
    p = c.vec('p', n)
    c.eq('renamed_model_same_output', m2.forward(z=p), model.forward(p))
    c.expect_raise('dimension_mismatch_refused', lambda: model(cuqi.distribution.Gaussian(np.zeros(n + 1), 1, name='w')))


def jobs(tier):
    J = []
    q = tier == 'quick'
    FL = [f'{M}:Model.forward', f'{M}:Model._apply_func', f'{M}:Model._2fun', f'{M}:Model._2par', 'cuqi.array._array:CUQIarray.funvals',
          'cuqi.array._array:CUQIarray.parameters', 'cuqi.samples._samples:Samples.__iter__']
    GL = [f'{M}:Model.gradient', f'{M}:Model._check_gradient_can_be_computed', f'{M}:Model.__init__']
    doms = ['default', 'Continuous1D', 'Image2D:C', 'Image2D:F', 'Mapped', 'Step', 'Grad']
    for kind in ('jacobian', 'gradient', 'linear'):
        for dom in doms + ['KLfull']:
            n = 4 if dom.startswith('Image2D') else 2
            if kind == 'jacobian' and dom.startswith('Image2D'): continue
            J.append(Job(f'forward:{kind}:domain={dom}', lambda c, k=kind, d=dom, n=n: representations(c, k, d, 2, n), 'Pbox', FL, maxpaths=256))
            if not q:
                for (m2, n2, N2) in ((3, n + 2 if dom.startswith('Image2D') else 3, 3), (1, n, 1)):
                    J.append(Job(f'forward:{kind}:domain={dom}:m={m2}:n={n2}:N={N2}', lambda c, k=kind, d=dom, m2=m2, n2=n2, N2=N2: representations(c, k, d, m2, n2, N2), 'Pbox', FL, maxpaths=256))
    for kind in ('jacobian', 'gradient', 'linear', 'nograd'):
        for dom in doms + ['MappedInv', 'KL', 'GradInv']:
            n = 4 if dom.startswith('Image2D') else 2
            if kind == 'jacobian' and dom.startswith('Image2D'): continue
            J.append(Job(f'gradient:{kind}:domain={dom}', lambda c, k=kind, d=dom, n=n: gradient(c, k, d, 2, n), 'Pbox', GL, rtol=1e-4, maxpaths=256))
            if not q:
                J.append(Job(f'gradient:{kind}:domain={dom}:m=3:n={n + 2 if dom.startswith("Image2D") else 3}', lambda c, k=kind, d=dom, n=n: gradient(c, k, d, 3, n + 2 if d.startswith('Image2D') else 3), 'Pbox', GL, rtol=1e-4, maxpaths=256))
    for inner in ('KL', 'Step'):
        J.append(Job(f'forward:range_geometry=Mapped({inner}):output_is_range_parameters', lambda c, i=inner: mapped_range(c, i), 'Pbox', FL + ['cuqi.geometry._geometry:MappedGeometry.fun2par']))
    for kind in ('default', 'Step', 'Image2D:F'):
        J.append(Job(f'forward:integer_typed_inputs:domain={kind}', lambda c, k=kind: integer_typed_inputs(c, k), 'B', FL, nnum=3))
    J.append(Job('gradient:range_geometry_not_identity', range_not_identity, 'Pbox', GL))
    J.append(Job('forward:applied_to_distribution_only_renames', apply_to_distribution, 'Pbox', [f'{M}:Model.forward']))
    # PDE-based models (assemble / solve / observe and the gradient dispatch through the PDE's Jacobian or gradient hook): contracts live with C18
    from contracts import C18 as _c18
    J += [j for j in _c18.jobs(tier) if j.id.startswith('PDEModel')]
    for kind in ('Image2D_transposed_orders', 'Step_projections'):
        J.append(Job(f'same_class_geometries:{kind}', lambda c, k=kind: same_class_geometries(c, k), 'B',
                     ['cuqi.model._model:Model._2par', 'cuqi.model._model:Model._2fun', 'cuqi.geometry._geometry:Geometry.__eq__', 'cuqi.geometry._geometry:Geometry._all_values_equal'], nnum=3))
    for geom in ('Continuous2D', 'Image2D:C', 'Image2D:F'):
        for layout in ('C', 'F', 'T'):
            J.append(Job(f'field_models_2d:geometry={geom}:memory_layout={layout}', lambda c, g=geom, l=layout: field_models_2d(c, g, l), 'B',
                         ['cuqi.model._model:Model.forward', 'cuqi.model._model:Model.gradient', 'cuqi.model._model:LinearModel.get_matrix',
                          'cuqi.geometry._geometry:Continuous2D.fun2par', 'cuqi.geometry._geometry:Continuous2D.par2fun', 'cuqi.geometry._geometry:Image2D.fun2par'], nnum=3))
    return J
