"""C17 — shipped test problems match their documentation and are internally consistent."""
import numpy as np
import z3
from pvc.runner import Job
from pvc import core, shims
import cuqi
from cuqi.testproblem import Deconvolution1D, Deconvolution2D, Abel1D, WangCubic, Heat1D, Poisson1D

T = 'cuqi.testproblem._testproblem'
EXPLANATION = ("for each shipped problem and option combination (constructed natively with the random draws recorded): forward model == documented operator "
               "(reference convolution from scipy.ndimage applied to unit vectors / documented quadrature / cubic) applied to a SYMBOLIC signal; exactData == forward(exactSolution); "
               "data - exactData == stated noise scale times the recorded standard-normal draw; components handed out refer to the same objects; posterior.logd(x) == Gaussian "
               "log-likelihood of the stated noise + log-prior for symbolic x.")
ASSUMPTIONS = ["scipy.ndimage.convolve1d / convolve applied to unit vectors is taken as the documented convolution with the stated PSF and boundary condition",
               "phantoms and PSF tables are closed floating-point computations (not specified independently)"]


class record_normals:
    """records the standard-normal draws the constructor takes (call-through)"""
    def __enter__(self):
        import numpy.random as nr
        self.nr = nr; self.saved = (nr.randn, nr.normal); self.draws = []
        def randn(*sh):
            z = self.saved[0](*sh); self.draws.append(('randn', z.copy())); return z
        def normal(loc=0.0, scale=1.0, size=None):
            z = self.saved[0](*(size if isinstance(size, tuple) else ((size,) if size else ())))
            self.draws.append(('normal', np.array(z), loc, scale)); return loc + scale * z
        nr.randn = randn; nr.normal = normal
        return self
    def __exit__(self, *a): self.nr.randn, self.nr.normal = self.saved


def mk(cls, **opts):
    def pre():
        import warnings; warnings.filterwarnings('ignore')
        np.random.seed(3)
        with record_normals() as rec:
            tp = getattr(cuqi.testproblem, cls)(**opts)
        return tp, rec.draws
    return pre


def _psf_taps(kind, size, param, beta=1):
    """documented named point-spread functions: the stated profile sampled at the integer offsets -floor(size/2) .. ceil(size/2)-1 (exactly `size` taps), normalised to sum one"""
    k = np.arange(-(size // 2), size - size // 2, dtype=float)
    if kind == 'defocus': f = (k ** 2 <= param ** 2).astype(float)       # out-of-focus blur: uniform on the disc of radius `param` around the centre
    else: f = np.exp(-0.5 * k ** 2 / param ** 2) if kind == 'gauss' else (1 + k ** 2 / param ** 2) ** (-beta)
    return f / f.sum()


def _psf_taps2d(kind, size, param, beta=1):
    k = np.arange(-(size // 2), size - size // 2, dtype=float)
    X, Y = np.meshgrid(k, k)
    if kind == 'defocus': f = (X ** 2 + Y ** 2 <= param ** 2).astype(float)
    elif kind == 'gauss': f = np.exp(-0.5 * (X ** 2 + Y ** 2) / param ** 2)
    else: f = (1 + (X ** 2 + Y ** 2) / param ** 2) ** (-beta)
    return f / f.sum()


def _ref1d(dim, P, BC):
    from scipy.ndimage import convolve1d
    mode = {'zero': 'constant', 'periodic': 'wrap', 'mirror': 'mirror', 'reflect': 'reflect', 'nearest': 'nearest'}[BC.lower()]
    I = np.eye(dim)
    return np.array([convolve1d(I[:, i], P, mode=mode) for i in range(dim)]).T        # column i = operator applied to e_i


def _ref2d(dim, P, BC):
    from scipy.ndimage import convolve
    mode = {'zero': 'constant', 'periodic': 'wrap', 'mirror': 'mirror', 'neumann': 'reflect', 'nearest': 'nearest'}[BC.lower()]
    cols = []
    for i in range(dim * dim):
        E = np.zeros(dim * dim); E[i] = 1
        cols.append(convolve(E.reshape(dim, dim), P, mode=mode).ravel())
    return np.array(cols).T


def _ref2d_index_sums(dim, P, BC):
    """periodic / zero-boundary convolution written out as index sums (PSF origin at size//2): also for a PSF that is larger than the image (several wraps)"""
    s0, s1 = P.shape; c0, c1 = s0 // 2, s1 // 2
    M = np.zeros((dim * dim, dim * dim))
    for i in range(dim):
        for j in range(dim):
            for a in range(s0):
                for b in range(s1):
                    k, l = i - (a - c0), j - (b - c1)
                    if BC == 'periodic': k %= dim; l %= dim
                    elif not (0 <= k < dim and 0 <= l < dim): continue
                    M[i * dim + j, k * dim + l] += P[a, b]
    return M


def deconv2d_large_psf(c, dim, BC, PSF):
    """point-spread function LARGER than the image (the default 21 x 21 PSF on a small image; PSF_size > dim): the forward model is still the documented
    convolution with the whole PSF (periodic: wrapped around as often as needed), and exactData = forward(exactSolution) (bounded stand-in: native)"""
    tp, draws = c.pre
    x = c.vec('x', dim * dim)
    P = _psf_taps2d(*PSF)
    c.eq('forward_model_is_documented_convolution', tp.model.forward(x), _ref2d_index_sums(dim, P, BC) @ x, tol=1e-9)
    c.eq('exact_data_is_the_documented_operator_applied_to_exact_solution', np.asarray(tp.exactData, dtype=float).reshape(-1),
         _ref2d_index_sums(dim, P, BC) @ np.asarray(tp.exactSolution, dtype=float).reshape(-1), tol=1e-9)


def _consistency(c, tp, draws, noise_kind, noise_std, x):
    """shared clauses: exact data, noise, components, posterior"""
    model = tp.model
    c.eq('exact_data_is_model_applied_to_exact_solution', np.asarray(tp.exactData), np.asarray(model.forward(tp.exactSolution)), tol=1e-9)
    m, d, info = tp.get_components()
    c.holds('components_are_the_same_objects', m is tp.model and np.array_equal(np.asarray(d), np.asarray(tp.data)) and tp.likelihood.model is tp.model)
    c.holds('posterior_refers_to_same_likelihood_and_prior', tp.posterior.likelihood is tp.likelihood and tp.posterior.prior is tp.prior)
    e = np.asarray(draws[-1][1]).reshape(-1)
    y = np.asarray(tp.exactData, dtype=float).reshape(-1)
    scale = noise_std if noise_kind == 'gaussian' else (np.abs(y) * noise_std if noise_kind == 'scaledgaussian' else noise_std)
    c.eq('data_is_exact_data_plus_stated_noise_scale_times_standard_normal_draw', np.asarray(tp.data, dtype=float).reshape(-1), y + scale * e, tol=1e-9)
    # posterior = Gaussian log-likelihood of the stated noise + log-prior, symbolic x
    var = (scale * np.ones(len(y))) ** 2
    Fx = np.asarray(model.forward(x))
    pi = shims.NP.pi if c.sym else np.pi
    dd = np.asarray(tp.data, dtype=float).reshape(-1)
    loglik = np.sum(-0.5 * (np.log(2 * pi) + np.log(var)) - 0.5 * (dd - Fx) ** 2 / var)
    c.eq('posterior_logd_is_stated_gaussian_loglikelihood_plus_logprior', tp.posterior.logd(x), loglik + tp.prior.logd(x), tol=1e-7, approx=True)


def deconv1d(c, dim, BC, PSF, noise_kind, legacy=False):
    tp, draws = c.pre
    if c.sym: shims.symbolize_operators(tp.model)
    x = c.vec('x', dim)
    P = PSF if isinstance(PSF, np.ndarray) else _psf_taps(*PSF) if isinstance(PSF, tuple) else None      # named PSFs: taps from the documented formula, not from the library's generator
    if P is not None and not legacy:
        c.eq('forward_model_is_documented_convolution', tp.model.forward(x), _ref1d(dim, P, BC) @ x, tol=1e-9, approx=True)
    if P is not None and legacy:
        # legacy (matrix) form with a custom PSF of length dim: the periodic convolution with the PSF centred at dim//2 - the operator the non-legacy form has
        ref = np.array([[P[(i - j + dim // 2) % dim] for j in range(dim)] for i in range(dim)])
        c.eq('forward_model_is_documented_convolution', tp.model.forward(x), ref @ x, tol=1e-9, approx=True)
    _consistency(c, tp, draws, noise_kind, 0.05, x)


def deconv2d(c, dim, BC, PSF, noise_kind):
    tp, draws = c.pre
    x = c.vec('x', dim * dim)
    P = PSF if isinstance(PSF, np.ndarray) else _psf_taps2d(*PSF) if isinstance(PSF, tuple) else tp.Miscellaneous['PSF']      # named PSFs: taps from the documented profile
    if P.shape[0] % 2 == 1:
        c.eq('forward_model_is_documented_convolution', tp.model.forward(x), _ref2d(dim, P, BC) @ x, tol=1e-9, approx=True)
    _consistency(c, tp, draws, noise_kind, 0.05, x)


def integer_typed_signal(c, which):
    """the shipped forward models are functions of the VALUES of the signal: an integer-typed signal (label image, mask, counts) gives
    the output of the same values stored as floats, and a problem built from an integer-typed phantom has exactData = model(phantom)
    (bounded stand-in: native, numpy's dtype rules are not modelled)"""
    rng = np.random.default_rng(int(c.real('seed', lo=0, hi=10 ** 6)))
    if which == 'Deconvolution2D':
        for BC in ('periodic', 'zero'):
            ph = rng.integers(0, 5, size=(6, 6))
            import warnings; warnings.filterwarnings('ignore')
            tp = Deconvolution2D(dim=6, PSF_size=3, BC=BC, phantom=ph, noise_std=0.01)
            tf = Deconvolution2D(dim=6, PSF_size=3, BC=BC, phantom=ph.astype(float), noise_std=0.01)
            xi = rng.integers(-3, 4, size=36)
            c.eq(f'{BC}:forward_of_integer_image', np.asarray(tp.model.forward(xi)), np.asarray(tp.model.forward(xi.astype(float))), tol=1e-12)
            c.eq(f'{BC}:adjoint_of_integer_image', np.asarray(tp.model.adjoint(xi)), np.asarray(tp.model.adjoint(xi.astype(float))), tol=1e-12)
            c.eq(f'{BC}:exact_data_of_integer_phantom', np.asarray(tp.exactData), np.asarray(tf.exactData), tol=1e-12)
            c.eq(f'{BC}:exact_data_is_model_of_exact_solution', np.asarray(tp.exactData), np.asarray(tp.model.forward(np.asarray(tp.exactSolution, dtype=float))), tol=1e-12)
    else:
        mkp = {'Deconvolution1D': lambda ph: Deconvolution1D(dim=8, PSF_size=3, BC='zero', phantom=ph, noise_std=0.01), 'Abel1D': None}[which]
        ph = rng.integers(0, 5, size=8)
        tp = mkp(ph); tf = mkp(ph.astype(float))
        xi = rng.integers(-3, 4, size=8)
        c.eq('forward_of_integer_signal', np.asarray(tp.model.forward(xi)), np.asarray(tp.model.forward(xi.astype(float))), tol=1e-12)
        c.eq('exact_data_of_integer_phantom', np.asarray(tp.exactData), np.asarray(tf.exactData), tol=1e-12)
        c.eq('exact_data_is_model_of_exact_solution', np.asarray(tp.exactData), np.asarray(tp.model.forward(np.asarray(tp.exactSolution, dtype=float))), tol=1e-12)


def abel(c, dim, endpoint=1.0):
    tp, draws = c.pre
    x = c.vec('x', dim)
    h = endpoint / dim                                   # mid-point quadrature on [0, endpoint]
    t = h * (np.arange(dim) + 0.5); s = t + h / 2
    A = np.array([[h / np.sqrt(abs(s[i] - t[j])) if t[j] < s[i] else 0.0 for j in range(dim)] for i in range(dim)])
    c.eq('forward_model_is_documented_abel_quadrature', tp.model.forward(x), A @ x, tol=1e-9, approx=True)
    y = np.asarray(tp.exactData, dtype=float)
    sigma = np.linalg.norm(y) / 100
    _consistency(c, tp, draws, 'snr', sigma, x)


def wang(c, data='default'):
    ns = c.real('noise_std', pos=True)
    if data == 'default': tp = WangCubic(noise_std=ns); obs = 1
    elif data == 'zero': tp = WangCubic(noise_std=ns, data=0); obs = 0
    else: obs = c.real('obs'); tp = WangCubic(noise_std=ns, data=obs)
    c.eq('data_is_the_supplied_observation', np.asarray(tp.data).reshape(-1)[0] if not isinstance(tp.data, (int, float, core.SReal)) else tp.data, obs)
    x = c.vec('x', 2)
    cubic = 10 * x[1] - 10 * x[0] ** 3 + 5 * x[0] ** 2 + 6 * x[0]
    c.eq('forward_model_is_documented_cubic', tp.model.forward(x), cubic)
    d = c.vec('d', 1)
    c.eq('model_gradient_is_derivative_of_the_cubic', tp.model.gradient(d, x), c.grad_of(lambda v: (10 * v[1] - 10 * v[0] ** 3 + 5 * v[0] ** 2 + 6 * v[0]) * d[0], x), tol=1e-4)
    pi = shims.NP.pi if c.sym else np.pi
    c.eq('posterior_logd_is_stated_gaussian_loglikelihood_plus_logprior', tp.posterior.logd(x),
         -0.5 * np.log(2 * pi * ns ** 2) - 0.5 * (obs - cubic) ** 2 / ns ** 2 + tp.prior.logd(x), tol=1e-7)
    c.holds('components_consistent', tp.likelihood.model is tp.model and tp.posterior.prior is tp.prior)


def pde_problem(c, which, dim):
    tp, draws = c.pre
    y = np.asarray(tp.exactData, dtype=float)
    c.eq('exact_data_is_model_applied_to_exact_solution', y, np.asarray(tp.model.forward(tp.exactSolution, is_par=False) if not tp.exactSolution.is_par else tp.model.forward(tp.exactSolution)), tol=1e-9)
    e = np.asarray(draws[-1][1]).reshape(-1)
    sigma = np.linalg.norm(y) / 200 if which == 'Poisson1D' else None
    if sigma is not None:
        c.eq('data_is_exact_data_plus_stated_noise_scale_times_standard_normal_draw', np.asarray(tp.data, dtype=float), y + sigma * e, tol=1e-9)
    m, d, info = tp.get_components()
    c.holds('components_are_the_same_objects', m is tp.model and tp.likelihood.model is tp.model and tp.posterior.prior is tp.prior)
    xp = np.asarray(tp.exactSolution.parameters if hasattr(tp.exactSolution, 'parameters') else tp.exactSolution, dtype=float) * (1 + 0.01 * np.array([c.real(f'p{i}', lo=-1, hi=1) for i in range(tp.model.domain_dim)]))
    var = float(np.asarray(tp.likelihood.distribution.cov).ravel()[0])
    Fx = np.asarray(tp.model.forward(xp)); dd = np.asarray(tp.data, dtype=float)
    loglik = np.sum(-0.5 * np.log(2 * np.pi * var) - 0.5 * (dd - Fx) ** 2 / var)
    c.eq('posterior_logd_is_gaussian_loglikelihood_plus_logprior', tp.posterior.logd(xp), loglik + tp.prior.logd(xp), tol=1e-7)
    if sigma is not None: c.holds('stated_noise_level', abs(var - sigma ** 2) <= 1e-12 * max(1, sigma ** 2))


def field_map_option(c, which, field_type):
    """the `map` option of the PDE-type test problems with every field type: the forward model applied to parameters p is the model WITHOUT map applied to the
    function values map(field(p)) (documented: "mapping used to modify field"), and the domain geometry is a mapped geometry around the requested field
    geometry (bounded stand-in: native)"""
    import warnings, io, contextlib
    cls = getattr(cuqi.testproblem, which)
    fp = {'Step': dict(n_steps=4), 'KL': dict(num_modes=4), None: None}[field_type]
    mp = lambda v: np.exp(0.3 * v) + 0.5; imp = lambda f: np.log(f - 0.5) / 0.3
    kw = dict(dim=8, field_type=field_type, field_params=fp)
    with warnings.catch_warnings(), contextlib.redirect_stdout(io.StringIO()):
        warnings.simplefilter('ignore'); np.random.seed(2)
        tp = cls(map=mp, imap=imp, **kw); tp0 = cls(**kw)               # with the DEFAULT exact solution of every field type
    g, g0 = tp.model.domain_geometry, tp0.model.domain_geometry
    c.holds('domain_geometry_is_the_mapped_field_geometry', isinstance(g, cuqi.geometry.MappedGeometry) and type(g.geometry) is type(g0), note=f"{type(g).__name__} around {type(getattr(g, 'geometry', None)).__name__} vs {type(g0).__name__}")
    p = 0.5 + np.array([abs(c.real(f'p{i}')) for i in range(g0.par_dim)])
    with warnings.catch_warnings():
        warnings.simplefilter('ignore')
        out = np.asarray(tp.model.forward(p), dtype=float)
        ref = np.asarray(tp0.model.forward(mp(np.asarray(g0.par2fun(p), dtype=float)), is_par=False), dtype=float)
    c.eq('forward_applies_the_map_to_the_field_before_solving', out, ref, tol=1e-9)
    with warnings.catch_warnings():
        warnings.simplefilter('ignore')
        c.eq('exact_data_is_the_forward_model_applied_to_the_default_exact_solution', np.asarray(tp.exactData, dtype=float), np.asarray(tp.model.forward(tp.exactSolution), dtype=float), tol=1e-9)


def jobs(tier):
    J = []
    q = tier == 'quick'
    asym3 = np.array([0.5, 0.3, 0.45]); asym4 = np.array([0.4, 0.3, 0.2, 0.35])       # (custom PSFs that do NOT sum to one: used as given)
    F1 = [f'{T}:Deconvolution1D.__init__', f'{T}:_getConvolutionOperator', 'cuqi.problem._problem:BayesianProblem.get_components']
    for BC in ('periodic', 'zero', 'Mirror', 'reflect', 'Nearest'):
        named = (('gauss5', ('gauss', 5, 1.0)), ('gauss4', ('gauss', 4, 1.5)), ('moffat5', ('moffat', 5, 1.5)), ('defocus5', ('defocus', 5, 1.5)), ('defocus4', ('defocus', 4, 1.2)), ('defocus5_radius0', ('defocus', 5, 0))) + (() if q else (('moffat6', ('moffat', 6, 2.0)), ('gauss3', ('gauss', 3, 3.0))))
        for (nm, PSF) in (('asym3', asym3), ('asym4', asym4)) + named:
            for nk in ('gaussian', 'scaledgaussian'):
                if q and nk == 'scaledgaussian' and nm != 'asym3': continue
                if q and isinstance(PSF, tuple) and BC not in ('periodic', 'zero'): continue
                opts = dict(dim=6, PSF=PSF, BC=BC, noise_type=nk, noise_std=0.05)
                if isinstance(PSF, tuple): opts.update(PSF=PSF[0], PSF_size=PSF[1], PSF_param=PSF[2])
                J.append(Job(f'Deconvolution1D:BC={BC}:PSF={nm}:noise={nk}', lambda c, BC=BC, PSF=PSF, nk=nk: deconv1d(c, 6, BC, PSF, nk),
                             'Pbox', F1 + ([f'{T}:_createPSF_1D'] if isinstance(PSF, tuple) else []), pre=mk('Deconvolution1D', **opts), rtol=1e-7))
    J.append(Job('Deconvolution1D:legacy_circulant', lambda c: deconv1d(c, 6, 'periodic', None, 'gaussian', True), 'Pbox', F1 + [f'{T}:_getCirculantMatrix'],
                 pre=mk('Deconvolution1D', dim=6, use_legacy=True, noise_std=0.05), rtol=1e-7))
    asym6 = np.array([0.02, 0.1, 0.3, 0.65, 0.15, 0.03])
    J.append(Job('Deconvolution1D:legacy_circulant:custom_asymmetric_PSF', lambda c: deconv1d(c, 6, 'periodic', asym6, 'gaussian', True), 'Pbox', F1 + [f'{T}:_getCirculantMatrix'],
                 pre=mk('Deconvolution1D', dim=6, PSF=asym6, use_legacy=True, noise_std=0.05), rtol=1e-7))
    F2 = [f'{T}:Deconvolution2D.__init__', f'{T}:_proj_forward_2D']
    a3 = np.array([[0.1, 0.2, 0.05], [0.05, 0.55, 0.1], [0.02, 0.1, 0.08]])       # (entries do NOT sum to one: a custom PSF is used as given, not rescaled)
    for BC in ('periodic', 'zero') + (() if q else ('Neumann', 'Mirror', 'Nearest')):
        for nk in ('gaussian', 'scaledgaussian'):
            J.append(Job(f'Deconvolution2D:BC={BC}:PSF=asym3x3:noise={nk}', lambda c, BC=BC, nk=nk: deconv2d(c, 4, BC, a3, nk), 'Pbox', F2,
                         pre=mk('Deconvolution2D', dim=4, PSF=a3, BC=BC, noise_type=nk, noise_std=0.05, phantom=np.abs(np.arange(16.0).reshape(4, 4)) / 16 + 0.2), rtol=1e-7, timeout=600))
    for (nm, PSF) in (('gauss3', ('gauss', 3, 1.0)), ('moffat5', ('moffat', 5, 1.5)), ('defocus5', ('defocus', 5, 1.5)), ('defocus3', ('defocus', 3, 1.0))):
        for BC in ('periodic', 'zero'):
            if q and BC == 'zero' and nm in ('gauss3', 'defocus3'): continue
            J.append(Job(f'Deconvolution2D:BC={BC}:PSF={nm}:noise=gaussian', lambda c, BC=BC, PSF=PSF: deconv2d(c, 5, BC, PSF, 'gaussian'), 'Pbox', F2 + [f'{T}:_GaussPSF', f'{T}:_MoffatPSF', f'{T}:_DefocusPSF'],
                         pre=mk('Deconvolution2D', dim=5, PSF=PSF[0], PSF_size=PSF[1], PSF_param=PSF[2], BC=BC, noise_type='gaussian', noise_std=0.05, phantom=np.abs(np.arange(25.0).reshape(5, 5)) / 25 + 0.2), rtol=1e-7, timeout=600))
    for (nm, PSF, dim) in (('gauss7', ('gauss', 7, 1.5), 4), ('moffat9', ('moffat', 9, 2.0), 4), ('gauss21', ('gauss', 21, 2.56), 5)):
        for BC in ('periodic', 'zero'):
            J.append(Job(f'Deconvolution2D:BC={BC}:PSF={nm}:larger_than_the_image:dim={dim}', lambda c, BC=BC, PSF=PSF, dim=dim: deconv2d_large_psf(c, dim, BC, PSF), 'B', F2,
                         pre=mk('Deconvolution2D', dim=dim, PSF=PSF[0], PSF_size=PSF[1], PSF_param=PSF[2], BC=BC, noise_type='gaussian', noise_std=0.05,
                                phantom=np.abs(np.arange(float(dim * dim)).reshape(dim, dim)) / (dim * dim) + 0.2), nnum=2))
    J.append(Job('Abel1D:dim=5', lambda c: abel(c, 5), 'Pbox', [f'{T}:Abel1D.__init__'], pre=mk('Abel1D', dim=5), rtol=1e-7))
    for ep in ((2.0,) if q else (0.5, 2.0, 3.0)):
        J.append(Job(f'Abel1D:dim=6:endpoint={ep}', lambda c, ep=ep: abel(c, 6, ep), 'Pbox', [f'{T}:Abel1D.__init__'], pre=mk('Abel1D', dim=6, endpoint=ep), rtol=1e-7))
    for which in ('Deconvolution2D', 'Deconvolution1D'):
        J.append(Job(f'{which}:integer_typed_signal_and_phantom', lambda c, w=which: integer_typed_signal(c, w), 'B', [f'{T}:_proj_forward_2D', f'{T}:{which}.__init__'], nnum=2))
    J.append(Job('WangCubic', wang, 'Pbox', [f'{T}:WangCubic.__init__'], rtol=1e-6))
    for dk in ('zero', 'symbolic'):
        J.append(Job(f'WangCubic:data={dk}', lambda c, dk=dk: wang(c, dk), 'Pbox', [f'{T}:WangCubic.__init__'], rtol=1e-6))
    for which in ('Heat1D', 'Poisson1D'):
        for ft in (None, 'Step', 'KL'):
            J.append(Job(f'{which}:map_option:field_type={ft}', lambda c, w=which, ft=ft: field_map_option(c, w, ft), 'B', [f'{T}:{which}.__init__'], nnum=2))
    J.append(Job('Poisson1D:dim=8', lambda c: pde_problem(c, 'Poisson1D', 8), 'B', [f'{T}:Poisson1D.__init__'], pre=mk('Poisson1D', dim=8), nnum=3))
    J.append(Job('Heat1D:dim=8', lambda c: pde_problem(c, 'Heat1D', 8), 'B', [f'{T}:Heat1D.__init__'], pre=mk('Heat1D', dim=8), nnum=3))
    return J
