"""C18 — PDE models solve the discretised equations given and observe them consistently."""
import types
import numpy as np
import z3
from pvc.runner import Job
from pvc import core, shims, loops
from pvc.shims import Forward
import cuqi
from cuqi.pde import SteadyStateLinearPDE, TimeDependentLinearPDE
from cuqi.model import PDEModel
import cuqi.pde._pde as PD

P = 'cuqi.pde._pde'
EXPLANATION = ("steady: the system handed to the linear solver is the one assembled for the latest parameter, extra solver returns are passed through; "
               "time-dependent: u_0 = u0(theta, t_0), forward Euler u_{k+1} = (I + dt_k A(t_k)) u_k + dt_k f(t_k), backward Euler (I - dt_k A(t_{k+1})) u_{k+1} = u_k + dt_k f(t_{k+1}) "
               "with symbolic non-uniform time stamps and uninterpreted operator / source / initial condition; the recurrence also proved once on the cut loop body (any number of steps); "
               "observe = restriction at coinciding nodes/times else interpolation of exactly (grid, times, solution) at (grid_obs, time_obs), observation map last; PDEModel = observe o solve o assemble.")
ASSUMPTIONS = ["the linear solver returns a solution of the system it is given (callee contract; any solver with that contract)",
               "interpolation accuracy is scipy's (the interpolant is an opaque object recording nodes, data and evaluation points)"]


class Interp:
    """opaque interpolant recording its nodes, data and evaluation points"""
    log = []
    def __init__(self, *args, **kw):
        self.args = args; self.kw = kw
    def __call__(self, *pts):
        Interp.log.append((self.args, self.kw, pts))
        shape = tuple(len(p) for p in pts)
        tag = len(Interp.log)
        return np.array([core.SReal(z3.Real(f'interp{tag}_{i}')) for i in range(int(np.prod(shape)))], dtype=object).reshape(shape)


def _extra():
    sc = Forward(PD.scipy, 'scipy')
    object.__setattr__(sc, 'interpolate', types.SimpleNamespace(RectBivariateSpline=Interp))
    object.__setattr__(sc, 'linalg', shims.SPLinalg())
    return {P: dict(interp1d=Interp, scipy=sc)}


class Solver:
    """callee contract of linalg_solve: returns u (optionally with extra values) such that A u = b; records its arguments"""
    def __init__(self, c, extra=0): self.c = c; self.calls = []; self.extra = extra; self.sols = []
    def __call__(self, A, b, **kw):
        self.calls.append((np.array(A, dtype=object if self.c.sym else float), np.array(b, dtype=object if self.c.sym else float), kw))
        if self.c.sym:
            u = np.array([core.SReal(core.fresh('u')) for _ in range(len(b))], dtype=object)
        else:
            u = np.linalg.solve(np.asarray(A, dtype=float), np.asarray(b, dtype=float))
        self.sols.append(u)
        return (u,) + tuple(f'info{k}' for k in range(self.extra)) if self.extra else u


def _form(c, n, time=False):
    """uninterpreted operator / source / initial condition as functions of the parameter (and time)"""
    def A(th, *t): return np.array([[c.uf(f'A{i}{j}', *th, *t) for j in range(n)] for i in range(n)], dtype=object if c.sym else float)
    def f(th, *t): return np.array([c.uf(f'f{i}', *th, *t) for i in range(n)], dtype=object if c.sym else float)
    def u0(th, *t): return np.array([c.uf(f'u0{i}', *th, *t) for i in range(n)], dtype=object if c.sym else float)
    return A, f, u0


def steady(c, n=2, extra=0):
    A, f, _ = _form(c, n)
    th1, th2 = c.vec('th1', 2), c.vec('th2', 2)
    sol = Solver(c, extra)
    pde = SteadyStateLinearPDE(lambda th: (A(th), f(th)), linalg_solve=sol, linalg_solve_kwargs=dict(opt=3))
    c.expect_raise('solve_before_assemble_refused', lambda: SteadyStateLinearPDE(lambda th: (A(th), f(th)), linalg_solve=sol).solve())
    sol.calls.clear(); sol.sols.clear()
    pde.assemble(th1); pde.assemble(th2)
    u, info = pde.solve()
    c.holds('solver_called_once_with_its_keyword_arguments', len(sol.calls) == 1 and sol.calls[0][2] == dict(opt=3))
    c.eq('system_matrix_is_the_one_assembled_for_the_latest_parameter', sol.calls[0][0], A(th2))
    c.eq('right_hand_side_is_the_one_assembled_for_the_latest_parameter', sol.calls[0][1], f(th2))
    c.holds('returned_solution_is_the_solvers', u is sol.sols[0])
    c.holds('extra_solver_returns_passed_through', info == (tuple(f'info{k}' for k in range(extra)) if extra else None), note=str(info))
    if not c.sym: c.eq('returned_solution_satisfies_the_assembled_system', A(th2) @ u, f(th2))


def default_solver(c, kind, n=3):
    """no linear solver supplied (the library's default is used), NON-symmetric operator: the returned solution satisfies the assembled system / each
    backward-Euler level satisfies its recurrence (bounded stand-in: native, residual check)"""
    def A(th): return np.array([[(2.0 + abs(c.real(f'a{i}'))) if i == j else c.real(f'A{i}{j}', lo=-0.5, hi=0.5) for j in range(n)] for i in range(n)]) * (1 + th[0] ** 2)
    def f(th): return np.array([c.real(f'f{i}') for i in range(n)]) + th[1]
    th = np.array([c.real('th0'), c.real('th1')])
    if kind == 'steady':
        pde = SteadyStateLinearPDE(lambda p: (A(p), f(p)))
        pde.assemble(th); u, info = pde.solve()
        c.eq('returned_solution_satisfies_the_assembled_system', A(th) @ np.asarray(u), f(th), tol=1e-9)
    else:
        times = np.array([0.0, 0.3, 0.4, 1.0])
        u0 = np.array([c.real(f'u0{i}') for i in range(n)])
        pde = TimeDependentLinearPDE(lambda p, t: (-A(p) * (1 + t), f(p) * (1 - t), u0), times, method='backward_euler')
        pde.assemble(th); u, info = pde.solve()
        c.eq('initial_level_is_initial_condition', u[:, 0], u0, tol=0)
        for k in range(len(times) - 1):
            dt = times[k + 1] - times[k]; t1 = times[k + 1]
            c.eq(f'level[{k + 1}]_satisfies_the_backward_euler_recurrence', (np.eye(n) + dt * A(th) * (1 + t1)) @ u[:, k + 1], u[:, k] + dt * f(th) * (1 - t1), tol=1e-9)


def pde_model_table_observation(c, range_kind, time_obs):
    """PDE-based model whose observation is a TABLE (observation nodes x observation times: time_obs='all' or several explicit times) with a 2-D range
    geometry: the model output is the parameter vector of that table in the range geometry (entry (node i, time k) at position i*n_t + k for the
    row-major geometries), for plain, CUQIarray and Samples input; `funvals` of the output is the table itself (bounded stand-in: native)"""
    from cuqi.geometry import Continuous2D, Image2D
    from cuqi.model import PDEModel
    from cuqi.array import CUQIarray
    from cuqi.samples import Samples
    n = 5                                                    # (the library interpolates with cubic splines: at least four nodes and four time levels)
    times = np.array([0.0, 0.2, 0.5, 0.6, 0.8])
    tobs = 'all' if time_obs == 'all' else times[[1, 3]].copy()
    nt = 5 if time_obs == 'all' else 2
    grid = np.linspace(0, 1, n)
    D = -2.0 * np.eye(n) + np.eye(n, k=1) + np.eye(n, k=-1); D[-1, -1] = -2.5
    pde = TimeDependentLinearPDE(lambda p, t: (D * (1 + 0.1 * t), 0.2 * p * (1 - t), p), times, time_obs=tobs, grid_sol=grid, grid_obs=grid, method='backward_euler')
    gr = Continuous2D((grid, times if time_obs == 'all' else tobs)) if range_kind == 'Continuous2D' else Image2D((n, nt))
    model = PDEModel(pde, range_geometry=gr, domain_geometry=n)
    p = np.array([c.real(f'p{i}') for i in range(n)])
    pde.assemble(p); sol, _ = pde.solve(); table = np.asarray(pde.observe(sol), dtype=float)
    c.holds('harness:observation_is_a_table', table.shape == (n, nt), note=str(table.shape))
    out = model.forward(p)
    c.eq('model_output_is_the_parameter_vector_of_the_observed_table', np.asarray(out), table.ravel(), tol=1e-12)
    oa = model.forward(CUQIarray(p.copy(), geometry=model.domain_geometry))
    c.eq('function_values_of_the_output_are_the_observed_table', np.asarray(oa.funvals), table, tol=1e-12)
    S = model.forward(Samples(np.stack([p, 0.5 * p], axis=-1), model.domain_geometry))
    pde.assemble(0.5 * p); sol2, _ = pde.solve(); table2 = np.asarray(pde.observe(sol2), dtype=float)
    c.eq('samples_column[1]_is_the_parameter_vector_of_its_observed_table', S.samples[:, 1], table2.ravel(), tol=1e-12)
    # an interior observation time coincides with a time level: that column of the table is the solution at that level
    k = 1 if time_obs == 'all' else 0                       # the table column that belongs to time level 1 (times[1])
    c.eq('table_column_at_a_coinciding_time_is_the_solution_level', table[:, k], np.asarray(sol)[:, 1], tol=1e-7)


def matrix_valued_solver(c, n=4):
    """'all linear solvers': a user solver built on numpy matrix objects (np.asmatrix(A).I * b and the like hand the solution back as a 1 x N row or an
    N x 1 column matrix, with or without extra return values): every unknown of the returned solution is there and the solution satisfies the assembled
    system (bounded stand-in: native)"""
    A = np.array([[(3.0 + abs(c.real(f'a{i}'))) if i == j else c.real(f'A{i}{j}', lo=-0.5, hi=0.5) for j in range(n)] for i in range(n)])
    f = np.array([c.real(f'f{i}') for i in range(n)])
    for nm, solver in (('row_matrix', lambda M, b: np.asmatrix(np.linalg.solve(M, b))), ('column_matrix', lambda M, b: np.asmatrix(np.linalg.solve(M, b)).T),
                       ('row_matrix_with_extra_return', lambda M, b: (np.asmatrix(np.linalg.solve(M, b)), 'info'))):
        pde = SteadyStateLinearPDE(lambda p: (A * (1 + p[0] ** 2), f + p[1]), linalg_solve=solver)
        th = np.array([c.real('th0'), c.real('th1')])
        pde.assemble(th); u, info = pde.solve()
        uv = np.asarray(u, dtype=float).reshape(-1)
        c.holds(f'{nm}:solution_has_one_entry_per_unknown', uv.size == n, note=f"{uv.size} entries for {n} unknowns")
        if uv.size == n: c.eq(f'{nm}:returned_solution_satisfies_the_assembled_system', (A * (1 + th[0] ** 2)) @ uv, f + th[1], tol=1e-9)


def steady_observe(c, n=3, same_grid=True, obsmap=True):
    A, f, _ = _form(c, n)
    grid = np.linspace(0, 1, n); gobs = grid if same_grid else np.linspace(0.1, 0.9, 2)
    om = (lambda v: v ** 2) if obsmap else None
    pde = SteadyStateLinearPDE(lambda th: (A(th), f(th)), grid_sol=grid, grid_obs=gobs, observation_map=om, linalg_solve=Solver(c))
    u = c.vec('u', n)
    Interp.log.clear()
    out = pde.observe(u)
    if same_grid:
        c.holds('no_interpolation_at_coinciding_nodes', len(Interp.log) == 0)
        c.eq('observation_is_restriction_then_map', out, om(u) if om else u)
    elif c.sym:
        c.holds('interpolant_built_from_solution_grid_and_solution', len(Interp.log) == 1 and Interp.log[0][0][0] is grid and Interp.log[0][0][1] is u)
        c.holds('interpolant_evaluated_on_the_observation_grid', Interp.log[0][2][0] is gobs)
        raw = np.array([core.SReal(z3.Real(f'interp1_{i}')) for i in range(len(gobs))], dtype=object)
        c.eq('observation_map_applied_last', out, om(raw) if om else raw)


def grid_flag_invariant(c):
    """representation invariant of the observation branch selector: after ANY assignment to grid_sol or grid_obs, from ANY earlier
    state satisfying it, grids_equal == (the two grids coincide, a missing grid counting as coinciding).  The setters read nothing
    but the two grids, so the invariant extends to every assignment history; observe() then selects by the current grids."""
    g3 = np.linspace(0, 1, 3); palette = dict(none=None, g3=g3, g3copy=g3.copy(), g3other=np.array([0.0, 0.4, 1.0]), g5=np.linspace(0, 1, 5),
                   g3near=g3 + 4e-9, g3rescaled=g3 * (1 + 5e-6))        # within numpy's default closeness tolerances of g3, but other nodes
    def coincide(a, b): return a is None or b is None or (len(a) == len(b) and bool(np.all(np.asarray(a) == np.asarray(b))))
    A, f, _ = _form(c, 3)
    for ns, gs in palette.items():
        for no, go in palette.items():
            for nv, v in palette.items():
                for which in ('grid_sol', 'grid_obs'):
                    pde = SteadyStateLinearPDE(lambda th: (A(th), f(th)), linalg_solve=Solver(c))
                    pde._grid_sol, pde._grid_obs, pde._grids_equal = gs, go, coincide(gs, go)        # an arbitrary earlier state
                    setattr(pde, which, v)
                    c.holds(f'flag_is_grid_coincidence_after_{which}={nv}_from_sol={ns}_obs={no}',
                            bool(pde.grids_equal) == coincide(pde.grid_sol, pde.grid_obs), note=f"{pde.grids_equal}")
                    if which == 'grid_sol': c.holds(f'grid_sol_stored_{nv}_from_sol={ns}_obs={no}', pde.grid_sol is v)
                    elif v is not None: c.holds(f'grid_obs_stored_{nv}_from_sol={ns}_obs={no}', pde.grid_obs is v)


def observe_after_regridding(c, kind):
    """history: constructed with coinciding grids, then given a finer solution grid; observation must go to the observation grid"""
    n = 9; K = 5; A, f, u0 = _form(c, n, kind == 'time')
    gobs = np.linspace(0, 1, 5); gnew = np.linspace(0, 1, n)
    if kind == 'steady':
        pde = SteadyStateLinearPDE(lambda th: (A(th), f(th)), grid_sol=gobs.copy(), grid_obs=gobs, linalg_solve=Solver(c))
        pde.grid_sol = gnew; u = c.vec('u', n)
    else:
        times = np.linspace(0, 1, K)
        pde = TimeDependentLinearPDE(lambda p, t: (A(p, t), f(p, t), u0(p, t)), times, grid_sol=gobs.copy(), grid_obs=gobs, linalg_solve=Solver(c))
        pde.grid_sol = gnew; u = c.vec('U', n * K).reshape(n, K)
    Interp.log.clear()
    out = pde.observe(u)
    c.holds('observation_lives_on_the_observation_grid', np.shape(out)[0] == len(gobs), note=str(np.shape(out)))
    if c.sym:
        # either the interpolant of the NEW grid evaluated on the observation grid, or (the nodes coincide here) the exact restriction
        interp = len(Interp.log) == 1 and Interp.log[0][0][0] is gnew and Interp.log[0][2][0] is gobs
        exact = False
        if not Interp.log:
            ref = (u if kind == 'steady' else u[:, -1])[::2]
            o = np.asarray(out).reshape(len(gobs), -1)[:, -1]
            exact = all(core.T(a).eq(core.T(b)) for a, b in zip(o, ref))
        c.holds('observed_from_the_new_solution_grid_on_the_observation_grid', bool(interp or exact))
    else:
        c.eq('exact_at_the_coinciding_nodes', np.asarray(out).reshape(len(gobs), -1)[:, -1], (u if kind == 'steady' else u[:, -1])[::2], tol=1e-7)


def observe_unsorted_nodes(c):
    """observation nodes that coincide with solution nodes but are listed in another order (and one twice): entry i of the
    observation belongs to grid_obs[i]"""
    n = 7; A, f, _ = _form(c, n)
    gsol = np.linspace(0, 1, n); idx = [5, 1, 3, 1]; gobs = gsol[idx]
    pde = SteadyStateLinearPDE(lambda th: (A(th), f(th)), grid_sol=gsol, grid_obs=gobs, linalg_solve=Solver(c))
    u = c.vec('u', n)
    Interp.log.clear()
    out = np.asarray(pde.observe(u))
    c.holds('one_value_per_observation_node', out.shape == (len(idx),), note=str(out.shape))
    if c.sym:
        if Interp.log:
            c.holds('interpolant_evaluated_on_the_observation_grid_in_its_own_order', Interp.log[0][0][0] is gsol and Interp.log[0][0][1] is u and Interp.log[0][2][0] is gobs)
        else:
            c.eq('restriction_in_the_order_of_the_observation_grid', out, u[idx])
    else:
        c.eq('entry_i_is_the_solution_at_observation_node_i', out, u[idx], tol=1e-8)


def time_dependent(c, method, n=2, K=3, extra=0):
    """K time levels with symbolic, non-uniform time stamps"""
    A, f, u0 = _form(c, n, True)
    th = c.vec('th', 2)
    dts = [c.real(f'dt{k}', pos=True) for k in range(K - 1)]
    t0 = c.real('t0'); times = [t0]
    for d in dts: times.append(times[-1] + d)
    times = np.array(times, dtype=object if c.sym else float)
    sol = Solver(c, extra)
    pde = TimeDependentLinearPDE(lambda p, t: (A(p, t), f(p, t), u0(p, t)), times, method=method, linalg_solve=sol, linalg_solve_kwargs=dict(opt=1))
    pde.assemble(c.vec('old', 2)); pde.assemble(th)
    u, info = pde.solve()
    c.holds('one_column_per_time_level', np.shape(u) == (n, K), note=str(np.shape(u)))
    c.eq('initial_level_is_initial_condition_at_first_time', u[:, 0], u0(th, times[0]))
    I = np.eye(n)
    for k in range(K - 1):
        dt = times[k + 1] - times[k]
        if method.lower() == 'forward_euler':
            c.eq(f'level[{k + 1}]_forward_euler_recurrence', u[:, k + 1], (I + dt * A(th, times[k])) @ u[:, k] + dt * f(th, times[k]))
        else:
            c.eq(f'level[{k + 1}]_system_matrix_is_I_minus_dt_A_at_new_time', sol.calls[k][0], I - dt * A(th, times[k + 1]))
            c.eq(f'level[{k + 1}]_right_hand_side_is_previous_level_plus_dt_source_at_new_time', sol.calls[k][1], u[:, k] + dt * f(th, times[k + 1]))
            c.eq(f'level[{k + 1}]_is_the_solvers_solution', u[:, k + 1], sol.sols[k])
            c.holds(f'level[{k + 1}]_solver_keyword_arguments', sol.calls[k][2] == dict(opt=1))
    if method.lower() == 'forward_euler': c.holds('no_linear_solve_in_forward_euler', len(sol.calls) == 0)
    else: c.holds('one_linear_solve_per_step', len(sol.calls) == K - 1)


def euler_step_induction(c, method, n=2):
    """the recurrence proved once on the mechanically cut loop body, from an arbitrary earlier state: any number of steps"""
    A, f, u0 = _form(c, n, True)
    th = c.vec('th', 2)
    K = 4
    times = np.array([c.real(f't{k}') for k in range(K)], dtype=object if c.sym else float)
    for k in range(K - 1): c.assume(times[k + 1] > times[k])
    sol = Solver(c)
    pde = TimeDependentLinearPDE(lambda p, t: (A(p, t), f(p, t), u0(p, t)), times, method=method, linalg_solve=sol)
    pde.assemble(th)
    src_fn = TimeDependentLinearPDE.solve
    import ast, inspect, textwrap
    body_ast = ast.parse(textwrap.dedent(inspect.getsource(src_fn))).body[0].body
    ifs = [i for i, st in enumerate(body_ast) if isinstance(st, ast.If)]
    if len(ifs) < 2:         # solve() no longer has one top-level `if` per scheme (e.g. re-organised into if / else): this decomposition does not apply - undecided
        raise loops.StaleAnchor(f"TimeDependentLinearPDE.solve has {len(ifs)} top-level `if` statement(s); the contract cuts the loop inside the second one")
    which = ifs[0] if method == 'forward_euler' else ifs[1]
    pre, cond, body, post, names, info = loops.split_loop(src_fn, 0, container=[which])
    U = c.vec('U', n * K).reshape(n, K)          # arbitrary stored levels
    idx = 1                                       # an arbitrary interior step
    t_loop = times[idx] if method == 'forward_euler' else times[idx + 1]
    Ubefore = U.copy()
    tag0, st0 = pre({'self': pde})                # whatever solve() sets up before the loop, from the real code
    st0 = dict(st0); st0.update(u=U, idx=idx, t=t_loop)
    sol.calls.clear(); sol.sols.clear()
    tag, st = body(st0)
    c.holds('body_falls_through', tag == '__next')
    dt = times[idx + 1] - times[idx]; I = np.eye(n)
    if method == 'forward_euler':
        c.eq('step_writes_forward_euler_update', st['u'][:, idx + 1], (I + dt * A(th, times[idx])) @ Ubefore[:, idx] + dt * f(th, times[idx]))
    else:
        c.eq('step_system_matrix', sol.calls[0][0], I - dt * A(th, times[idx + 1]))
        c.eq('step_right_hand_side', sol.calls[0][1], Ubefore[:, idx] + dt * f(th, times[idx + 1]))
        c.eq('step_stores_solvers_solution', st['u'][:, idx + 1], sol.sols[0])
    for j in range(K):
        if j != idx + 1: c.eq(f'step_leaves_level[{j}]_unchanged', st['u'][:, j], Ubefore[:, j])


def time_observe(c, time_obs, same_grid, n=3, K=3, obsmap=False):
    A, f, u0 = _form(c, n, True)
    grid = np.linspace(0, 1, n); gobs = grid if same_grid else np.linspace(0.1, 0.9, 2)
    times = np.linspace(0, 1, K)
    tobs = {'final': 'final', 'all': 'all', 'explicit': np.array([0.25, 0.75]),
            # ONE explicit observation time: an interior level of the time grid, the initial time, a time between levels, the final time given explicitly
            'single_interior_level': times[K // 2:K // 2 + 1].copy(), 'single_initial_time': times[:1].copy(), 'single_between_levels': np.array([0.6 * times[1] + 0.4 * times[2]]),
            'single_final_explicit': times[-1:].copy()}[time_obs]
    seen = []
    def _om(v): seen.append(np.shape(v)); return 2 * v + 1
    om = _om if obsmap else None
    pde = TimeDependentLinearPDE(lambda p, t: (A(p, t), f(p, t), u0(p, t)), times, time_obs=tobs, grid_sol=grid, grid_obs=gobs, observation_map=om, linalg_solve=Solver(c))
    U = c.vec('U', n * K).reshape(n, K)
    Interp.log.clear()
    out = pde.observe(U)
    if obsmap:
        nt = 1 if time_obs == 'final' else (K if time_obs == 'all' else len(tobs))
        c.holds('observation_map_receives_the_restricted_solution_one_column_per_time_a_vector_for_a_single_time',
                len(seen) == 1 and seen[0] == ((len(gobs),) if nt == 1 else (len(gobs), nt)), note=str(seen))
        seen.clear()
    if same_grid and time_obs in ('final', 'single_final_explicit'):
        c.holds('no_interpolation_at_coinciding_nodes_and_final_time', len(Interp.log) == 0)
        c.eq('observation_is_last_time_level', out, om(U[:, -1]) if om else U[:, -1])
    elif c.sym:
        exp_t = times[-1:] if time_obs == 'final' else (times if time_obs == 'all' else tobs)
        rec = Interp.log[0] if Interp.log else None
        c.holds('interpolant_built_from_grid_times_and_solution', rec is not None and rec[0][0] is grid and rec[0][1] is times and rec[0][2] is U)
        c.holds('interpolant_evaluated_at_observation_grid_and_times', rec is not None and rec[2][0] is gobs and np.array_equal(np.asarray(rec[2][1], dtype=float), np.asarray(exp_t, dtype=float)))
        raw = np.array([core.SReal(z3.Real(f'interp1_{i}')) for i in range(len(gobs) * len(exp_t))], dtype=object).reshape(len(gobs), len(exp_t))
        want = om(raw) if om else raw
        if len(exp_t) == 1: want = want.squeeze()
        c.eq('observation_map_applied_last_then_single_time_squeezed', out, want)
    else:
        # native: exact at coinciding nodes and times
        if same_grid and time_obs == 'all':
            c.eq('interpolation_exact_at_coinciding_nodes_and_times', out, om(U) if om else U, tol=1e-7)
        if same_grid and time_obs in ('single_interior_level', 'single_initial_time'):
            k = K // 2 if time_obs == 'single_interior_level' else 0
            c.eq('observation_at_a_single_time_level_is_the_solution_at_that_level', out, om(U[:, k]) if om else U[:, k], tol=1e-7)


def pde_model(c, n=2):
    A, f, _ = _form(c, n)
    sol = Solver(c, 1)
    grid = np.linspace(0, 1, n)
    pde = SteadyStateLinearPDE(lambda th: (A(th), f(th)), grid_sol=grid, observation_map=lambda v: v * 3, linalg_solve=sol)
    model = PDEModel(pde, range_geometry=n, domain_geometry=2)
    th = c.vec('th', 2)
    out = model.forward(th)
    c.eq('system_is_assembled_for_the_model_input', sol.calls[0][0], A(th))
    c.eq('model_output_is_observation_of_the_solvers_solution', out, 3 * sol.sols[0])
    # gradient dispatch
    pde.gradient_wrt_parameter = lambda direction, wrt: ('grad', direction, wrt)
    d = c.vec('d', n)
    g = model._gradient_func(d, th)
    c.holds('gradient_dispatches_to_gradient_wrt_parameter', isinstance(g, tuple) and g[0] == 'grad' and g[1] is d and g[2] is th)
    del pde.gradient_wrt_parameter
    J = c.mat('J', n, 2)
    pde.jacobian_wrt_parameter = lambda wrt: J
    c.eq('gradient_via_jacobian_is_direction_times_jacobian', model._gradient_func(d, th), d @ J)
    del pde.jacobian_wrt_parameter
    c.expect_raise('gradient_refused_without_pde_derivative', lambda: model._gradient_func(d, th))


def jobs(tier):
    J = []
    q = tier == 'quick'
    F = lambda *n: [f'{P}:{x}' for x in n]
    for extra in (0, 2):
        for nn in ((2,) if q else (1, 2)):      # (the native stand-in operator is a function of 2 parameters: singular beyond n = 2)
          J.append(Job(f'SteadyStateLinearPDE.solve:extra_returns={extra}' + ('' if nn == 2 else f':n={nn}'), lambda c, e=extra, nn=nn: steady(c, nn, e), 'Pbox', F('SteadyStateLinearPDE.assemble', 'SteadyStateLinearPDE.solve', 'LinearPDE._solve_linear_system'), extra=_extra))
    for sg in (True, False):
        for om in (True, False):
            J.append(Job(f'SteadyStateLinearPDE.observe:same_grid={sg}:map={om}', lambda c, sg=sg, om=om: steady_observe(c, 3, sg, om), 'Pbox', F('SteadyStateLinearPDE.observe', 'PDE._compare_grid'), extra=_extra))
    for method in ('forward_euler', 'backward_euler'):
        for K, nn in (((2, 2), (3, 2)) if q else ((1, 2), (2, 2), (3, 2), (4, 2), (5, 2), (3, 1), (3, 3))):
            J.append(Job(f'TimeDependentLinearPDE.solve:{method}:levels={K}' + ('' if nn == 2 else f':n={nn}'), lambda c, m=method, K=K, nn=nn: time_dependent(c, m, nn, K, 1 if method == 'backward_euler' else 0), 'Pbox',
                         F('TimeDependentLinearPDE.solve', 'TimeDependentLinearPDE.assemble', 'TimeDependentLinearPDE.assemble_step'), extra=_extra, timeout=600))
        # every spelling the method setter accepts (it validates case-insensitively) selects that scheme
        spelt = {'forward_euler': 'Forward_Euler', 'backward_euler': 'BACKWARD_EULER'}[method]
        J.append(Job(f'TimeDependentLinearPDE.solve:{method}:spelt_{spelt}:levels=3', lambda c, m=spelt: time_dependent(c, m, 2, 3, 1 if m.lower() == 'backward_euler' else 0), 'Pbox',
                     F('TimeDependentLinearPDE.solve', 'TimeDependentLinearPDE.method'), extra=_extra, timeout=600))
        J.append(Job(f'TimeDependentLinearPDE.solve:{method}:step_induction_on_cut_loop', lambda c, m=method: euler_step_induction(c, m), 'Pinf', F('TimeDependentLinearPDE.solve'), extra=_extra))
    for to in ('final', 'all', 'explicit', 'single_interior_level', 'single_initial_time', 'single_between_levels', 'single_final_explicit'):
        for sg in (True, False):
            J.append(Job(f'TimeDependentLinearPDE.observe:time_obs={to}:same_grid={sg}', lambda c, to=to, sg=sg: time_observe(c, to, sg, 5, 5, to != 'all'), 'Pbox', F('TimeDependentLinearPDE.observe', 'TimeDependentLinearPDE.__init__'), extra=_extra))
    for kind in ('steady', 'backward_euler'):
        J.append(Job(f'LinearPDE.default_linear_solver:nonsymmetric_operator:{kind}', lambda c, k=kind: default_solver(c, k), 'B',
                     F('LinearPDE.__init__', 'LinearPDE._solve_linear_system', 'SteadyStateLinearPDE.solve', 'TimeDependentLinearPDE.solve'), nnum=4))
    J.append(Job('SteadyStateLinearPDE.observe:coinciding_nodes_in_another_order', observe_unsorted_nodes, 'Pbox', F('SteadyStateLinearPDE.observe'), extra=_extra))
    J.append(Job('PDE.grid_setters:flag_invariant', grid_flag_invariant, 'Pbox', F('PDE._compare_grid', 'PDE.grid_sol', 'PDE.grid_obs', 'PDE.grids_equal'), extra=_extra, nnum=1))
    for kind in ('steady', 'time'):
        J.append(Job(f'PDE.observe:after_assigning_a_new_solution_grid:{kind}', lambda c, kind=kind: observe_after_regridding(c, kind), 'Pbox',
                     F('PDE.grid_sol', 'SteadyStateLinearPDE.observe', 'TimeDependentLinearPDE.observe'), extra=_extra))
    J.append(Job('PDEModel:assemble_solve_observe_and_gradient_dispatch', pde_model, 'Pbox', ['cuqi.model._model:PDEModel._forward_func', 'cuqi.model._model:PDEModel._gradient_func'], extra=_extra))
    for rk in ('Continuous2D', 'Image2D'):
        for to in ('all', 'explicit_pair'):
            J.append(Job(f'PDEModel:table_observation:range_geometry={rk}:time_obs={to}', lambda c, rk=rk, to=to: pde_model_table_observation(c, rk, to), 'B',
                         ['cuqi.model._model:PDEModel._forward_func'] + F('TimeDependentLinearPDE.observe'), nnum=3))
    J.append(Job('LinearPDE.user_solver_returning_numpy_matrix_objects', matrix_valued_solver, 'B', F('LinearPDE._solve_linear_system', 'SteadyStateLinearPDE.solve'), nnum=3))
    return J
