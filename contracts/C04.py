"""C04 — log-densities are the documented normalised densities in every parameterisation.

spec functions below are written from the class docstrings (documented density), not from the code."""
import numpy as np
import z3
from pvc.runner import Job
from pvc import core, shims
import cuqi
from cuqi.distribution import (Normal, Gaussian, Laplace, SmoothedLaplace, Cauchy, Gamma, InverseGamma, Beta,
                               Lognormal, Uniform, ModifiedHalfNormal, UserDefinedDistribution)

D = 'cuqi.distribution'
EXPLANATION = ("logpdf/cdf of every family against the documented density for scalar-broadcast, vector and matrix parameters; "
               "the four Gaussian parameterisations x input forms on both sides of the sparse switch; logd-logpdf free of x.")
ASSUMPTIONS = ["the documented (textbook) densities are normalised (cited; 'integrates to one' is not decided by contracts)",
               "scipy.stats logpdf/cdf of gamma/invgamma/beta/cauchy are the textbook formulas of the named law at the arguments passed (shim = contract)",
               "lgamma, erf, atan, incomplete gamma/beta are uninterpreted: obligations about them hold by congruence on their arguments"]

LOG2PI = lambda c: c.log(2 * (shims.NP.pi if c.sym else np.pi))


_SUF = ['']      # suffix of the parameter symbols (a second, independent parameter set for the reassignment histories)


def _par(c, name, n, form, **kw):
    """a parameter given as scalar (broadcast), vector or list"""
    name = name + _SUF[0]
    if form == 'scalar':
        v = c.real(name, **kw); return v, np.array([v] * n, dtype=object if c.sym else float)
    if form == 'len1':                      # an array with ONE entry, broadcast over the geometry like a scalar
        v = c.real(name, **kw); return np.array([v], dtype=object if c.sym else float), np.array([v] * n, dtype=object if c.sym else float)
    vec = c.vec(name, n, **kw)
    if form == 'list': return list(vec), vec
    return vec, vec


# ------------------------------------------------------------------------------------------ families
def fam_normal(c, n, form):
    m, mv = _par(c, 'm', n, form); s, sv = _par(c, 's', n, form, pos=True)
    d = Normal(m, s, geometry=n)
    pi = shims.NP.pi if c.sym else np.pi
    spec = lambda x: np.sum(-np.log(sv * np.sqrt(2 * pi)) - 0.5 * ((x - mv) / sv) ** 2)
    return d, spec, None

def fam_laplace(c, n, form):
    l, lv = _par(c, 'l', n, form); s, sv = _par(c, 's', n, 'scalar', pos=True)      # scale is documented as a scalar
    d = Laplace(l, s, geometry=n)
    spec = lambda x: np.sum(np.log(0.5 / sv) - abs(x - lv) / sv)
    return d, spec, None

def fam_smoothed_laplace(c, n, form):
    l, lv = _par(c, 'l', n, form); s, sv = _par(c, 's', n, form, pos=True); beta = c.real('beta', pos=True)
    d = SmoothedLaplace(l, s, beta, geometry=n)
    spec = lambda x: np.sum(np.log(0.5 / sv) - np.sqrt((x - lv) ** 2 + beta) / sv)
    return d, spec, None

def fam_cauchy(c, n, form):
    l, lv = _par(c, 'l', n, form); s, sv = _par(c, 's', n, form, pos=True)
    d = Cauchy(l, s, geometry=n)
    pi = shims.NP.pi if c.sym else np.pi
    spec = lambda x: np.sum(-np.log(pi * sv * (1 + ((x - lv) / sv) ** 2)))
    return d, spec, None

def fam_gamma(c, n, form):
    a, av = _par(c, 'a', n, form, pos=True); r, rv = _par(c, 'r', n, form, pos=True)
    d = Gamma(a, r, geometry=n)
    lg = np.array([c.lgamma(t) for t in av], dtype=av.dtype)
    spec = lambda x: np.sum(av * np.log(rv) - lg + (av - 1) * np.log(x) - rv * x)
    return d, spec, lambda x: [xi > 0 for xi in x]

def fam_invgamma(c, n, form):
    a, av = _par(c, 'a', n, form, pos=True); l, lv = _par(c, 'l', n, form); s, sv = _par(c, 's', n, form, pos=True)
    d = InverseGamma(a, l, s, geometry=n)
    lg = np.array([c.lgamma(t) for t in av], dtype=av.dtype)
    spec = lambda x: np.sum(av * np.log(sv) - lg - (av + 1) * np.log(x - lv) - sv / (x - lv))
    return d, spec, lambda x: [xi > li for xi, li in zip(x, lv)]

def fam_beta(c, n, form):
    a, av = _par(c, 'a', n, form, pos=True); b, bv = _par(c, 'b', n, form, pos=True)
    d = Beta(a, b, geometry=n)
    lB = np.array([c.lgamma(p) + c.lgamma(q) - c.lgamma(p + q) for p, q in zip(av, bv)], dtype=av.dtype)
    spec = lambda x: np.sum((av - 1) * np.log(x) + (bv - 1) * np.log(1 - x) - lB)
    return d, spec, lambda x: [c.And(xi > 0, xi < 1) for xi in x]

def fam_uniform(c, n, form):
    lo, lov = _par(c, 'lo', n, form); w, wv = _par(c, 'w', n, form, pos=True)
    hi = lo + w if form != 'list' else list(lov + wv)
    d = Uniform(lo, hi, geometry=n)
    spec = lambda x: -np.sum(np.log((lov + wv) - lov))
    return d, spec, lambda x: [c.And(xi >= li, xi <= li + wi) for xi, li, wi in zip(x, lov, wv)]

def fam_lognormal(c, n, form):
    m, mv = _par(c, 'm', n, form); v, vv = _par(c, 'v', n, form, pos=True)
    d = Lognormal(m, v)
    spec = lambda x: np.sum(-0.5 * LOG2PI(c) - 0.5 * np.log(vv) - 0.5 * (np.log(x) - mv) ** 2 / vv - np.log(x))
    return d, spec, lambda x: [xi > 0 for xi in x]

FAMILIES = dict(Normal=fam_normal, Laplace=fam_laplace, SmoothedLaplace=fam_smoothed_laplace, Cauchy=fam_cauchy, Gamma=fam_gamma,
                InverseGamma=fam_invgamma, Beta=fam_beta, Uniform=fam_uniform, Lognormal=fam_lognormal)


def _g(a, i): return np.ravel(a)[i if np.size(a) > 1 else 0]
OUTSIDE = dict(
    Gamma=lambda c, d, x: [xi < 0 for xi in x],
    InverseGamma=lambda c, d, x: [xi < _g(d.location, i) for i, xi in enumerate(x)],
    Beta=lambda c, d, x: [c.Or(xi < 0, xi > 1) for xi in x],
    Uniform=lambda c, d, x: [c.Or(xi < _g(d.low, i), xi > _g(d.high, i)) for i, xi in enumerate(x)],
    Lognormal=lambda c, d, x: [xi < 0 for xi in x])


def family_logpdf(c, fam, n, form):
    d, spec, support = FAMILIES[fam](c, n, form)
    x = c.vec('x', n)
    if support is not None:
        for cond in support(x): c.assume(cond)
    c.holds('dim', d.dim == n)
    c.eq('logpdf_is_documented_density', d.logpdf(x), spec(x))
    # the un-normalised log-density differs from the normalised one by a constant in the variable
    y = c.vec('y', n)
    if support is not None:
        for cond in support(y): c.assume(cond)
    c.eq('logd_minus_logpdf_constant_in_x', d.logd(x) - d.logpdf(x), d.logd(y) - d.logpdf(y))


def family_outside_support(c, fam, n, form, which):
    """density vanishes outside the support: logpdf == -inf on every path"""
    d, spec, support = FAMILIES[fam](c, n, form)
    x = c.vec('x', n)
    conds = support(x); outs = OUTSIDE[fam](c, d, x)
    # coordinate `which` lies strictly outside the closed support, the others are inside
    for i, cond in enumerate(conds):
        c.assume(outs[i] if i == which else cond)
    v = d.logpdf(x)
    isneginf = (not isinstance(v, core.SReal)) and np.ndim(v) == 0 and float(v) == float('-inf')
    c.holds('logpdf_is_minus_inf_outside_support', bool(isneginf), note=f"returned {v!r}")


def family_reassign(c, fam, n, form='vector'):
    """history: the object is used, then every parameter is reassigned through its public attribute; it must then denote the
    documented density with the NEW parameters (and behave like a freshly constructed object)"""
    _SUF[0] = ''
    d, spec, support = FAMILIES[fam](c, n, form)
    x = c.vec('x', n)
    if support is not None:
        for cond in support(x): c.assume(cond)
    _ = d.logpdf(x)
    try: _ = d.gradient(x)
    except Exception: pass
    _SUF[0] = '_new'
    try: fresh, spec2, support2 = FAMILIES[fam](c, n, form)
    finally: _SUF[0] = ''
    for var in d.get_mutable_variables(): setattr(d, var, getattr(fresh, var))
    z = c.vec('z', n)
    if support2 is not None:
        for cond in support2(z): c.assume(cond)
    c.eq('after_reassignment:logpdf_is_documented_density_with_the_new_parameters', d.logpdf(z), spec2(z))
    c.eq('after_reassignment:logd_as_fresh_object', d.logd(z), fresh.logd(z))
    if hasattr(d, 'cdf') and fam not in ('Lognormal',):
        c.eq('after_reassignment:cdf_as_fresh_object', d.cdf(z), fresh.cdf(z))
    try: gf = fresh.gradient(z)
    except Exception: gf = None
    if gf is not None: c.eq('after_reassignment:gradient_as_fresh_object', d.gradient(z), gf)


def gaussian_reassign(c, param, form2, n=2):
    """Gaussian: used (logpdf, compute_cov), then the matrix parameter and the mean are reassigned; all derived quantities follow"""
    mean = c.vec('m', n); x = c.vec('x', n)
    g = Gaussian(mean, **{param: c.vec('v', n, pos=True)})
    _ = g.logpdf(x); _ = g.compute_cov(); _ = g.sqrtprecTimesMean
    m2 = c.vec('m_new', n)
    if form2 == 'vector':
        diag = c.vec('v_new', n, pos=True); arg = diag
        Sd = {'cov': diag, 'prec': 1 / diag, 'sqrtcov': diag ** 2, 'sqrtprec': 1 / diag ** 2}[param]
        spec = _gauss_spec(c, x, m2, Sigma_diag=Sd); Sigma = np.diag(Sd)
    else:
        if param.startswith('sqrt'):
            a, b, d_ = c.real('ra', pos=True), c.real('rb'), c.real('rd', pos=True)
            arg = np.array([[a, b], [b, d_]], dtype=object if c.sym else float); c.assume((a * d_ - b * b) ** 2 > 0.01)
        else:
            G = c.lower('g', n); arg = G @ G.T
        A = np.asarray(arg)
        if param in ('cov', 'sqrtcov'):
            Sigma = A if param == 'cov' else A.T @ A
            spec = _gauss_spec(c, x, m2, Sigma=Sigma)
        else:
            P = A if param == 'prec' else A.T @ A
            d = x - m2; det = P[0, 0] * P[1, 1] - P[0, 1] * P[1, 0]
            spec = -0.5 * (n * LOG2PI(c) - np.log(det)) - 0.5 * (d @ P @ d)
            Sigma = np.array([[P[1, 1], -P[0, 1]], [-P[1, 0], P[0, 0]]], dtype=P.dtype) / det
    setattr(g, param, arg); g.mean = m2
    c.eq('after_reassignment:logpdf_is_documented_gaussian_with_the_new_parameters', g.logpdf(x), spec)
    S = g.sqrtprec; S = S.toarray() if hasattr(S, 'toarray') else np.asarray(S)
    if S.ndim < 2: S = np.diag(np.ravel(S) * np.ones(n))
    c.eq('after_reassignment:sqrtprecTimesMean_is_sqrtprec_times_the_new_mean', np.asarray(g.sqrtprecTimesMean), S @ m2)
    stale_cov_refused = False
    try: cv = g.cov
    except NotImplementedError: stale_cov_refused = True
    if not stale_cov_refused and cv is not None and param != 'cov':
        cvm = np.asarray(cv); 
        c.eq('after_reassignment:a_covariance_that_is_still_reported_is_the_new_one', cvm if cvm.ndim == 2 else np.diag(np.ravel(cvm) * np.ones(n)), Sigma)
    c.eq('after_reassignment:compute_cov_gives_the_new_covariance', np.asarray(g.compute_cov()), Sigma)


# ------------------------------------------------------------------------------------------ cdf
def family_cdf(c, fam, n, form):
    from pvc.shims import GAMMA_CDF, BETA_CDF
    d, spec, support = FAMILIES[fam](c, n, form)
    x = c.vec('x', n)
    if support is not None:
        for cond in support(x): c.assume(cond)
    if c.sym:
        S = core.SReal; T = core.T
        if fam == 'Normal':
            F = lambda i: 0.5 * (1 + S(core.ERF(T((x[i] - np.ravel(d.mean)[i if np.size(d.mean) > 1 else 0]) / (np.ravel(d.std)[i if np.size(d.std) > 1 else 0] * np.sqrt(2.0))))))
        elif fam == 'Cauchy':
            F = lambda i: 0.5 + S(core.ATAN(T((x[i] - np.ravel(d.location)[i if np.size(d.location) > 1 else 0]) / np.ravel(d.scale)[i if np.size(d.scale) > 1 else 0]))) / shims.NP.pi
        elif fam == 'Gamma':
            F = lambda i: S(GAMMA_CDF(T(np.ravel(d.shape)[i if np.size(d.shape) > 1 else 0]), T(x[i] * np.ravel(d.rate)[i if np.size(d.rate) > 1 else 0])))
        elif fam == 'InverseGamma':
            F = lambda i: 1 - S(GAMMA_CDF(T(np.ravel(d.shape)[i if np.size(d.shape) > 1 else 0]), T(np.ravel(d.scale)[i if np.size(d.scale) > 1 else 0] / (x[i] - np.ravel(d.location)[i if np.size(d.location) > 1 else 0]))))
        elif fam == 'Beta':
            F = lambda i: S(BETA_CDF(T(x[i]), T(np.ravel(d.alpha)[i if np.size(d.alpha) > 1 else 0]), T(np.ravel(d.beta)[i if np.size(d.beta) > 1 else 0])))
    else:
        import scipy.stats as st
        g = lambda a, i: float(np.ravel(a)[i if np.size(a) > 1 else 0])
        F = {'Normal': lambda i: st.norm.cdf(x[i], g(d.mean, i), g(d.std, i)),
             'Cauchy': lambda i: st.cauchy.cdf(x[i], g(d.location, i), g(d.scale, i)),
             'Gamma': lambda i: st.gamma.cdf(x[i], g(d.shape, i), 0, 1 / g(d.rate, i)),
             'InverseGamma': lambda i: st.invgamma.cdf(x[i], g(d.shape, i), g(d.location, i), g(d.scale, i)),
             'Beta': lambda i: st.beta.cdf(x[i], g(d.alpha, i), g(d.beta, i))}[fam]
    prod = F(0)
    for i in range(1, n): prod = prod * F(i)
    c.eq('cdf_is_product_of_coordinate_cdfs', d.cdf(x), prod)


def beta_cdf_above(c, n=1):
    a = c.real('a', pos=True); b = c.real('b', pos=True); d = Beta(a, b, geometry=n)
    x = c.vec('x', n)
    for xi in x: c.assume(xi >= 1)
    c.eq('cdf_is_one_above_support', d.cdf(x), 1.0)


# ------------------------------------------------------------------------------------------ Gaussian canonical form
def _gauss_spec(c, x, mean, Sigma_diag=None, Sigma=None):
    """documented density of N(mean, Sigma): -1/2 (n log 2pi + log det Sigma) - 1/2 d^T Sigma^-1 d"""
    n = len(x); d = x - mean
    if Sigma_diag is not None:
        return np.sum(-0.5 * LOG2PI(c) - 0.5 * np.log(Sigma_diag) - 0.5 * d ** 2 / Sigma_diag)
    if n == 2:
        det = Sigma[0, 0] * Sigma[1, 1] - Sigma[0, 1] * Sigma[1, 0]
        adj = np.array([[Sigma[1, 1], -Sigma[0, 1]], [-Sigma[1, 0], Sigma[0, 0]]], dtype=Sigma.dtype)
        q = d @ adj @ d / det
        return -0.5 * (n * LOG2PI(c) + np.log(det)) - 0.5 * q
    if not c.sym:                                        # native only: dense reference computation
        S = np.asarray(Sigma, dtype=float); sign, ld = np.linalg.slogdet(S)
        return -0.5 * (n * np.log(2 * np.pi) + ld) - 0.5 * float(d @ np.linalg.solve(S, d))
    raise NotImplementedError


def banded_sqrtprec(c, storage, band, sparse_side):
    """(native) square-root precision given as a sparse BANDED matrix (the class docstring's own example is an upper bidiagonal one in diagonal storage):
    the distribution is N(mean, (R^T R)^-1) whatever sparse storage scheme carries R - the value is the documented one, or the normalised density is
    refused (as it is for general sparse matrices without a sparse Cholesky); never a number for another matrix"""
    import scipy.sparse as sp
    from cuqi import config
    n = 4; old = config.MIN_DIM_SPARSE; config.MIN_DIM_SPARSE = 0 if sparse_side == 'above' else 10 ** 6
    try:
        mean = c.vec('m', n); x = c.vec('x', n)
        d0 = np.asarray(c.vec('d0', n, pos=True), dtype=float) + 0.5; up = np.asarray(c.vec('up', n - 1), dtype=float); lo = np.asarray(c.vec('lo', n - 1), dtype=float)
        R = {'main_only': sp.diags([d0], [0]), 'upper': sp.diags([d0, up], [0, 1]), 'lower': sp.diags([d0, lo], [0, -1]),
             'upper_scalar_diagonals': sp.diags([d0[0], up[0]], [0, 1], shape=(n, n)),          # the docstring's way of building it
             'tridiagonal': sp.diags([d0 + 2, 0.3 * up, 0.3 * lo], [0, 1, -1])}[band].asformat(storage)
        Rd = R.toarray(); P = Rd.T @ Rd; d = np.asarray(x - mean, dtype=float)
        spec = -0.5 * (n * np.log(2 * np.pi) - np.linalg.slogdet(P)[1]) - 0.5 * float(d @ P @ d)
        try: val = Gaussian(mean, sqrtprec=R).logpdf(x)
        except NotImplementedError: c.holds('normalised_density_is_the_documented_one_or_refused', True); return
        c.eq('normalised_density_is_the_documented_one_or_refused', np.asarray(val, dtype=float).reshape(-1)[0], spec)
    finally:
        config.MIN_DIM_SPARSE = old


def dense_extreme_units(c, param, scale, sparse_side):
    """(native) a correlated 40-dimensional Gaussian in units in which the determinant of its matrix lies outside the range of double precision (1e-5 / 1e5
    standard deviations): the log-density is finite and the documented one - a function of the matrix, not of whether its determinant is representable"""
    from cuqi import config
    n = 40; old = config.MIN_DIM_SPARSE; config.MIN_DIM_SPARSE = 0 if sparse_side == 'above' else 10 ** 6
    try:
        i = np.arange(n); K = np.exp(-np.abs(np.subtract.outer(i, i)) / 3.0) + np.diag(np.asarray(c.vec('j', n, pos=True), dtype=float)) * 0.1
        L = np.linalg.cholesky(K); mean = np.asarray(c.vec('m', n), dtype=float); x = mean + scale * np.asarray(c.vec('x', n), dtype=float)
        Sigma_logdet = 2 * np.sum(np.log(np.diag(L))) + 2 * n * np.log(scale); d = (x - mean) / scale
        spec = -0.5 * (n * np.log(2 * np.pi) + Sigma_logdet) - 0.5 * float(d @ np.linalg.solve(K, d))
        w, V = np.linalg.eigh(K); Kh = (V * np.sqrt(w)) @ V.T; Kmh = (V / np.sqrt(w)) @ V.T; Ki = (V / w) @ V.T      # symmetric roots (exactly symmetrised:
        sym = lambda M: 0.5 * (M + M.T)                                                                                  # the root convention is another matter)
        arg = {'cov': scale ** 2 * K, 'prec': sym(Ki) / scale ** 2, 'sqrtcov': scale * sym(Kh), 'sqrtprec': sym(Kmh) / scale}[param]
        val = np.asarray(Gaussian(mean, **{param: arg}).logpdf(x), dtype=float).reshape(-1)[0]
        c.holds('log_density_is_finite', bool(np.isfinite(val)), note=repr(val))
        c.holds('log_density_is_the_documented_one', bool(abs(val - spec) <= 1e-6 * max(1.0, abs(spec))), note=f'{val!r} vs {spec!r}')
    finally:
        config.MIN_DIM_SPARSE = old


def gaussian_form(c, param, form, n, sparse_side, magnitude=None):
    """Gaussian given through `param` in input form `form`; the distribution it denotes is fixed by the documentation:
    cov -> Sigma ; prec -> Sigma = prec^-1 ; sqrtcov R -> Sigma = R^T R ; sqrtprec R -> Sigma = (R^T R)^-1.
    `magnitude` s (native only): the same distribution in units in which its standard deviations are of order s - the density is a
    function of the matrix, not of the size of its entries (no entry is 'negligible' because it is small in absolute terms)"""
    from cuqi import config
    old = config.MIN_DIM_SPARSE
    config.MIN_DIM_SPARSE = 0 if sparse_side == 'above' else 10 ** 6
    try:
        mean = c.vec('m', n); x = c.vec('x', n)
        if magnitude is not None: x = mean + magnitude * (x - mean)
        if form == 'scalar':
            v = c.real('v', pos=True); diag = np.array([v] * n, dtype=object if c.sym else float); arg = v
        elif form == 'vector':
            diag = c.vec('v', n, pos=True); arg = diag
        elif form in ('list', 'tuple'):                  # the diagonal as a plain Python sequence
            diag = c.vec('v', n, pos=True); arg = list(diag) if form == 'list' else tuple(diag)
        elif form == 'diagmatrix':
            diag = c.vec('v', n, pos=True); arg = np.diag(diag)
            if c.sym: arg = np.where(np.eye(n) == 1, arg, core.SReal(z3.RealVal(0)))
        elif form == 'sparsediag':
            diag = c.vec('v', n, pos=True)
            import scipy.sparse as sp
            arg = shims.STag(np.diag(diag)) if c.sym else sp.diags(diag, format='csr')
        elif form == 'dense' and param.startswith('sqrt') and n > 2:
            diag = None                                  # (native only) symmetric positive definite square root
            G = c.lower('g', n); arg = G @ G.T + 0.3 * np.eye(n)
        elif form == 'dense' and param.startswith('sqrt'):
            diag = None                                  # symmetric non-singular square root
            a, b, d_ = c.real('ra', pos=True), c.real('rb'), c.real('rd', pos=True)
            arg = np.array([[a, b], [b, d_]], dtype=object if c.sym else float)
            det = a * d_ - b * b
            c.assume(det * det > 0.01)
        elif form == 'dense':
            diag = None
            G = c.lower('g', n); arg = G @ G.T           # symmetric positive definite
        elif form == 'block_dense':
            diag = None                                  # (native) block-diagonal storage of independent correlated groups: eigenvectors with exact zeros
            import scipy.linalg as _sl
            G1 = c.lower('g', 2); G2 = c.lower('h', n - 2)
            arg = _sl.block_diag(np.asarray(G1 @ G1.T + 0.3 * np.eye(2), dtype=float), np.asarray(G2 @ G2.T + 0.3 * np.eye(n - 2), dtype=float))
            if param.startswith('sqrt'): arg = np.real(_sl.sqrtm(arg))          # the symmetric root
        elif form == 'dense_nonsym_root':
            diag = None
            arg = c.mat('r', n, n)
            det = arg[0, 0] * arg[1, 1] - arg[0, 1] * arg[1, 0]
            c.assume(det * det > 0.01)
        if magnitude is not None:
            f = {'cov': magnitude ** 2, 'prec': magnitude ** -2, 'sqrtcov': magnitude, 'sqrtprec': 1 / magnitude}[param]
            arg = type(arg)(f * v for v in arg) if isinstance(arg, (list, tuple)) else arg * f
            if diag is not None: diag = diag * f
        if diag is not None:
            Sd = {'cov': diag, 'prec': 1 / diag, 'sqrtcov': diag ** 2, 'sqrtprec': 1 / diag ** 2}[param]
            spec = _gauss_spec(c, x, mean, Sigma_diag=Sd)
        else:
            A = np.asarray(arg)
            if param == 'cov': Sigma = A
            elif param == 'sqrtcov': Sigma = A.T @ A
            if param in ('cov', 'sqrtcov'):
                spec = _gauss_spec(c, x, mean, Sigma=Sigma)
            else:
                P = A if param == 'prec' else A.T @ A
                d = x - mean
                if n == 2: det = P[0, 0] * P[1, 1] - P[0, 1] * P[1, 0]
                else: det = None
                logdet = np.log(det) if det is not None else float(np.linalg.slogdet(np.asarray(P, dtype=float))[1])
                spec = -0.5 * (n * LOG2PI(c) - logdet) - 0.5 * (d @ P @ d)
        g = Gaussian(mean, **{param: arg})
        c.eq('logpdf_is_documented_gaussian', g.logpdf(x), spec)
        y = c.vec('y', n)
        c.eq('logd_minus_logpdf_constant_in_x', g.logd(x) - g.logpdf(x), g.logd(y) - g.logpdf(y))
    finally:
        config.MIN_DIM_SPARSE = old


def jobs(tier):
    J = []
    q = tier == 'quick'
    F = lambda m, *n: [f"{D}.{m}:{x}" for x in n]
    mods = dict(Normal='_normal', Laplace='_laplace', SmoothedLaplace='_smoothed_laplace', Cauchy='_cauchy', Gamma='_gamma',
                InverseGamma='_inverse_gamma', Beta='_beta', Uniform='_uniform', Lognormal='_lognormal')
    for fam in FAMILIES:
        fl = F(mods[fam], f'{fam}.logpdf') + [f'{D}._distribution:Distribution.logd', 'cuqi.density._density:Density.logd']
        for form in ('scalar', 'vector', 'list', 'len1'):
            for n in ([1, 3] if q else [1, 2, 3]):
                if fam == 'Lognormal' and n == 3: n = 2
                if form == 'list' and (n == 1 or q): continue
                if form == 'len1' and (n == 1 or fam == 'Lognormal'): continue
                if fam == 'Lognormal' and (form == 'scalar' and n > 1 or n > 2): continue     # scalar parameters define a 1-d Lognormal
                lvl = 'B' if (fam == 'Lognormal' and n > 1) else 'Pbox'     # log-of-product algebra at n>1 exceeds the solvers' budget: bounded stand-in
                if any(j.id == f'{fam}.logpdf:{form}:n={n}' for j in J): continue
                J.append(Job(f'{fam}.logpdf:{form}:n={n}', lambda c, fam=fam, n=n, form=form: family_logpdf(c, fam, n, form), lvl, fl))
        if fam in ('Gamma', 'InverseGamma', 'Beta', 'Uniform', 'Lognormal'):
            for n, which in ((1, 0), (2, 1)):
                J.append(Job(f'{fam}.logpdf:outside_support:n={n}:coord={which}', lambda c, fam=fam, n=n, w=which: family_outside_support(c, fam, n, 'vector', w), 'Pbox', fl, num=True))
        if fam in ('Normal', 'Cauchy', 'Gamma', 'InverseGamma', 'Beta'):
            for form in ('scalar', 'vector'):
                for n in (1, 2):
                    J.append(Job(f'{fam}.cdf:{form}:n={n}', lambda c, fam=fam, n=n, form=form: family_cdf(c, fam, n, form), 'Pbox', F(mods[fam], f'{fam}.cdf')))
    J.append(Job('Beta.cdf:above_support:n=1', lambda c: beta_cdf_above(c, 1), 'Pbox', F('_beta', 'Beta.cdf')))
    G = F('_gaussian', 'Gaussian.__init__', 'Gaussian.logpdf', 'Gaussian._logupdf', 'get_sqrtprec_from_cov', 'get_sqrtprec_from_prec',
          'get_sqrtprec_from_sqrtcov', 'get_sqrtprec_from_sqrtprec')
    for param in ('cov', 'prec', 'sqrtcov', 'sqrtprec'):
        for form in ('scalar', 'vector', 'list', 'tuple', 'diagmatrix', 'sparsediag', 'dense') + (('dense_nonsym_root',) if param.startswith('sqrt') else ()):
            for side in ('below', 'above'):
                if form in ('list', 'tuple') and q and (side == 'above' or (form == 'tuple' and param != 'cov')): continue
                for n in ([2] if (q or form.startswith('dense')) else [2, 3]):
                    # dense input above the sparse switch goes through scipy's eigh with eigenvalue thresholding: bounded stand-in only
                    lvl = 'B' if (form.startswith('dense') and side == 'above') else 'Pbox'
                    J.append(Job(f'Gaussian.logpdf:{param}:{form}:sparse_switch={side}:n={n}',
                                 lambda c, p=param, f=form, n=n, s=side: gaussian_form(c, p, f, n, s), lvl, G, timeout=300,
                                 nnum=(40 if lvl == 'B' else None)))
            if form == 'dense':
                # 3 and 4 dimensions, both sides of the switch, native only (at n = 2 an eigenvector matrix is symmetric, which hides
                # a confusion of eigenvector rows and columns)
                for side in ('below', 'above'):
                    for n in (3, 4):
                        J.append(Job(f'Gaussian.logpdf:{param}:dense:sparse_switch={side}:n={n}', lambda c, p=param, n=n, s=side: gaussian_form(c, p, 'dense', n, s), 'B', G, nnum=12 if q else 60))
    for param in ('cov', 'prec', 'sqrtcov', 'sqrtprec'):
        for side in ('below', 'above'):
            for n in (4, 5):
                J.append(Job(f'Gaussian.logpdf:{param}:block_dense:sparse_switch={side}:n={n}', lambda c, p=param, n=n, s=side: gaussian_form(c, p, 'block_dense', n, s), 'B', G, nnum=6 if q else 30))
    for storage in ('dia', 'csr', 'csc'):
        for band in ('main_only', 'upper', 'lower', 'upper_scalar_diagonals', 'tridiagonal'):
            for side in ('below', 'above'):
                J.append(Job(f'Gaussian.logpdf:sqrtprec:sparse_banded:{storage}:{band}:sparse_switch={side}', lambda c, st=storage, b=band, s=side: banded_sqrtprec(c, st, b, s),
                             'B', G, nnum=4 if q else 12))
    for param in ('cov', 'prec', 'sqrtcov', 'sqrtprec'):
        for scale in (1e-5, 1e5):
            for side in ('below', 'above'):
                J.append(Job(f'Gaussian.logpdf:{param}:dense_correlated:n=40:units={scale:g}:sparse_switch={side}', lambda c, p=param, sc=scale, s=side: dense_extreme_units(c, p, sc, s),
                             'B', G, nnum=2 if q else 6))
    # the same distributions in small / large units (native, bounded): full matrices whose entries are tiny or huge in absolute terms
    for param in ('cov', 'prec', 'sqrtcov', 'sqrtprec'):
        for form in ('dense', 'vector', 'sparsediag'):
            for side in ('below', 'above'):
                for n in ((2, 3) if form == 'dense' else (2,)):
                    for mag in (1e-5, 1e5):
                        if q and (form != 'dense' and side == 'above'): continue
                        J.append(Job(f'Gaussian.logpdf:{param}:{form}:sparse_switch={side}:n={n}:magnitude={mag:g}',
                                     lambda c, p=param, f=form, n=n, s=side, mag=mag: gaussian_form(c, p, f, n, s, mag), 'B', G, nnum=6 if q else 30))
    for fam in FAMILIES:
        J.append(Job(f'{fam}.history:parameters_reassigned_after_use:n=2', lambda c, fam=fam: family_reassign(c, fam, 2), 'B' if fam == 'Lognormal' else 'Pbox',
                     F(mods[fam], f'{fam}.logpdf') + [f'{D}._distribution:Distribution.logd']))
    for param in ('cov', 'prec', 'sqrtcov', 'sqrtprec'):
        for form2 in ('vector', 'dense'):
            J.append(Job(f'Gaussian.history:{param}_and_mean_reassigned_after_use:new_value={form2}', lambda c, p=param, f=form2: gaussian_reassign(c, p, f), 'Pbox',
                         [f'{D}._gaussian:Gaussian.{param}', f'{D}._gaussian:Gaussian.compute_cov', f'{D}._gaussian:Gaussian.sqrtprecTimesMean', f'{D}._gaussian:Gaussian.logpdf'], timeout=600))
    # "the Markov-random-field priors equal the documented densities of the finite differences of the shifted variable": the
    # contracts live with the difference-operator contracts of C20 and are claimed for this property as well
    from contracts import C20 as _c20
    J += [j for j in _c20.jobs(tier) if j.id.split(':')[0] in ('GMRF.logpdf', 'LMRF.logpdf', 'CMRF.logpdf', 'GMRF.logpdf2D', 'LMRF.logpdf2D', 'CMRF.logpdf2D', 'GMRF.structure')]
    return J
