"""C10 — conjugate and direct samplers draw from the exact conditional."""
import types
import numpy as np
import z3
from pvc.runner import Job
from pvc import core, shims
import cuqi
from cuqi.distribution import Gaussian, GMRF, Gamma, Posterior, JointDistribution
from cuqi.model import LinearModel

EXPLANATION = ("the Gamma(shape, rate) object handed to .sample() by the conjugate pair is captured; with symbolic data, model output, prior shape/rate and hyper-parameter s: "
               "d/ds [ log Gamma(s; shape, rate) - target.logd(s) ] == 0 (the density drawn from is proportional to the posterior's OWN density in s), for Gaussian with cov = 1/s, "
               "with prec = s and GMRF with prec = s (orders, boundary conditions); supported forms are accepted on every path; a stated class of unsupported dependences is rejected on every path; "
               "Direct.step returns exactly target.sample().")
ASSUMPTIONS = ["rejection of ARBITRARY unsupported callables is not decidable by contracts: the code probes three points with a tolerance (clause-level not applicable); the stated class is proved",
               "the approximate conjugate sampler (LMRF-Gamma, ConjugateApprox) is approximate by design and not covered"]


class CapturedGamma:
    last = None
    def __init__(self, shape=None, rate=None, **kw):
        self.shape = shape; self.rate = rate; CapturedGamma.last = self
    def sample(self, *a, **k): return ('draw-of', self)


class _Math:
    """math module as seen by _conjugate: isclose on symbolic values is exact equality"""
    def __getattr__(self, k):
        import math; return getattr(math, k)
    def isclose(self, a, b, **k):
        import math
        if isinstance(a, core.SReal) or isinstance(b, core.SReal): return bool(core.SBool(core.T(a) == core.T(b)))
        return math.isclose(a, b, **k)


def _extra():
    return {'cuqi.experimental.mcmc._conjugate': dict(math=_Math())}


class capture_gamma:
    """capture the Gamma object the conjugate modules construct (both modes; the callee Gamma.sample is C05)"""
    def __enter__(self):
        import cuqi.experimental.mcmc._conjugate as m1, cuqi.sampler._conjugate as m2
        self.saved = [(m, m.Gamma) for m in (m1, m2)]
        for m, _ in self.saved: m.Gamma = _GammaProxy
        CapturedGamma.last = None
    def __exit__(self, *a):
        for m, g in self.saved: m.Gamma = g


class _GammaMeta(type):
    def __instancecheck__(cls, inst): return isinstance(inst, Gamma)


class _GammaProxy(metaclass=_GammaMeta):
    """stands for cuqi.distribution.Gamma inside the conjugate modules: isinstance checks see the real class,
    construction is captured"""
    def __new__(cls, shape=None, rate=None, **kw): return CapturedGamma(shape, rate, **kw)


def _hyper_target(c, kind, n, bc='zero', order=1, scalar_mean=False):
    """posterior of the hyper-parameter s given data: likelihood from a Gaussian/GMRF whose spread depends on s, Gamma prior"""
    alpha, beta = c.real('alpha', pos=True), c.real('beta', pos=True)
    s = Gamma(alpha, beta, name='s')
    data = c.vec('b', n)
    mean = c.vec('mu', n) if not scalar_mean else c.real('mu')
    if kind == 'cov': x = Gaussian(mean, cov=lambda s: 1 / s, geometry=n, name='x')
    elif kind == 'prec': x = Gaussian(mean, prec=lambda s: s, geometry=n, name='x')
    elif kind in ('cov=C/s', 'prec=s*P'):
        # a DENSE correlated matrix scaled by the hyper-parameter (accepted and sampled exactly by the legacy interface; the stored square root is a dense,
        # non-diagonal array)
        G = np.array([[1.0, 0.0], [0.6, 0.8]]) if n == 2 else np.tril(np.ones((n, n))) * 0.5 + np.eye(n)
        Cm = G @ G.T
        x = Gaussian(mean, cov=lambda s: Cm / s, geometry=n, name='x') if kind == 'cov=C/s' else Gaussian(mean, prec=lambda s: s * Cm, geometry=n, name='x')
    elif kind in ('GMRF', 'GMRF2D'):
        geom = cuqi.geometry.Continuous1D(n) if kind == 'GMRF' else cuqi.geometry.Image2D((int(round(n ** 0.5)),) * 2)      # (2-D: n is the number of pixels)
        x = GMRF(mean, lambda s: s, bc_type=bc, order=order, geometry=geom, name='x')
        if c.sym:
            shims.symbolize_operators(x)
            if bc == 'zero': x._chol = shims.STag(shims.sym_cholesky(np.asarray(x._prec_op.get_matrix().a)))
            else: x._chol = shims.STag(shims._to_obj_matrix(x._chol))
    target = JointDistribution(s, x)(x=data)
    return target, alpha, beta


def conjugate_exact(c, iface, kind, n, bc='zero', order=1, scalar_mean=False):
    target, alpha, beta = _hyper_target(c, kind, n, bc, order, scalar_mean)
    c.holds('target_is_a_posterior_in_the_hyper_parameter', isinstance(target, Posterior) and target.prior.name == 's')
    with capture_gamma():
        if iface == 'exp':
            from cuqi.experimental.mcmc import Conjugate
            smp = c.no_raise('supported_pair_is_accepted', lambda: Conjugate(target))
            if smp is None: return
            smp.initialize()
            smp.step(); out = smp.current_point
        else:
            from cuqi.sampler import Conjugate
            smp = c.no_raise('supported_pair_is_accepted', lambda: Conjugate(target))
            if smp is None: return
            out = smp.step()
    G = CapturedGamma.last
    c.holds('draw_is_a_draw_of_the_constructed_gamma', isinstance(out, tuple) and out[1] is G)
    sv = c.vec('s', 1, pos=True)
    shape = np.asarray(G.shape).reshape(-1)[0]; rate = np.asarray(G.rate).reshape(-1)[0]
    spec = lambda v: (shape - 1) * np.log(v[0]) - rate * v[0]
    c.eq('gamma_density_is_proportional_to_the_posteriors_own_density_in_s',
         c.grad_of(spec, sv), c.grad_of(lambda v: target.logd(v), sv), tol=1e-4)


def rejects(c, dep, n=2, iface='exp'):
    """a stated class of unsupported dependences on the hyper-parameter: every path raises"""
    if iface == 'exp': from cuqi.experimental.mcmc import Conjugate
    else: from cuqi.sampler import Conjugate
    alpha, beta = c.real('alpha', pos=True), c.real('beta', pos=True)
    data = c.vec('b', n); mu = c.vec('mu', n)
    cc = c.real('cc', pos=True); c.assume(c.Not(c.close(cc, 1.0, 1e-6))); c.assume(c.Not(c.close(cc, 1.0, 1e-3)))
    bb = c.real('bb', nz=True)
    if not c.sym: c.assume(abs(cc - 1) > 0.05); c.assume(abs(bb) > 0.05)
    s = Gamma(alpha, beta, name='s')
    mk = {
        'cov=c/s': lambda: Gaussian(mu, cov=lambda s: cc / s, geometry=n, name='x'),
        'cov=1/s^2': lambda: Gaussian(mu, cov=lambda s: 1 / s ** 2, geometry=n, name='x'),
        'cov=s': lambda: Gaussian(mu, cov=lambda s: s, geometry=n, name='x'),
        'cov=1/(s+b)': lambda: Gaussian(mu, cov=lambda s: 1 / (s + bb * bb), geometry=n, name='x'),
        'prec=c*s': lambda: Gaussian(mu, prec=lambda s: cc * s, geometry=n, name='x'),
        'prec=s^2': lambda: Gaussian(mu, prec=lambda s: s ** 2, geometry=n, name='x'),
        'prec=s^3': lambda: Gaussian(mu, prec=lambda s: s ** 3, geometry=n, name='x'),
        'prec=1/s': lambda: Gaussian(mu, prec=lambda s: 1 / s, geometry=n, name='x'),
        'prec=s+b': lambda: Gaussian(mu, prec=lambda s: s + bb * bb, geometry=n, name='x'),
        'sqrtprec=s': lambda: Gaussian(mu, sqrtprec=lambda s: s, geometry=n, name='x'),
        'two_occurrences': lambda: Gaussian(lambda s: s * np.ones(n), prec=lambda s: s, geometry=n, name='x'),
    }
    if dep in ('vector_rate_gamma', 'geometry2_gamma'):
        # a non-scalar Gamma whose SHAPE parameter is scalar (dimension from the rate vector / from the geometry)
        s2 = Gamma(alpha, np.array([beta, 2 * beta]), name='s') if dep == 'vector_rate_gamma' else Gamma(alpha, beta, geometry=2, name='s')
        x = Gaussian(mu, prec=lambda s: s, geometry=n, name='x')
        target = JointDistribution(s2, x)(x=data)
    elif dep == 'vector_gamma':
        s2 = Gamma(np.array([alpha, alpha]), np.array([beta, beta]), name='s')
        x = Gaussian(mu, prec=lambda s: s, geometry=n, name='x')
        target = JointDistribution(s2, x)(x=data)
    else:
        target = JointDistribution(s, mk[dep]())(x=data)
    with capture_gamma():
        c.expect_raise(f'unsupported_dependence_{dep}_is_rejected', lambda: Conjugate(target))
        if iface == 'exp':
            # history: a sampler that already holds a supported target (as inside a Gibbs loop) is given the unsupported one
            good = JointDistribution(Gamma(alpha, beta, name='s'), Gaussian(mu, prec=lambda s: s, geometry=n, name='x'))(x=data)
            smp = Conjugate(good)
            def retarget(): smp.target = target
            c.expect_raise(f'unsupported_dependence_{dep}_is_rejected_when_assigned_to_a_sampler_in_use', retarget)
            smp2 = Conjugate()
            def first(): smp2.target = target
            c.expect_raise(f'unsupported_dependence_{dep}_is_rejected_as_first_target_of_an_empty_sampler', first)


def direct(c, n=2):
    from cuqi.experimental.mcmc import Direct
    log = []
    class T:
        dim = n; geometry = cuqi.geometry.Continuous1D(n)
        def sample(self, *a, **k):
            log.append((a, k)); return ('sample', len(log))
    smp = Direct(T()); smp.initialize()
    k0 = len(log)
    acc = smp.step()
    c.holds('one_call_of_the_targets_own_sampling_method', len(log) == k0 + 1 and log[-1] == ((), {}))
    c.holds('state_is_exactly_that_draw', smp.current_point == ('sample', len(log)) and acc == 1)


def direct_real_target(c, geom):
    """Direct with real distributions on geometries of every kind (also ones that transform the parameters, and images): each recorded state is the PARAMETER
    vector of the target's own draw taken from the same random stream, recorded as one column of length dim (bounded stand-in: native)"""
    import io, contextlib
    from cuqi.experimental.mcmc import Direct
    from cuqi.distribution import Gaussian
    g = {'default': lambda: None, 'mapped': lambda: cuqi.geometry.MappedGeometry(cuqi.geometry.Continuous1D(4), map=np.exp, imap=np.log),
         'KL': lambda: cuqi.geometry.KLExpansion(np.linspace(0, 1, 4), num_modes=4), 'step': lambda: cuqi.geometry.StepExpansion(np.linspace(0, 1, 8), n_steps=4),
         'image': lambda: cuqi.geometry.Image2D((2, 2))}[geom]()
    mu = np.array([c.real(f'mu{i}') for i in range(4)])
    tgt = Gaussian(mu, 0.25, **({'geometry': g} if g is not None else {}))
    seed = int(c.real('seed', lo=0, hi=10 ** 6))
    np.random.seed(seed); draws = []
    for _ in range(6):
        d_ = tgt.sample(); draws.append(np.asarray(d_.to_numpy() if hasattr(d_, 'to_numpy') else d_, dtype=float).ravel())
    np.random.seed(seed)
    with contextlib.redirect_stderr(io.StringIO()):
        s = Direct(tgt); s.sample(3)
    S = s.get_samples().samples
    c.holds('recorded_chain_has_one_column_of_length_dim_per_draw', np.shape(S) == (4, 3), note=str(np.shape(S)))
    if np.shape(S) == (4, 3):
        # (the sampler may use draws of the stream for its initial point: the recorded states are consecutive draws of the target's own sampler)
        offs = [o for o in range(3) if all(np.allclose(S[:, k], draws[k + o], rtol=0, atol=1e-12) for k in range(3))]
        c.holds('recorded_states_are_the_parameter_vectors_of_consecutive_draws_of_the_targets_own_sampler', len(offs) == 1, note=f"first recorded state {S[:, 0]}, stream starts {draws[0]}, {draws[1]}")
        if offs: c.eq('current_point_is_the_last_draw', np.asarray(s.current_point, dtype=float).ravel(), draws[2 + offs[0]], tol=1e-12)


def jobs(tier):
    J = []
    q = tier == 'quick'
    for iface in ('exp', 'leg'):
        tag = 'experimental' if iface == 'exp' else 'legacy'
        mod = 'cuqi.experimental.mcmc._conjugate' if iface == 'exp' else 'cuqi.sampler._conjugate'
        fl = [f'{mod}:_GaussianGammaPair.sample', f'{mod}:_GaussianGammaPair.validate_target', f'{mod}:_get_conjugate_parameter'] if iface == 'exp' else [f'{mod}:Conjugate.step', f'{mod}:Conjugate.__init__']
        for kind in ('cov', 'prec'):
            for n in ((2, 3) if q else (2, 3, 4)):
                J.append(Job(f'{tag}.Conjugate:Gaussian:{kind}:n={n}', lambda c, i=iface, k=kind, n=n: conjugate_exact(c, i, k, n), 'Pbox', fl, extra=_extra, rtol=1e-4, timeout=600))
            J.append(Job(f'{tag}.Conjugate:Gaussian:{kind}:n=3:scalar_mean', lambda c, i=iface, k=kind: conjugate_exact(c, i, k, 3, scalar_mean=True), 'Pbox', fl, extra=_extra, rtol=1e-4, timeout=600))
        if iface == 'leg':
            for kind in ('cov=C/s', 'prec=s*P'):
                for n in (2, 3):
                    J.append(Job(f'{tag}.Conjugate:Gaussian:{kind}:dense_correlated:n={n}', lambda c, i=iface, k=kind, n=n: conjugate_exact(c, i, k, n), 'B', fl, nnum=4))
        for bc in ('zero', 'neumann', 'periodic'):
            for order in (1, 2):
                if order == 2 and bc == 'neumann': continue
                J.append(Job(f'{tag}.Conjugate:GMRF:bc={bc}:order={order}:n=4', lambda c, i=iface, bc=bc, o=order: conjugate_exact(c, i, 'GMRF', 4, bc, o), 'Pbox', fl, extra=_extra, rtol=1e-4, timeout=600))
        # two-dimensional fields (the stacked difference operator has more rows than the field has pixels)
        # order 0 (white noise through the difference-operator machinery: in 2-D the operator is stacked, the structure matrix is 2I)
        J.append(Job(f'{tag}.Conjugate:GMRF:bc=zero:order=0:n=4', lambda c, i=iface: conjugate_exact(c, i, 'GMRF', 4, 'zero', 0), 'Pbox', fl, extra=_extra, rtol=1e-4, timeout=600))
        for bc, order in (('zero', 0), ('zero', 1), ('zero', 2)) + (() if q else (('periodic', 1),)):
            J.append(Job(f'{tag}.Conjugate:GMRF2D:bc={bc}:order={order}:2x2', lambda c, i=iface, bc=bc, o=order: conjugate_exact(c, i, 'GMRF2D', 4, bc, o), 'Pbox', fl + ['cuqi.distribution._gmrf:GMRF.sqrtprec'], extra=_extra, rtol=1e-4, timeout=600))
    for dep in ('cov=c/s', 'cov=1/s^2', 'cov=s', 'cov=1/(s+b)', 'prec=c*s', 'prec=s^2', 'prec=s^3', 'prec=1/s', 'prec=s+b', 'sqrtprec=s', 'two_occurrences', 'vector_gamma', 'vector_rate_gamma', 'geometry2_gamma'):
        J.append(Job(f'experimental.Conjugate:rejects:{dep}', lambda c, d=dep: rejects(c, d), 'Pbox',
                     ['cuqi.experimental.mcmc._conjugate:_GaussianGammaPair.validate_target', 'cuqi.experimental.mcmc._conjugate:_check_conjugate_parameter_is_scalar_identity',
                      'cuqi.experimental.mcmc._conjugate:_check_conjugate_parameter_is_scalar_reciprocal'], extra=_extra))
    for dep in ('cov=1/s^2', 'prec=s^2', 'prec=c*s'):
        J.append(Job(f'legacy.Conjugate:rejects:{dep}', lambda c, d=dep: rejects(c, d, 2, 'leg'), 'Pbox', ['cuqi.sampler._conjugate:Conjugate.__init__'], extra=_extra))
    J.append(Job('experimental.Direct:step_is_targets_own_sample', direct, 'Pbox', ['cuqi.experimental.mcmc._direct:Direct.step'], num=False))
    for geom in ('default', 'mapped', 'KL', 'step', 'image'):
        J.append(Job(f'experimental.Direct:real_target:geometry={geom}', lambda c, g=geom: direct_real_target(c, g), 'B', ['cuqi.experimental.mcmc._direct:Direct.step'], nnum=2))
    # the conjugate draw is Gamma(shape, rate).sample(): the contract of that callee (the generator receives exactly the parameters of the Gamma's own
    # density, for every positive shape - also below one) lives with C05 and is part of what C10 relies on
    from contracts import C05 as _c05
    J += [j for j in _c05.jobs(tier) if j.id.startswith('Gamma._sample') or j.id.startswith('Gamma.sample')]
    return J
