"""C01 — conditioning a joint distribution preserves the joint log-density.

Layer L2 of the design: factors are instances of UFDist, a sidecar Distribution subclass whose hyper-parameters are
constants / callables like those of the real families and whose logpdf is an UNINTERPRETED function of (resolved
hyper-parameters, argument).  The conditioning machinery (Density / Distribution / Likelihood / Posterior /
JointDistribution / MultipleLikelihoodPosterior / _StackedJointDistribution) runs unmodified.  Graphs, fixed subsets,
groupings and orders are enumerated; values are symbolic."""
import itertools
import numpy as np
import z3
from pvc.runner import Job
from pvc import core, shims, loops
import cuqi
from cuqi.distribution import Distribution, JointDistribution

DD = 'cuqi.distribution'
EXPLANATION = ("reduced.logd(free) == sum_i l_i(full assignment) for every dependency graph in the enumerated family (<= 4 variables, generic factors with "
               "uninterpreted log-densities), every non-empty set of fixed variables, every grouping of the fixings into calls and every order, by keyword and by position, "
               "whatever class the reduction returns; intermediates and the original stay valid; stacked view; malformed evaluations are refused.")
ASSUMPTIONS = ["graphs larger than the enumerated family: the loops of JointDistribution.logd/_condition are cut mechanically and one iteration is proved for an arbitrary factor "
               "(every subset of three names as its parameter names, arbitrary accumulated value / list position), so joints of any number of factors that are not reduced to a single "
               "density evaluate to the sum of the factor terms; the reduction to Posterior / Distribution / Likelihood (loop-free counting code) is covered by the enumerated family only",
               "concrete families instantiate the generic factor: their own logpdf is verified under C04"]


class UFDist(Distribution):
    """generic factor: mutable variables a, b (constant or callable of other variables); logpdf uninterpreted"""
    def __init__(self, a=None, b=None, ctx=None, tag='f', **kwargs):
        super().__init__(**kwargs)
        self.a = a; self.b = b
        self._ctx = ctx; self._tag = tag
    def logpdf(self, x):
        flat = lambda v: list(np.asarray(v, dtype=object).reshape(-1)) if not isinstance(v, (int, float)) else [v]
        return self._ctx.uf(self._tag, *(flat(self.a) + flat(self.b) + flat(x)))
    def _sample(self, N=1, rng=None): raise NotImplementedError


class UFDist2(Distribution):
    """the same generic factor with its two mutable variables called u, w: used for a random variable that is itself named 'a' or 'b' (a variable cannot
    carry the name of one of its OWN parameters - the library refuses that; it can carry the name of a parameter of ANOTHER factor)"""
    def __init__(self, u=None, w=None, ctx=None, tag='f', **kwargs):
        super().__init__(**kwargs)
        self.u = u; self.w = w
        self._ctx = ctx; self._tag = tag
    def logpdf(self, x):
        flat = lambda v: list(np.asarray(v, dtype=object).reshape(-1)) if not isinstance(v, (int, float)) else [v]
        return self._ctx.uf(self._tag, *(flat(self.u) + flat(self.w) + flat(x)))
    def _sample(self, N=1, rng=None): raise NotImplementedError


# a graph: list of (name, dim, a_spec, b_spec); a spec is ('const',) | ('of', parent, ...) | ('of2', p1, p2)
GRAPHS = {
    'chain2':      [('x', 2, ('const',), ('const',)), ('y', 2, ('of', 'x'), ('const',))],
    'hier3':       [('d', 1, ('const',), ('const',)), ('x', 2, ('of', 'd'), ('const',)), ('y', 2, ('of', 'x'), ('of', 'd'))],
    'hier4':       [('d', 1, ('const',), ('const',)), ('s', 1, ('const',), ('const',)), ('x', 2, ('of', 'd'), ('const',)), ('y', 2, ('of', 'x'), ('of', 's'))],
    'multilike3':  [('x', 2, ('const',), ('const',)), ('y1', 2, ('of', 'x'), ('const',)), ('y2', 1, ('of', 'x'), ('const',))],
    # two data sets on x plus a hyper-parameter of one noise model: fixing y1, y2, s leaves SEVERAL likelihoods in x and a constant factor p(s)
    'multilike_hyper4': [('s', 1, ('const',), ('const',)), ('x', 2, ('const',), ('const',)), ('y1', 2, ('of', 'x'), ('of', 's')), ('y2', 1, ('of', 'x'), ('const',))],
    # two conditional priors sharing one hyper-parameter d, both fixed: several likelihoods in d
    'sharedhyper3': [('d', 1, ('const',), ('const',)), ('x', 2, ('of', 'd'), ('const',)), ('z', 1, ('of', 'd'), ('const',))],
    # a hyper-parameter variable NAMED LIKE the attribute it defines (documented use: Normal(0, std=lambda std: ...)): x.a is a callable of the variable 'a'
    'samename2':   [('a', 1, ('const',), ('const',)), ('x', 2, ('of', 'a'), ('const',))],
    'samename3':   [('b', 1, ('const',), ('const',)), ('x', 2, ('const',), ('of', 'b')), ('y', 2, ('of', 'x'), ('of', 'b'))],
    'independent3': [('u', 1, ('const',), ('const',)), ('w', 1, ('const',), ('const',)), ('x', 2, ('of', 'w'), ('const',))],
    # BOTH parameters of y are callables of the same two variables: fixing one of them defers both callables (partially applied), fixing the other resolves them
    'twocallables3': [('g', 1, ('const',), ('const',)), ('x', 2, ('const',), ('const',)), ('y', 2, ('of2', 'x', 'g'), ('of2', 'x', 'g'))],
    'twoparent3':  [('d', 1, ('const',), ('const',)), ('x', 2, ('const',), ('const',)), ('y', 2, ('of2', 'x', 'd'), ('const',))],
}


def _mk_callable(names, slot='a'):
    # builds  lambda <names>: tuple of the arguments  (the resolved hyper-parameter handed to the uninterpreted density)
    # (NOT the identity - 2 v + 1 per argument: with identity callables a value handed over without evaluating the callable would go unnoticed)
    # the callables of the two parameter slots differ (a: 2 v + 1, b: 3 v - 2): one slot's callable evaluated in the place of the other's would go unnoticed otherwise
    k, o = _COEF[slot]
    src = f"lambda {', '.join(names)}: np.concatenate([{k} * np.atleast_1d(v) + ({o}) for v in ({', '.join(names)},)])"
    return eval(src, {'np': np})


_COEF = {'a': (2, 1), 'b': (3, -2)}


def build(c, gname):
    facs = []; consts = {}
    for (nm, dim, aspec, bspec) in GRAPHS[gname]:
        def slot(spec, s):
            if spec[0] == 'const':
                v = c.real(f'{nm}_{s}'); consts[(nm, s)] = v; return v
            return _mk_callable(list(spec[1:]), s)
        facs.append((UFDist2 if nm in ('a', 'b') else UFDist)(slot(aspec, 'a'), slot(bspec, 'b'), ctx=c, tag='l_' + nm, geometry=dim, name=nm))
    return facs, consts


def joint_logd_spec(c, gname, consts, vals):
    tot = 0
    for (nm, dim, aspec, bspec) in GRAPHS[gname]:
        def res(spec, s):
            if spec[0] == 'const': return [consts[(nm, s)]]
            out = []
            for p in spec[1:]: out += list(_COEF[s][0] * np.atleast_1d(vals[p]) + _COEF[s][1])
            return out
        tot = tot + c.uf('l_' + nm, *(res(aspec, 'a') + res(bspec, 'b') + list(np.atleast_1d(vals[nm]))))
    return tot


def ordered_partitions(items):
    """all ways to split a set into an ordered sequence of non-empty groups"""
    items = list(items)
    if not items: yield []; return
    for r in range(1, len(items) + 1):
        for first in itertools.combinations(items, r):
            rest = [i for i in items if i not in first]
            for tail in ordered_partitions(rest): yield [list(first)] + tail


def _eval(c, obj, free, vals, positional=False):
    if not free: return obj.logd()
    if positional:
        names = obj.get_parameter_names()
        return obj.logd(*[vals[n] for n in names])
    return obj.logd(**{n: vals[n] for n in free})


def conditioning(c, gname, fixed, limit_orders=None):
    facs, consts = build(c, gname)
    names = [g[0] for g in GRAPHS[gname]]
    vals = {nm: (c.vec(f'v_{nm}', dim) if dim > 1 else c.vec(f'v_{nm}', 1)) for (nm, dim, _, _) in GRAPHS[gname]}
    spec = joint_logd_spec(c, gname, consts, vals)
    J = JointDistribution(*facs)
    c.eq('joint_logd_is_sum_of_factors', J.logd(**vals), spec)
    c.eq('joint_logd_positional', J.logd(*[vals[n] for n in J.get_parameter_names()]), spec)
    free = [n for n in names if n not in fixed]
    parts = list(ordered_partitions(fixed))
    if limit_orders: parts = parts[:limit_orders]
    for pi, groups in enumerate(parts):
        cur = J; inter = [(J, list(names))]
        remaining = list(names)
        ok = True
        for gi, grp in enumerate(groups):
            try:
                cur = cur(**{n: vals[n] for n in grp})
            except Exception as e:
                kind = 'joint' if type(cur) is JointDistribution else 'reduced_' + type(cur).__name__
                c.fail(f'order[{pi}]:step[{gi}]_conditioning_{kind}_on_{"+".join(grp)}_must_not_be_refused', f"{type(e).__name__}: {str(e)[:120]}")
                ok = False; break
            remaining = [n for n in remaining if n not in grp]
            inter.append((cur, list(remaining)))
        if not ok: continue
        tag = '>'.join('+'.join(g) for g in groups)
        c.eq(f'[{tag}]:reduced_logd_equals_joint_logd', _eval(c, cur, free, vals), spec)
        if free:
            c.eq(f'[{tag}]:reduced_logd_positional', _eval(c, cur, free, vals, positional=True), spec)
        # every intermediate object, and the original, still evaluate to the joint log-density afterwards
        for k, (obj, rem) in enumerate(inter):
            c.eq(f'[{tag}]:intermediate[{k}]_still_valid', _eval(c, obj, rem, vals), spec)
        # conditioning the same parent again (as a Gibbs sweep does) gives the same result
        again = J
        for grp in groups: again = again(**{n: vals[n] for n in grp})
        c.eq(f'[{tag}]:second_conditioning_same_result', _eval(c, again, free, vals), spec)
    # one-step positional conditioning on a prefix of the parameter names
    pn = J.get_parameter_names()
    k = len([n for n in pn if n in fixed])
    if set(pn[:k]) == set(fixed) and k > 0:
        R = J(*[vals[n] for n in pn[:k]])
        c.eq('positional_conditioning', _eval(c, R, free, vals), spec)


def second_reduction(c, order):
    """history of two reductions: a joint reduced to a single distribution (which carries the log-density of the fixed variables as a constant) is used as a
    FACTOR of a second joint with further, unrelated variables, and that joint is reduced again (in either order of the fixings): the result still accounts for
    every factor of both joints"""
    mk = lambda nm, dim, a, b: (UFDist2 if nm in ('a', 'b') else UFDist)(a, b, ctx=c, tag='l_' + nm, geometry=dim, name=nm)
    ca = {k: c.real(k) for k in ('d_a', 'd_b', 'x_b', 's_a', 's_b', 'y_b')}
    d = mk('d', 1, ca['d_a'], ca['d_b']); x = mk('x', 2, _mk_callable(['d']), ca['x_b'])
    dv = c.vec('dv', 1); xv = c.vec('xv', 2); sv = c.vec('sv', 1); yv = c.vec('yv', 2)
    px = JointDistribution(d, x)(d=dv)                                   # first reduction: a distribution in x carrying l_d(dv)
    first = c.uf('l_d', ca['d_a'], ca['d_b'], *list(dv)) + c.uf('l_x', *list(2 * dv + 1), ca['x_b'], *list(xv))
    c.eq('first_reduction_accounts_for_the_fixed_variable', px.logd(xv), first)
    sdist = mk('s', 1, ca['s_a'], ca['s_b']); y = mk('y', 2, _mk_callable(['s']), ca['y_b'])
    J2 = JointDistribution(px, sdist, y)
    total = first + c.uf('l_s', ca['s_a'], ca['s_b'], *list(sv)) + c.uf('l_y', *list(2 * sv + 1), ca['y_b'], *list(yv))
    c.eq('second_joint_is_the_sum_of_all_factors', J2.logd(x=xv, s=sv, y=yv), total)
    red = J2(s=sv)(y=yv) if order == 's_then_y' else (J2(y=yv)(s=sv) if order == 'y_then_s' else J2(s=sv, y=yv))
    c.eq('second_reduction_still_accounts_for_every_factor', red.logd(xv), total)
    c.eq('second_reduction_by_keyword', red.logd(x=xv), total)


def stacked(c, gname):
    facs, consts = build(c, gname)
    vals = {nm: c.vec(f'v_{nm}', dim) for (nm, dim, _, _) in GRAPHS[gname]}
    spec = joint_logd_spec(c, gname, consts, vals)
    J = JointDistribution(*facs)
    S = J._as_stacked()
    vec = np.concatenate([vals[n] for n in J.get_parameter_names()])
    c.eq('stacked_view_same_number', S.logd(vec), spec)
    c.holds('stacked_dim_is_sum', S.dim == sum(len(v) for v in vals.values()))
    # the stacked view of a joint in which some variables are already fixed (any single variable that leaves at least two free ones and
    # keeps the joint a joint): "fix, then stack" and "stack, then evaluate" see the same number - the contribution of every fixed variable included
    names = J.get_parameter_names()
    for fx in names:
        try:
            Jf = J(**{fx: vals[fx]})
            if not isinstance(Jf, JointDistribution) or len(Jf.get_parameter_names()) < 2: continue
            free = Jf.get_parameter_names()
            Sf = Jf._as_stacked(); got = Sf.logd(np.concatenate([vals[n] for n in free])); dim = Sf.dim
        except TypeError as e:
            if 'Inconsistent distribution geometry' in str(e): continue      # a generic factor whose resolved parameter has another length than its geometry (harness graph)
            raise
        c.eq(f'stacked_view_after_fixing_{fx}_same_number', got, spec)
        c.holds(f'stacked_view_after_fixing_{fx}_dim_is_sum_of_the_free_dims', dim == sum(len(vals[n]) for n in free))


def refusals(c, gname='hier3'):
    facs, consts = build(c, gname)
    names = [g[0] for g in GRAPHS[gname]]
    vals = {nm: c.vec(f'v_{nm}', dim) for (nm, dim, _, _) in GRAPHS[gname]}
    J = JointDistribution(*facs)
    P = J(y=vals['y'], d=vals['d'])               # Posterior in x
    objs = {'joint': (J, names), 'posterior': (P, ['x']), 'partially_reduced': (J(y=vals['y']), ['d', 'x'])}
    for label, (obj, free) in objs.items():
        full = {n: vals[n] for n in free}
        if len(free) > 1:
            c.expect_raise(f'{label}:missing_variable_refused', lambda: obj.logd(**{n: full[n] for n in free[:-1]}))
        else:
            c.expect_raise(f'{label}:missing_variable_refused', lambda: obj.logd())
        c.expect_raise(f'{label}:unknown_keyword_refused', lambda: obj.logd(**dict(full, zzz=vals[names[0]])))
        c.expect_raise(f'{label}:doubly_specified_refused', lambda: obj.logd(full[free[0]], **full))
        c.expect_raise(f'{label}:too_many_positionals_refused', lambda: obj.logd(*([full[n] for n in free] + [vals[names[0]]])))


# ------------------------------------------------------------------------------------------ the two loops over the factor list, cut
class _Factor:
    """arbitrary factor as the joint's loops see it: a set of parameter names, an uninterpreted log-density of the values it is handed,
    and conditioning that returns a token recording what it was conditioned on"""
    def __init__(self, c, tag, names): self.c = c; self.tag = tag; self.names = list(names); self.logd_calls = []; self.cond_calls = []
    def get_parameter_names(self): return list(self.names)
    def logd(self, *a, **kw):
        self.logd_calls.append((a, dict(kw)))
        return self.c.uf('ell_' + self.tag + '_' + '_'.join(sorted(kw)), *[kw[k] for k in sorted(kw)]) if kw else self.c.uf('ell_' + self.tag + '_none', 0.0)
    def __call__(self, *a, **kw):
        self.cond_calls.append((a, dict(kw))); return ('conditioned', self.tag, tuple(sorted(kw)))


def _real_joint():
    from cuqi.distribution import Gaussian
    return JointDistribution(Gaussian(np.zeros(1), 1.0, name='a'), Gaussian(np.zeros(1), 1.0, name='b'), Gaussian(np.zeros(1), 1.0, name='c'))


NAMES3 = ('a', 'b', 'c')


def logd_loop(c, subset):
    """JointDistribution.logd, loop cut from the real method: one iteration for an ARBITRARY factor (parameter names = subset of the evaluation's
    names) from an arbitrary accumulated value adds exactly that factor's log-density of ITS OWN variables; the loop runs over the factor list
    itself; the epilogue returns the accumulated value.  Induction over the list: logd = sum of the factor terms for any number of factors."""
    pre, cond, body, post, names, info = loops.split_loop(JointDistribution.logd, 0)
    J = _real_joint()
    vals = {k: c.real('v_' + k) for k in NAMES3}
    tag, st = pre({'self': J, 'args': (), 'kwargs': dict(vals)})
    c.holds('prologue_falls_through_when_all_variables_are_given', tag == '__next')
    st = dict(st)
    it = list(cond(st))
    c.holds('loop_runs_over_every_factor_of_the_joint_once_in_order', len(it) == len(J._densities) and all(a is b for a, b in zip(it, J._densities)))
    c.holds('accumulation_starts_at_zero', st['logd'] == 0)
    f = _Factor(c, 'k', subset)
    acc = c.real('accumulated')
    st['logd'] = acc; st[info['target']] = f
    tagb, st1 = body(st)
    c.holds('iteration_falls_through', tagb == '__next')
    c.holds('factor_evaluated_exactly_once_by_keyword_on_its_own_variables', len(f.logd_calls) == 1 and f.logd_calls[0][0] == () and set(f.logd_calls[0][1]) == set(subset)
            and all(f.logd_calls[0][1][k] is vals[k] for k in subset), note=str(f.logd_calls))
    expect = acc + (c.uf('ell_k_' + '_'.join(sorted(subset)), *[vals[k] for k in sorted(subset)]) if subset else c.uf('ell_k_none', 0.0))
    c.eq('accumulated_value_grows_by_exactly_the_factor_term', st1['logd'], expect)
    c.holds('evaluation_point_not_modified', st1['kwargs'] == vals and all(st1['kwargs'][k] is vals[k] for k in NAMES3))
    tagp, ret = post(dict(st1))
    c.holds('epilogue_returns_the_accumulated_value', tagp == '__ret' and ret is st1['logd'])


def condition_loop(c, subset, pos):
    """JointDistribution._condition, loop cut: entry `pos` of the COPIED factor list is replaced by that factor conditioned on exactly the
    given values of its own variables; other entries, the original list and the given values are untouched"""
    pre, cond, body, post, names, info = loops.split_loop(JointDistribution._condition, 0)
    J = _real_joint()
    facs = [_Factor(c, f'k{i}', subset if i == pos else NAMES3[:i]) for i in range(3)]
    J._densities = list(facs); orig_list = J._densities
    given = {k: c.real('v_' + k) for k in ('a', 'c')}            # a proper subset of the names is being fixed
    tag, st = pre({'self': J, 'args': (), 'kwargs': dict(given)})
    st = dict(st); nj = st['new_joint']
    c.holds('prologue:works_on_a_copy_of_the_joint_and_of_its_factor_list', nj is not J and nj._densities is not orig_list and nj._densities == facs)
    c.holds('loop_enumerates_the_copied_list_in_order', list(cond(st)) == list(enumerate(facs)))
    st['i'] = pos; st['density'] = facs[pos]
    tagb, st1 = body(st)
    mine = {k: v for k, v in given.items() if k in subset}
    c.holds('iteration:factor_conditioned_once_on_exactly_its_own_given_variables', len(facs[pos].cond_calls) == 1 and facs[pos].cond_calls[0][0] == ()
            and set(facs[pos].cond_calls[0][1]) == set(mine) and all(facs[pos].cond_calls[0][1][k] is mine[k] for k in mine), note=str(facs[pos].cond_calls))
    c.holds('iteration:entry_replaced_by_the_conditioned_factor', nj._densities[pos] == ('conditioned', f'k{pos}', tuple(sorted(mine))))
    c.holds('iteration:other_entries_and_other_factors_untouched', all(nj._densities[j] is facs[j] and not facs[j].cond_calls for j in range(3) if j != pos))
    c.holds('iteration:original_joint_keeps_its_factors', J._densities is orig_list and orig_list == facs)


def jobs(tier):
    J = []
    q = tier == 'quick'
    FL = [f'{DD}._joint_distribution:JointDistribution.logd', f'{DD}._joint_distribution:JointDistribution._condition',
          f'{DD}._joint_distribution:JointDistribution._reduce_to_single_density', f'{DD}._joint_distribution:JointDistribution._add_constants_to_density',
          f'{DD}._joint_distribution:JointDistribution._parse_args_add_to_kwargs', f'{DD}._distribution:Distribution._condition', f'{DD}._distribution:Distribution.logd',
          f'{DD}._distribution:Distribution.to_likelihood', 'cuqi.likelihood._likelihood:Likelihood._logd', 'cuqi.density._density:Density.logd',
          f'{DD}._posterior:Posterior.logpdf', f'{DD}._joint_distribution:MultipleLikelihoodPosterior.logpdf']
    for g in GRAPHS:
        names = [x[0] for x in GRAPHS[g]]
        if q and g == 'hier4': continue
        for r in range(1, len(names) + 1):
            for fixed in itertools.combinations(names, r):
                lim = None if (len(fixed) <= 2 or not q) else 4
                J.append(Job(f'{g}:fixed={"+".join(fixed)}', lambda c, g=g, f=fixed, lim=lim: conditioning(c, g, list(f), lim), 'Pbox', FL, timeout=600))
        J.append(Job(f'{g}:stacked_view', lambda c, g=g: stacked(c, g), 'Pbox', [f'{DD}._joint_distribution:_StackedJointDistribution.logd']))
    for order in ('s_then_y', 'y_then_s', 'together'):
        J.append(Job(f'history:reduced_density_reused_as_factor_of_a_second_joint:{order}', lambda c, o=order: second_reduction(c, o), 'Pbox', FL, timeout=600))
    J.append(Job('refusals:hier3', refusals, 'Pbox', FL))
    subsets = [tuple(x for x, keep in zip(NAMES3, bits) if keep) for bits in itertools.product((0, 1), repeat=3)]
    for sub in subsets:
        J.append(Job(f'JointDistribution.logd:loop0:arbitrary_factor:names={"+".join(sub) or "none"}', lambda c, sub=sub: logd_loop(c, sub), 'Pbox',
                     [f'{DD}._joint_distribution:JointDistribution.logd'], num=False))
    for sub in (subsets if not q else [(), ('a',), ('b',), ('a', 'c'), ('a', 'b', 'c')]):
        for pos in (0, 1, 2):
            J.append(Job(f'JointDistribution._condition:loop0:arbitrary_factor:names={"+".join(sub) or "none"}:position={pos}', lambda c, sub=sub, pos=pos: condition_loop(c, sub, pos), 'Pbox',
                         [f'{DD}._joint_distribution:JointDistribution._condition'], num=False))
    return J
