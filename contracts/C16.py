"""C16 — solvers return points that satisfy the optimality conditions of their problem.

Contracts (sidecar) on cuqi.solver._solver: CGLS.solve, PCGLS.solve, FISTA.solve (loops cut mechanically,
abstract operators: every dimension, every iteration count), ProjectNonnegative/ProjectBox/ProximalL1
(coordinate-wise KKT systems), LM.solve exit, SciPy wrappers (pass-through)."""
import numpy as np
from pvc.runner import Job
from pvc import core, loops, shims
from pvc.avec import AVec, ALin, AMat
import cuqi.solver._solver as S

M = 'cuqi.solver._solver'
EXPLANATION = ("Loop invariants on the mechanically cut loops of CGLS/PCGLS/FISTA over abstract vectors/operators "
               "(all dimensions, all iteration counts); exit contracts; KKT systems of the projections and the L1 prox.")
ASSUMPTIONS = ["convergence of CG / FISTA / LM in finitely many iterations is numerical-analysis theory (not decided); only exit-condition postconditions are proved",
               "Euclidean projection onto a box / prox of the L1 norm are separable, so the coordinate-wise KKT system characterises them (cited)"]


def _extra():
    return {}


# ---------------------------------------------------------------------------------------------
# projections and soft-thresholding: exact coordinate-wise characterisation
# ---------------------------------------------------------------------------------------------
def project_box(c, n=2, default=False):
    x = c.vec('x', n)
    if default == 'lower_only':                 # documented defaults: lower = 0, upper = 1, each on its own
        lo = c.vec('l', n); up = 0.0 * x + 1.0
        for i in range(n): c.assume(lo[i] <= 1)
        z = S.ProjectBox(x, lo)
    elif default == 'upper_only':
        up = c.vec('u', n); lo = 0.0 * x
        for i in range(n): c.assume(up[i] >= 0)
        z = S.ProjectBox(x, upper=up)
    elif default == 'scalar_bounds':
        l0 = c.real('l0'); u0 = c.real('u0'); c.assume(l0 <= u0)
        lo, up = 0.0 * x + l0, 0.0 * x + u0
        z = S.ProjectBox(x, l0, u0)
    elif default:
        lo, up = 0.0 * x, 0.0 * x + 1.0
        z = S.ProjectBox(x)
    else:
        lo, up = c.vec('l', n), c.vec('u', n)
        for i in range(n): c.assume(lo[i] <= up[i])
        z = S.ProjectBox(x, lo, up)
    w = c.vec('w', n)                      # arbitrary competitor in the box
    for i in range(n):
        c.holds(f'feasible[{i}]', c.And(lo[i] <= z[i], z[i] <= up[i]))
        # variational inequality of the Euclidean projection: (w - z)(x - z) <= 0 for all w in the box
        c.holds(f'projection_vi[{i}]', c.Implies(c.And(lo[i] <= w[i], w[i] <= up[i]), (w[i] - z[i]) * (x[i] - z[i]) <= 0))


def project_nonneg(c, n=2):
    x = c.vec('x', n); z = S.ProjectNonnegative(x); w = c.vec('w', n, nonneg=True)
    for i in range(n):
        c.holds(f'feasible[{i}]', z[i] >= 0)
        c.holds(f'projection_vi[{i}]', (w[i] - z[i]) * (x[i] - z[i]) <= 0)


def prox_l1(c, n=2):
    x = c.vec('x', n); g = c.real('gamma', nonneg=True)
    z = S.ProximalL1(x, g)
    for i in range(n):
        # optimality of  min_z 1/2 (z-x)^2 + gamma |z| :  x - z in gamma * d|z|
        c.holds(f'kkt_pos[{i}]', c.Implies(z[i] > 0, c.close(x[i] - z[i], g)))
        c.holds(f'kkt_neg[{i}]', c.Implies(z[i] < 0, c.close(x[i] - z[i], -g)))
        c.holds(f'kkt_zero[{i}]', c.Implies(z[i] == 0, c.And(x[i] <= g, x[i] >= -g)))


# ---------------------------------------------------------------------------------------------
# CGLS / PCGLS: loop invariants over abstract operator
# ---------------------------------------------------------------------------------------------
def _cgls_setup(c, form, precond=False):
    Afun, A = c.linop('A')
    b = c.avec('b') if c.sym else np.array([c.real(f'b{i}') for i in range(c.numdim + 1)])
    x0 = c.avec('x0')
    shift = c.real('shift', nonneg=True); tol = c.real('tol', lo=0, hi=1)
    if form == 'matrix':
        Aarg = AMat(A) if c.sym else A
    else:
        Aarg = Afun
    if not precond:
        s = S.CGLS(Aarg, b, x0, 10 ** 9, tol, shift)
        return s, Afun, b, x0, shift, tol, None
    # PCGLS: bypass __init__ (which inverts a sparse matrix) and give the inverse preconditioner abstractly
    Pfun, P = c.linop('Pinv', mdim=c.numdim)
    s = S.PCGLS.__new__(S.PCGLS)
    s._A = Aarg; s._b = b; s._x0 = x0; s._maxit = 10 ** 9; s._tol = tol; s._shift = shift
    s._explicitA = (form == 'matrix'); s._explicitPinv = True
    s._Pinv = AMat(P) if c.sym else P
    return s, Afun, b, x0, shift, tol, Pfun


def _nres(c, Afun, Pfun, b, x, shift):
    """(preconditioned) residual of the shifted normal equations at x"""
    g = Afun(b - Afun(x, 1), 2) - shift * x
    return g if Pfun is None else Pfun(g, 2)


def pcgls_preconditioner(c, branch, form='matrix'):
    """the REAL PCGLS constructor with a sparse, NON-symmetric preconditioner on both of its branches (explicit inverse below config.MAX_DIM_INV, sparse solves
    at or above it): the two applications are P^-1 x and P^-T y, and the solve run to convergence returns the solution of the shifted normal equations
    (bounded stand-in: native, sizes 6x4)"""
    from cuqi import config
    import scipy.sparse as sp
    m, n = 6, 4
    old = config.MAX_DIM_INV; config.MAX_DIM_INV = 10 ** 6 if branch == 'explicit_inverse' else 0
    try:
        A = np.array([[c.real(f'A{i}{j}') for j in range(n)] for i in range(m)]); b = np.array([c.real(f'b{i}') for i in range(m)])
        x0 = np.array([c.real(f'x0{j}') for j in range(n)]); shift = c.real('shift', lo=0, hi=2)
        Pd = np.diag([1.0 + c.real(f'pd{j}', lo=0, hi=2) for j in range(n)]) + np.diag([c.real(f'pu{j}', lo=-1, hi=1) for j in range(n - 1)], 1)   # upper bidiagonal
        Aarg = A if form == 'matrix' else (lambda v, flag: A @ v if flag == 1 else A.T @ v)
        s = S.PCGLS(Aarg, b, x0.copy(), sp.csc_matrix(Pd), 400, 1e-13, shift)
        x = np.array([c.real(f'x{j}') for j in range(n)]); y = np.array([c.real(f'y{j}') for j in range(n)])
        c.eq('forward_application_is_P_inverse', np.asarray(s._apply_Pinv(x, 1)).ravel(), np.linalg.solve(Pd, x), tol=1e-9)
        c.eq('adjoint_application_is_P_inverse_transposed', np.asarray(s._apply_Pinv(y, 2)).ravel(), np.linalg.solve(Pd.T, y), tol=1e-9)
        xs, its = s.solve()
        c.eq('converged_solution_solves_the_shifted_normal_equations', (A.T @ A + shift * np.eye(n)) @ np.asarray(xs).ravel(), A.T @ b, tol=1e-6)
        c.eq('start_vector_not_modified', s._x0, x0, tol=0)
    finally:
        config.MAX_DIM_INV = old


def cgls_long_run(c, cls, form):
    """a run of well over a hundred iterations (120 x 80 system, condition number about 10, tight tolerance): the converged point solves the normal equations,
    in both operator forms, with the same iteration count (bounded stand-in: native; long runs are where periodic safeguards would act)"""
    rng = np.random.default_rng(int(c.real('seed', lo=0, hi=10 ** 6)))
    m, n = 120, 80
    A = rng.standard_normal((m, n)); b = rng.standard_normal(m); x0 = rng.standard_normal(n)
    Aarg = A if form == 'matrix' else (lambda v, flag: A @ v if flag == 1 else A.T @ v)
    if cls == 'CGLS': xs, k = S.CGLS(Aarg, b, x0.copy(), 2000, 1e-13).solve()
    else:
        import scipy.sparse as sp
        xs, k = S.PCGLS(Aarg, b, x0.copy(), sp.identity(n, format='csc'), 2000, 1e-13).solve()
    ref = np.linalg.solve(A.T @ A, A.T @ b)
    c.holds('harness:the_run_is_long', k > 60, note=f"{k} iterations")
    c.holds('converged_solution_solves_the_normal_equations', bool(np.linalg.norm(xs - ref) <= 1e-8 * np.linalg.norm(ref)), note=f"relative error {np.linalg.norm(xs - ref) / np.linalg.norm(ref):.3g} after {k} iterations")


def cgls_large_norm_start(c, cls):
    """'from any starting point': a start vector (or solution) of large norm - the same well-conditioned system in other units. The solver either reaches its
    relative-residual criterion, or uses up its iteration budget (k == maxit tells the caller); it must not hand back an unconverged point after a few
    iterations without any sign (bounded stand-in: native)"""
    m, n = 4, 3
    A = np.array([[c.real(f'A{i}{j}') for j in range(n)] for i in range(m)]) + np.vstack([2 * np.eye(n), np.zeros((1, n))])
    b = np.array([c.real(f'b{i}') for i in range(m)])
    x0 = 3e6 * np.ones(n) + np.array([c.real(f'x0{j}') for j in range(n)])
    tol, maxit = 1e-6, 200
    if cls == 'CGLS': xs, k = S.CGLS(A, b, x0.copy(), maxit, tol).solve()
    else:
        import scipy.sparse as sp
        xs, k = S.PCGLS(A, b, x0.copy(), sp.identity(n, format='csc'), maxit, tol).solve()
    g0 = np.linalg.norm(A.T @ (b - A @ x0)); g = np.linalg.norm(A.T @ (b - A @ xs))
    c.holds('stops_before_the_budget_only_at_the_relative_residual_criterion', bool(k >= maxit or g <= 10 * tol * g0), note=f"stopped after {k} of {maxit} iterations with |A^T r| = {g:.3g} (start {g0:.3g})")


def lm_converged(c, problem, nu0):
    """the REAL Levenberg-Marquardt solver run to convergence on standard non-linear least-squares problems (starting points perturbed), for default and
    non-default damping floors nu0: the returned point is a stationary point of the sum of squares (bounded stand-in: native)"""
    d = 0.05 * np.array([c.real('d0'), c.real('d1')])
    if problem == 'rosenbrock':
        r = lambda x: np.array([10 * (x[1] - x[0] ** 2), 1 - x[0]]); Jf = lambda x: np.array([[-20 * x[0], 10.0], [-1.0, 0.0]]); x0 = np.array([-1.2, 1.0]) + d
    elif problem == 'freudenstein_roth':
        r = lambda x: np.array([-13 + x[0] + ((5 - x[1]) * x[1] - 2) * x[1], -29 + x[0] + ((x[1] + 1) * x[1] - 14) * x[1]])
        Jf = lambda x: np.array([[1.0, 10 * x[1] - 3 * x[1] ** 2 - 2], [1.0, 3 * x[1] ** 2 + 2 * x[1] - 14]]); x0 = np.array([0.5, -2.0]) + d
    else:                                                   # residuals in small units
        r = lambda x: 1e-2 * np.array([10 * (x[1] - x[0] ** 2), 1 - x[0]]); Jf = lambda x: 1e-2 * np.array([[-20 * x[0], 10.0], [-1.0, 0.0]]); x0 = np.array([-1.2, 1.0]) + d
    g0 = np.linalg.norm(Jf(x0).T @ r(x0))
    xs, info = S.LM(r, x0.copy(), Jf, maxit=20000, gradtol=1e-8, nu0=nu0, sparse=False).solve()
    g = np.linalg.norm(Jf(xs).T @ r(xs))
    c.holds('returned_point_is_stationary_for_the_sum_of_squares', bool(g <= 1e-6 * g0), note=f"|J^T r| = {g:.3g} (start {g0:.3g})")


def cgls_converged(c, m, n, form, shifted, start='random'):
    """the REAL CGLS (public constructor, generous iteration budget) run to convergence from a random start vector on over- and UNDER-determined systems, with
    and without shift: the returned point solves (A^T A + shift I) x = A^T b (bounded stand-in: native)"""
    A = np.array([[c.real(f'A{i}{j}') for j in range(n)] for i in range(m)]); b = np.array([c.real(f'b{i}') for i in range(m)])
    x0 = np.array([c.real(f'x0{j}') for j in range(n)]); shift = (0.3 + abs(c.real('shift'))) if shifted else 0.0
    # 'from any starting point': also the zero vector, a coordinate vector, a vector with some entries exactly zero (thresholded / padded warm starts)
    if start == 'zero': x0 = 0.0 * x0
    elif start == 'coordinate_vector': x0 = np.eye(n)[0] * (1.0 + abs(x0[0]))
    elif start == 'partly_zero': x0 = x0 * (np.arange(n) % 2)
    Aarg = A if form == 'matrix' else (lambda v, flag: A @ v if flag == 1 else A.T @ v)
    xs, its = S.CGLS(Aarg, b, x0.copy(), 500, 1e-14, shift).solve()
    xs = np.asarray(xs, dtype=float).ravel()
    if shifted or m >= n:
        c.eq('converged_solution_solves_the_shifted_normal_equations', (A.T @ A + shift * np.eye(n)) @ xs, A.T @ b, tol=1e-7)
    else:
        c.eq('converged_solution_solves_the_normal_equations', A.T @ (A @ xs - b), np.zeros(n), tol=1e-7)
        # without shift the component of the start vector in the null space of A is left alone
        Pnull = np.eye(n) - np.linalg.pinv(A) @ A
        c.eq('null_space_component_of_the_start_vector_is_kept', Pnull @ xs, Pnull @ x0, tol=1e-7)


def cgls_init(c, form='function', precond=False):
    s, Afun, b, x0, shift, tol, Pfun = _cgls_setup(c, form, precond)
    pre, cond, body, post, names, info = loops.split_loop(type(s).solve, 0)
    tag, st = pre({'self': s})
    c.eq('x_is_x0', st['x'], x0)
    c.eq('inv_r', st['r'], b - Afun(st['x'], 1))
    c.eq('inv_s', st['s'], _nres(c, Afun, Pfun, b, st['x'], shift))
    c.eq('inv_gamma', st['gamma'], st['s'] @ st['s'])
    c.eq('norms0', st['norms0'] * st['norms0'], st['s'] @ st['s'])
    c.holds('norms0_nonneg', st['norms0'] >= 0)
    c.holds('x0_not_aliased', st['x'] is not x0)
    c.eq('p_is_s', st['p'], st['s'])


def cgls_step(c, form='function', precond=False):
    """one arbitrary iteration from an arbitrary state satisfying the invariant"""
    s, Afun, b, x0, shift, tol, Pfun = _cgls_setup(c, form, precond)
    pre, cond, body, post, names, info = loops.split_loop(type(s).solve, 0)
    xk = c.avec('xk'); pk = c.avec('pk')
    r = b - Afun(xk, 1); sv = _nres(c, Afun, Pfun, b, xk, shift)          # invariant as substitution
    gamma = sv @ sv
    norms0 = c.real('norms0', pos=True)
    st = dict(self=s, x=xk, r=r, s=sv, p=pk, gamma=gamma, norms0=norms0, normx=c.real('normx', nonneg=True),
              xmax=c.real('xmax', nonneg=True), k=3, flag=0, indefinite=0)
    x_before = xk.copy()
    tag, st2 = body(st)
    c.holds('body_falls_through', tag == '__next')
    x2 = st2['x']
    c.eq('inv_r', st2['r'], b - Afun(x2, 1))
    c.eq('inv_s', st2['s'], _nres(c, Afun, Pfun, b, x2, shift))
    c.eq('inv_gamma', st2['gamma'], st2['s'] @ st2['s'])
    c.eq('norms0_kept', st2['norms0'], norms0)
    c.holds('k_incremented', st2['k'] == 4)
    # the flag is exactly the documented stopping rule evaluated at the new iterate
    ns = c.norm(_nres(c, Afun, Pfun, b, x2, shift)); nx = c.norm(x2)
    flag = st2['flag']
    c.holds('flag_is_stopping_rule', c.Iff(flag if not isinstance(flag, (int,)) else bool(flag),
                                          c.Or(ns <= norms0 * tol, nx * tol >= 1)))
    c.eq('x0_untouched', s.x0 if not precond else s._x0, x0)
    # exit through the residual criterion => relative residual bound of the (shifted, preconditioned) normal equations
    tag3, cont = '__c', cond(st2)
    if not bool(cont):
        tagp, ret = post(st2)
        c.holds('post_returns', tagp == '__ret')
        xr, kr = ret
        c.eq('returns_iterate', xr, x2)
        c.holds('exit_condition', c.Or(c.norm(_nres(c, Afun, Pfun, b, xr, shift)) <= tol * norms0, c.norm(xr) * tol >= 1))


# ---------------------------------------------------------------------------------------------
# FISTA: exit contract on the cut loop (while True with return in the body)
# ---------------------------------------------------------------------------------------------
def fista_step(c, form='function', adaptive=True):
    Afun, A = c.linop('A')
    b = c.avec('b') if c.sym else np.array([c.real(f'b{i}') for i in range(c.numdim + 1)])
    t = c.real('t', pos=True); abstol = c.real('abstol', pos=True)
    proxf = c.vvfun('prox')
    calls = []
    def prox(v, g):
        calls.append(g); return proxf(v)
    Aarg = (AMat(A) if c.sym else A) if form == 'matrix' else Afun
    f = S.FISTA(Aarg, b, c.avec('x0'), prox, maxit=10 ** 9, stepsize=t, abstol=abstol, adaptive=adaptive)
    pre, cond, body, post, names, info = loops.split_loop(S.FISTA.solve, 0)
    def one_step(rhs, label):
        """one arbitrary iteration of the cut loop for the right-hand side the solver object currently holds"""
        del calls[:]
        tag0, st = pre({'self': f})                              # whatever solve() sets up before the loop, from the real code
        c.eq(f'{label}starts_from_x0', st['x'], c.avec('x0')); c.holds(f'{label}counter_starts_at_zero', st['k'] == 0)
        xk = c.avec('xk')
        st = dict(st); st.update(x=xk, stepsize=t, k=7)
        tag, val = body(st)
        spec = proxf(xk - t * Afun(Afun(xk, 1) - rhs, 2))
        c.holds(f'{label}prox_called_once_with_stepsize', len(calls) == 1)
        c.eq(f'{label}prox_gamma_is_stepsize', calls[0], t)
        if tag == '__ret':
            xr, k = val
            c.eq(f'{label}exit_is_prox_gradient_point', xr, spec)
            c.holds(f'{label}exit_fixed_point_residual', c.norm(xr - xk) <= abstol)
        else:
            c.holds(f'{label}continues_only_if_not_converged', c.norm(spec - xk) > abstol)
            mom = spec + ((7 + 1 - 1) / (7 + 1 + 2)) * (spec - xk) if adaptive else spec
            c.eq(f'{label}momentum_update', val['x'], mom)
            c.holds(f'{label}k_incremented', val['k'] == 8)
    one_step(b, '')
    # history: the same solver object is given a new right-hand side (public attribute) and solved again
    b2 = c.avec('b2') if c.sym else np.array([c.real(f'bb{i}') for i in range(c.numdim + 1)])
    f.b = b2
    one_step(b2, 'after_reassigning_b:')


# ---------------------------------------------------------------------------------------------
# Levenberg-Marquardt: invariant r = A(x), J = jac(x), g = J^T r on the cut loop; exit through the gradient criterion
# ---------------------------------------------------------------------------------------------
def lm_loop(c, m=2, n=2, sparse=False, damping='positive'):
    A = lambda v: np.array([c.uf(f'res{i}', *list(v)) for i in range(m)], dtype=object if c.sym else float)
    Jf = lambda v: np.array([[c.uf(f'jac{i}{j}', *list(v)) for j in range(n)] for i in range(m)], dtype=object if c.sym else float)
    x0 = c.vec('x0', n); gradtol = c.real('gradtol', lo=0, hi=1)
    if sparse:
        Jd = Jf; Jf = (lambda v: shims.STag(Jd(v), 'csr')) if c.sym else (lambda v: __import__('scipy.sparse', fromlist=['x']).csr_matrix(Jd(v)))
    s = S.LM(A, x0, Jf, maxit=10 ** 6, gradtol=gradtol, nu0=1e-3, sparse=sparse)
    pre, cond, body, post, names, info = loops.split_loop(S.LM.solve, 0)
    tag, st = pre({'self': s})
    c.eq('init_r_is_residual_at_x0', st['r'], A(x0)); c.eq('init_J_is_jacobian_at_x0', st['J'], Jf(x0))
    c.eq('init_g_is_JT_r', st['g'], Jf(x0).T @ A(x0)); c.eq('init_gradient_norm', st['ng'] * st['ng'], np.sum((Jf(x0).T @ A(x0)) ** 2))
    c.eq('reference_gradient_norm_is_initial', st['ng0'], st['ng'])
    # one arbitrary iteration from a state satisfying the invariant
    # nu = 0 is reachable (the code switches damping off after good steps); the step solves (J^T J + nu I) s = g, which is a well-posed system for nu > 0, and
    # for nu = 0 only when J has full column rank - impossible for m < n, where the code's own solve raises (loudly): there the state quantifies over nu > 0
    # The reachable states are covered by two jobs: damping='positive' (nu > 0, every m, n) and damping='off' (nu = 0 exactly, m >= n only).
    xk = c.vec('xk', n); nu = c.real('nu', pos=True) if damping == 'positive' else (0.0 * c.real('nu', pos=True)); ng0 = c.real('ng0', pos=True)
    gk = Jf(xk).T @ A(xk)
    st1 = dict(st); st1.update(x=xk, r=A(xk), J=Jf(xk), g=gk, ng=c.sqrt(np.sum(gk ** 2)), ng0=ng0, nu=nu, f=0.5 * (A(xk) @ A(xk)), i=3)
    tag, st2 = body(st1)
    c.holds('body_falls_through', tag == '__next')
    x2 = st2['x']
    c.eq('inv_r_is_residual_at_current_x', st2['r'], A(x2)); c.eq('inv_J_is_jacobian_at_current_x', st2['J'], Jf(x2))
    c.eq('inv_g_is_JT_r', st2['g'], Jf(x2).T @ A(x2)); c.eq('inv_gradient_norm', st2['ng'] * st2['ng'], np.sum((Jf(x2).T @ A(x2)) ** 2))
    c.holds('gradient_norm_nonnegative', st2['ng'] >= 0)
    c.eq('reference_norm_kept', st2['ng0'], ng0)
    if c.sym: unchanged = all(core.T(a).eq(core.T(b)) for a, b in zip(x2, xk))
    else: unchanged = bool(np.array_equal(np.asarray(x2, dtype=float), np.asarray(xk, dtype=float)))
    if unchanged:
        c.holds('rejected_step_increases_damping', st2['nu'] > nu)
    else:
        c.eq('accepted_iterate_is_damped_gauss_newton_step', (Jf(xk).T @ Jf(xk) + nu * np.eye(n)) @ (xk - x2), gk)
    if not bool(cond(st2)):
        tagp, ret = post(st2)
        xr, inf = ret
        c.eq('returns_current_iterate', xr, x2)
        c.holds('exit_through_gradient_criterion_gives_stationarity_bound', c.Or(c.sqrt(np.sum((Jf(xr).T @ A(xr)) ** 2)) <= gradtol * ng0, st2['i'] >= 10 ** 6))
        c.eq('info_func_is_residual_at_solution', inf['func'], A(xr)); c.eq('info_jac_is_jacobian_at_solution', inf['Jac'], Jf(xr))


# ---------------------------------------------------------------------------------------------
# SciPy wrappers: what is passed in and what is handed back
# ---------------------------------------------------------------------------------------------
def scipy_wrappers(c, which):
    calls = {}
    x = c.vec('xs', 2)
    def fake_minimize(func, x0, jac=None, method=None, **kw):
        calls.update(func=func, x0=x0, jac=jac, method=method, kw=kw)
        return dict(x=x, success='SUCC', message='MSG', fun='FUN', jac='JAC', nit='NIT', nfev='NFEV')
    def fake_lbfgsb(func, x0, fprime=None, approx_grad=0, **kw):
        calls.update(func=func, x0=x0, jac=fprime, approx_grad=approx_grad, kw=kw)
        return (x, 'FUN', dict(warnflag=calls.get('warn', 0), grad='GRAD', nit='NIT', funcalls='NFEV', task='TASK'))
    def fake_ls(func, x0, jac=None, method=None, loss=None, xtol=None, max_nfev=None):
        calls.update(func=func, x0=x0, jac=jac, method=method, loss=loss, xtol=xtol, max_nfev=max_nfev)
        return dict(x=x, success='SUCC', message='MSG', fun='FUN', jac='JAC', nfev='NFEV')
    saved = (S.opt, S.fmin_l_bfgs_b, S.least_squares)
    import types
    S.opt = types.SimpleNamespace(minimize=fake_minimize); S.fmin_l_bfgs_b = fake_lbfgsb; S.least_squares = fake_ls
    try:
        f = lambda v: c.uf('obj', *list(v)); g = lambda v: np.array([c.uf(f'gobj{i}', *list(v)) for i in range(2)], dtype=object if c.sym else float)
        x0 = c.vec('x0', 2); v = c.vec('v', 2)
        if which in ('minimize', 'maximize'):
            cls = getattr(S, which)
            sol, info = cls(f, x0, gradfunc=g, method='BFGS', tolx=3).solve()
            sign = -1 if which == 'maximize' else 1
            c.eq('objective_passed_with_correct_sign', calls['func'](v), sign * f(v)); c.eq('gradient_passed_with_correct_sign', calls['jac'](v), sign * g(v))
            c.holds('start_method_and_options_passed_through', calls['x0'] is x0 and calls['method'] == 'BFGS' and calls['kw'] == dict(tolx=3))
            c.holds('solution_is_scipys_x', sol is x)
            c.holds('info_fields_from_the_right_keys', info == dict(success='SUCC', message='MSG', func='FUN', grad='JAC', nit='NIT', nfev='NFEV'), note=str(info))
            sol2, _ = cls(f, x0).solve()
            c.holds('no_gradient_means_none_is_passed', calls['jac'] is None)
        elif which == 'L_BFGS_B':
            sol, info = S.L_BFGS_B(f, x0, gradfunc=g, maxiter=7).solve()
            c.eq('objective_passed_unchanged', calls['func'](v), f(v)); c.eq('gradient_passed_unchanged', calls['jac'](v), g(v))
            c.holds('exact_gradient_flag', calls['approx_grad'] == 0 and calls['kw'] == dict(maxiter=7))
            c.holds('solution_is_scipys_x', sol is x)
            c.holds('info_fields_from_the_right_keys', info == dict(success=1, message='Optimization terminated successfully.', func='FUN', grad='GRAD', nit='NIT', nfev='NFEV'), note=str(info))
            S.L_BFGS_B(f, x0).solve()
            c.holds('approximate_gradient_flag_without_gradient', calls['approx_grad'] == 1 and calls['jac'] is None)
            calls['warn'] = 1; _, i1 = S.L_BFGS_B(f, x0).solve(); calls['warn'] = 2; _, i2 = S.L_BFGS_B(f, x0).solve()
            c.holds('failure_flags_reported', i1['success'] == 0 and i2['success'] == 0 and i2['message'] == 'TASK')
        else:
            sol, info = S.LS(f, x0, jacfun=g, method='lm', loss='huber', tol=1e-3, maxit=50).solve()
            c.holds('arguments_passed_through', calls['func'] is f and calls['jac'] is g and calls['method'] == 'lm' and calls['loss'] == 'huber' and calls['xtol'] == 1e-3 and calls['max_nfev'] == 50 and calls['x0'] is x0)
            c.holds('solution_is_scipys_x', sol is x)
            c.holds('info_fields_from_the_right_keys', info == dict(success='SUCC', message='MSG', func='FUN', jac='JAC', nfev='NFEV'), note=str(info))
    finally:
        S.opt, S.fmin_l_bfgs_b, S.least_squares = saved


def jobs(tier):
    J = []
    F = lambda *n: [f"{M}:{x}" for x in n]
    for n in ([1, 2] if tier == 'quick' else [1, 2, 3]):
        J.append(Job(f'ProjectBox:n={n}', lambda c, n=n: project_box(c, n), 'Pbox', F('ProjectBox'), _extra))
        J.append(Job(f'ProjectBox:default_bounds:n={n}', lambda c, n=n: project_box(c, n, True), 'Pbox', F('ProjectBox'), _extra))
        for opt in ('lower_only', 'upper_only', 'scalar_bounds'):
            J.append(Job(f'ProjectBox:{opt}:n={n}', lambda c, n=n, o=opt: project_box(c, n, o), 'Pbox', F('ProjectBox'), _extra))
        J.append(Job(f'ProjectNonnegative:n={n}', lambda c, n=n: project_nonneg(c, n), 'Pbox', F('ProjectNonnegative'), _extra))
        J.append(Job(f'ProximalL1:n={n}', lambda c, n=n: prox_l1(c, n), 'Pbox', F('ProximalL1'), _extra))
    for form in ('function', 'matrix'):
        J.append(Job(f'CGLS.solve:init:{form}', lambda c, form=form: cgls_init(c, form), 'Pinf', F('CGLS.solve', 'CGLS.__init__'), _extra))
        J.append(Job(f'CGLS.solve:loop0:{form}', lambda c, form=form: cgls_step(c, form), 'Pinf', F('CGLS.solve'), _extra))
        J.append(Job(f'PCGLS.solve:init:{form}', lambda c, form=form: cgls_init(c, form, True), 'Pinf', F('PCGLS.solve', 'PCGLS._apply_A', 'PCGLS._apply_Pinv'), _extra))
        J.append(Job(f'PCGLS.solve:loop0:{form}', lambda c, form=form: cgls_step(c, form, True), 'Pinf', F('PCGLS.solve', 'PCGLS._apply_A', 'PCGLS._apply_Pinv'), _extra))
        for ad in (True, False):
            J.append(Job(f'FISTA.solve:loop0:{form}:adaptive={ad}', lambda c, form=form, ad=ad: fista_step(c, form, ad), 'Pinf', F('FISTA.solve'), _extra))
    for (m_, n_) in ((6, 3), (3, 6), (4, 4)):
        for form in ('matrix', 'function'):
            for sh in (False, True):
                if tier == 'quick' and form == 'function' and not sh: continue
                J.append(Job(f'CGLS:real_constructor:run_to_convergence:m={m_}:n={n_}:{form}:shift={sh}', lambda c, m_=m_, n_=n_, f=form, sh=sh: cgls_converged(c, m_, n_, f, sh), 'B', F('CGLS.__init__', 'CGLS.solve'), nnum=4))
    for branch in ('explicit_inverse', 'sparse_solves'):
        for form in ('matrix', 'function'):
            J.append(Job(f'PCGLS:real_constructor:nonsymmetric_sparse_preconditioner:{branch}:{form}', lambda c, br=branch, f=form: pcgls_preconditioner(c, br, f), 'B',
                         F('PCGLS.__init__', 'PCGLS._apply_Pinv', 'PCGLS.solve'), nnum=6))
    J.append(Job('LM.solve:loop0:invariant_and_exit:m=2:n=1:sparse', lambda c: lm_loop(c, 2, 1, True), 'B', F('LM.solve', 'LM.__init__'), rtol=1e-5, nnum=12))   # sparse branch (spsolve, sparse identity): native only
    for (m_, n_) in ((2, 1),) if tier == 'quick' else ((2, 1), (1, 2), (2, 2)):
        J.append(Job(f'LM.solve:loop0:invariant_and_exit:m={m_}:n={n_}', lambda c, m_=m_, n_=n_: lm_loop(c, m_, n_), 'Pbox', F('LM.solve', 'LM.__init__'), _extra, maxpaths=2048, timeout=1500, rtol=1e-5))
        # (nu = 0 at n = 2: the undamped normal equations exceed the solvers' budget - bounded stand-in there)
        if m_ >= n_: J.append(Job(f'LM.solve:loop0:invariant_and_exit:m={m_}:n={n_}:damping_switched_off', lambda c, m_=m_, n_=n_: lm_loop(c, m_, n_, False, 'off'), 'Pbox' if n_ == 1 else 'B', F('LM.solve', 'LM.__init__'), _extra if n_ == 1 else None, maxpaths=2048, timeout=1500, rtol=1e-5, nnum=None if n_ == 1 else 40))
    for w in ('minimize', 'maximize', 'L_BFGS_B', 'LS'):
        J.append(Job(f'{w}.solve:scipy_wrapper', lambda c, w=w: scipy_wrappers(c, w), 'Pbox', F(f'{w}.solve', f'{w}.__init__'), _extra))
    for problem in ('rosenbrock', 'freudenstein_roth', 'rosenbrock_small_units'):
        for nu0 in (1e-3, 1.0, 10.0):
            if problem.endswith('small_units') and nu0 > 1e-3: continue     # damping far above |J^T J|: (slow) gradient descent, convergence within a budget is not promised
            J.append(Job(f'LM:real_constructor:run_to_convergence:{problem}:nu0={nu0:g}', lambda c, p_=problem, nu0=nu0: lm_converged(c, p_, nu0), 'B', F('LM.__init__', 'LM.solve'), nnum=3))
    for cls in ('CGLS', 'PCGLS'):
        J.append(Job(f'{cls}:real_constructor:start_vector_of_large_norm', lambda c, cls=cls: cgls_large_norm_start(c, cls), 'B', F(f'{cls}.solve'), nnum=3))
    for start in ('zero', 'coordinate_vector', 'partly_zero'):
        for form in ('matrix', 'function'):
            J.append(Job(f'CGLS:real_constructor:run_to_convergence:m=4:n=3:{form}:shift=True:start={start}', lambda c, f=form, st=start: cgls_converged(c, 4, 3, f, True, st), 'B', F('CGLS.__init__', 'CGLS.solve'), nnum=3))
    for cls in ('CGLS', 'PCGLS'):
        for form in ('matrix', 'function'):
            J.append(Job(f'{cls}:real_constructor:long_run:m=120:n=80:{form}', lambda c, cls=cls, f=form: cgls_long_run(c, cls, f), 'B', F(f'{cls}.solve'), nnum=2))
    return J
