"""C16 — solvers return points that satisfy the optimality conditions of their problem.

Contracts (sidecar) on cuqi.solver._solver: CGLS.solve, PCGLS.solve, FISTA.solve (loops cut mechanically,
abstract operators: every dimension, every iteration count), ProjectNonnegative/ProjectBox/ProximalL1
(coordinate-wise KKT systems), LM.solve exit, SciPy wrappers (pass-through)."""
import numpy as np
from pvc.runner import Job
from pvc import core, loops, shims
from pvc.avec import AVec, ALin, AMat
import cuqi.solver._solver as S

M = 'cuqi.solver._solver'
EXPLANATION = ("Loop invariants on the mechanically cut loops of CGLS/PCGLS/FISTA over abstract vectors/operators "
               "(all dimensions, all iteration counts); exit contracts; KKT systems of the projections and the L1 prox.")
ASSUMPTIONS = ["convergence of CG / FISTA / LM in finitely many iterations is numerical-analysis theory (not decided); only exit-condition postconditions are proved",
               "Euclidean projection onto a box / prox of the L1 norm are separable, so the coordinate-wise KKT system characterises them (cited)"]


def _extra():
    return {}


# ---------------------------------------------------------------------------------------------
# projections and soft-thresholding: exact coordinate-wise characterisation
# ---------------------------------------------------------------------------------------------
def project_box(c, n=2, default=False):
    x = c.vec('x', n)
    if default:
        lo, up = 0.0 * x, 0.0 * x + 1.0
        z = S.ProjectBox(x)
    else:
        lo, up = c.vec('l', n), c.vec('u', n)
        for i in range(n): c.assume(lo[i] <= up[i])
        z = S.ProjectBox(x, lo, up)
    w = c.vec('w', n)                      # arbitrary competitor in the box
    for i in range(n):
        c.holds(f'feasible[{i}]', c.And(lo[i] <= z[i], z[i] <= up[i]))
        # variational inequality of the Euclidean projection: (w - z)(x - z) <= 0 for all w in the box
        c.holds(f'projection_vi[{i}]', c.Implies(c.And(lo[i] <= w[i], w[i] <= up[i]), (w[i] - z[i]) * (x[i] - z[i]) <= 0))


def project_nonneg(c, n=2):
    x = c.vec('x', n); z = S.ProjectNonnegative(x); w = c.vec('w', n, nonneg=True)
    for i in range(n):
        c.holds(f'feasible[{i}]', z[i] >= 0)
        c.holds(f'projection_vi[{i}]', (w[i] - z[i]) * (x[i] - z[i]) <= 0)


def prox_l1(c, n=2):
    x = c.vec('x', n); g = c.real('gamma', nonneg=True)
    z = S.ProximalL1(x, g)
    for i in range(n):
        # optimality of  min_z 1/2 (z-x)^2 + gamma |z| :  x - z in gamma * d|z|
        c.holds(f'kkt_pos[{i}]', c.Implies(z[i] > 0, c.close(x[i] - z[i], g)))
        c.holds(f'kkt_neg[{i}]', c.Implies(z[i] < 0, c.close(x[i] - z[i], -g)))
        c.holds(f'kkt_zero[{i}]', c.Implies(z[i] == 0, c.And(x[i] <= g, x[i] >= -g)))


# ---------------------------------------------------------------------------------------------
# CGLS / PCGLS: loop invariants over abstract operator
# ---------------------------------------------------------------------------------------------
def _cgls_setup(c, form, precond=False):
    Afun, A = c.linop('A')
    b = c.avec('b') if c.sym else np.array([c.real(f'b{i}') for i in range(c.numdim + 1)])
    x0 = c.avec('x0')
    shift = c.real('shift', nonneg=True); tol = c.real('tol', lo=0, hi=1)
    if form == 'matrix':
        Aarg = AMat(A) if c.sym else A
    else:
        Aarg = Afun
    if not precond:
        s = S.CGLS(Aarg, b, x0, 10 ** 9, tol, shift)
        return s, Afun, b, x0, shift, tol, None
    # PCGLS: bypass __init__ (which inverts a sparse matrix) and give the inverse preconditioner abstractly
    Pfun, P = c.linop('Pinv', mdim=c.numdim)
    s = S.PCGLS.__new__(S.PCGLS)
    s._A = Aarg; s._b = b; s._x0 = x0; s._maxit = 10 ** 9; s._tol = tol; s._shift = shift
    s._explicitA = (form == 'matrix'); s._explicitPinv = True
    s._Pinv = AMat(P) if c.sym else P
    return s, Afun, b, x0, shift, tol, Pfun


def _nres(c, Afun, Pfun, b, x, shift):
    """(preconditioned) residual of the shifted normal equations at x"""
    g = Afun(b - Afun(x, 1), 2) - shift * x
    return g if Pfun is None else Pfun(g, 2)


def cgls_init(c, form='function', precond=False):
    s, Afun, b, x0, shift, tol, Pfun = _cgls_setup(c, form, precond)
    pre, cond, body, post, names, info = loops.split_loop(type(s).solve, 0)
    tag, st = pre({'self': s})
    c.eq('x_is_x0', st['x'], x0)
    c.eq('inv_r', st['r'], b - Afun(st['x'], 1))
    c.eq('inv_s', st['s'], _nres(c, Afun, Pfun, b, st['x'], shift))
    c.eq('inv_gamma', st['gamma'], st['s'] @ st['s'])
    c.eq('norms0', st['norms0'] * st['norms0'], st['s'] @ st['s'])
    c.holds('norms0_nonneg', st['norms0'] >= 0)
    c.holds('x0_not_aliased', st['x'] is not x0)
    c.eq('p_is_s', st['p'], st['s'])


def cgls_step(c, form='function', precond=False):
    """one arbitrary iteration from an arbitrary state satisfying the invariant"""
    s, Afun, b, x0, shift, tol, Pfun = _cgls_setup(c, form, precond)
    pre, cond, body, post, names, info = loops.split_loop(type(s).solve, 0)
    xk = c.avec('xk'); pk = c.avec('pk')
    r = b - Afun(xk, 1); sv = _nres(c, Afun, Pfun, b, xk, shift)          # invariant as substitution
    gamma = sv @ sv
    norms0 = c.real('norms0', pos=True)
    st = dict(self=s, x=xk, r=r, s=sv, p=pk, gamma=gamma, norms0=norms0, normx=c.real('normx', nonneg=True),
              xmax=c.real('xmax', nonneg=True), k=3, flag=0, indefinite=0)
    x_before = xk.copy()
    tag, st2 = body(st)
    c.holds('body_falls_through', tag == '__next')
    x2 = st2['x']
    c.eq('inv_r', st2['r'], b - Afun(x2, 1))
    c.eq('inv_s', st2['s'], _nres(c, Afun, Pfun, b, x2, shift))
    c.eq('inv_gamma', st2['gamma'], st2['s'] @ st2['s'])
    c.eq('norms0_kept', st2['norms0'], norms0)
    c.holds('k_incremented', st2['k'] == 4)
    # the flag is exactly the documented stopping rule evaluated at the new iterate
    ns = c.norm(_nres(c, Afun, Pfun, b, x2, shift)); nx = c.norm(x2)
    flag = st2['flag']
    c.holds('flag_is_stopping_rule', c.Iff(flag if not isinstance(flag, (int,)) else bool(flag),
                                          c.Or(ns <= norms0 * tol, nx * tol >= 1)))
    c.eq('x0_untouched', s.x0 if not precond else s._x0, x0)
    # exit through the residual criterion => relative residual bound of the (shifted, preconditioned) normal equations
    tag3, cont = '__c', cond(st2)
    if not bool(cont):
        tagp, ret = post(st2)
        c.holds('post_returns', tagp == '__ret')
        xr, kr = ret
        c.eq('returns_iterate', xr, x2)
        c.holds('exit_condition', c.Or(c.norm(_nres(c, Afun, Pfun, b, xr, shift)) <= tol * norms0, c.norm(xr) * tol >= 1))


# ---------------------------------------------------------------------------------------------
# FISTA: exit contract on the cut loop (while True with return in the body)
# ---------------------------------------------------------------------------------------------
def fista_step(c, form='function', adaptive=True):
    Afun, A = c.linop('A')
    b = c.avec('b') if c.sym else np.array([c.real(f'b{i}') for i in range(c.numdim + 1)])
    t = c.real('t', pos=True); abstol = c.real('abstol', pos=True)
    proxf = c.vvfun('prox')
    calls = []
    def prox(v, g):
        calls.append(g); return proxf(v)
    Aarg = (AMat(A) if c.sym else A) if form == 'matrix' else Afun
    f = S.FISTA(Aarg, b, c.avec('x0'), prox, maxit=10 ** 9, stepsize=t, abstol=abstol, adaptive=adaptive)
    pre, cond, body, post, names, info = loops.split_loop(S.FISTA.solve, 0)
    xk = c.avec('xk')
    tag, val = body(dict(self=f, x=xk, stepsize=t, k=7))
    spec = proxf(xk - t * Afun(Afun(xk, 1) - b, 2))
    c.holds('prox_called_once_with_stepsize', len(calls) == 1)
    c.eq('prox_gamma_is_stepsize', calls[0], t)
    if tag == '__ret':
        xr, k = val
        c.eq('exit_is_prox_gradient_point', xr, spec)
        c.holds('exit_fixed_point_residual', c.norm(xr - xk) <= abstol)
    else:
        c.holds('continues_only_if_not_converged', c.norm(spec - xk) > abstol)
        mom = spec + ((7 + 1 - 1) / (7 + 1 + 2)) * (spec - xk) if adaptive else spec
        c.eq('momentum_update', val['x'], mom)
        c.holds('k_incremented', val['k'] == 8)


def jobs(tier):
    J = []
    F = lambda *n: [f"{M}:{x}" for x in n]
    for n in ([1, 2] if tier == 'quick' else [1, 2, 3]):
        J.append(Job(f'ProjectBox:n={n}', lambda c, n=n: project_box(c, n), 'Pbox', F('ProjectBox'), _extra))
        J.append(Job(f'ProjectBox:default_bounds:n={n}', lambda c, n=n: project_box(c, n, True), 'Pbox', F('ProjectBox'), _extra))
        J.append(Job(f'ProjectNonnegative:n={n}', lambda c, n=n: project_nonneg(c, n), 'Pbox', F('ProjectNonnegative'), _extra))
        J.append(Job(f'ProximalL1:n={n}', lambda c, n=n: prox_l1(c, n), 'Pbox', F('ProximalL1'), _extra))
    for form in ('function', 'matrix'):
        J.append(Job(f'CGLS.solve:init:{form}', lambda c, form=form: cgls_init(c, form), 'Pinf', F('CGLS.solve', 'CGLS.__init__'), _extra))
        J.append(Job(f'CGLS.solve:loop0:{form}', lambda c, form=form: cgls_step(c, form), 'Pinf', F('CGLS.solve'), _extra))
        J.append(Job(f'PCGLS.solve:init:{form}', lambda c, form=form: cgls_init(c, form, True), 'Pinf', F('PCGLS.solve', 'PCGLS._apply_A', 'PCGLS._apply_Pinv'), _extra))
        J.append(Job(f'PCGLS.solve:loop0:{form}', lambda c, form=form: cgls_step(c, form, True), 'Pinf', F('PCGLS.solve', 'PCGLS._apply_A', 'PCGLS._apply_Pinv'), _extra))
        for ad in (True, False):
            J.append(Job(f'FISTA.solve:loop0:{form}:adaptive={ad}', lambda c, form=form, ad=ad: fista_step(c, form, ad), 'Pinf', F('FISTA.solve'), _extra))
    return J
