"""C19 — sample statistics and burn-in/thinning are exact functions of the stored chain."""
import types
import numpy as np
import z3
from pvc.runner import Job
from pvc import core, shims
from pvc.ghost import sint, SInt, GhostArray
import cuqi
from cuqi.samples import Samples, JointSamples
import cuqi.samples._samples as SM

S = 'cuqi.samples._samples'
EXPLANATION = ("burnthin with symbolic chain length N, burn-in Nb and thinning Nt on a ghost array: the subscript the code applies is read off as terms "
               "(all N, Nb, Nt); statistics: the numpy reduction is applied to the stored array along the sample axis with the documented percentiles (symbolic level); "
               "function-value statistics are those of the converted samples; ESS/R-hat receive each variable's chain unpermuted.")
ASSUMPTIONS = ["Python slice semantics: a[..., b::t] with b >= 0, t >= 1 selects exactly the indices b, b+t, b+2t, ... < N in order (conformance-tested against CPython on every run)",
               "numpy's percentile is monotone in the requested level (lower <= median <= upper)",
               "arviz computes ESS / R-hat per dictionary entry (only the dictionary handed over is verified)"]


def burnthin_symbolic(c, kind='Samples'):
    """all N, Nb, Nt at once (symbolic integers; the sample array is a ghost whose subscripts are recorded)"""
    N, Nb, Nt = sint('N'), sint('Nb'), sint('Nt')
    core.ST.base += [N.t >= 1, Nb.t >= 0, Nt.t >= 1]
    arr = GhostArray('chain', (3, N))
    geom = cuqi.geometry.Continuous1D(3)
    s = Samples(arr, geom)
    def run(): return s.burnthin(Nb, Nt) if kind == 'Samples' else JointSamples({'x': s, 'y': Samples(GhostArray('chain2', (2, N)), cuqi.geometry.Discrete(2))}).burnthin(Nb, Nt)
    if bool(Nb >= N):
        c.expect_raise('burn_in_not_smaller_than_chain_is_refused', run, ValueError)
        return
    r = run()
    outs = [('x', r, arr, geom)] if kind == 'Samples' else [('x', r['x'], arr, geom), ('y', r['y'], None, None)]
    for nm, out, src, g in outs:
        sub = out.samples
        c.holds(f'{nm}:new_object_returned', out is not s)
        c.holds(f'{nm}:result_is_one_subscript_of_the_stored_array', isinstance(sub, GhostArray) and len(sub.subs) == 1 and (src is None or sub.base is src))
        key = sub.subs[0]
        ok = isinstance(key, tuple) and len(key) == 2 and key[0] is Ellipsis and isinstance(key[1], slice)
        c.holds(f'{nm}:subscript_acts_on_the_sample_axis_only', ok, note=repr(key))
        sl = key[1]
        c.holds(f'{nm}:slice_starts_at_burn_in', SInt.lift(sl.start) == Nb)
        c.holds(f'{nm}:slice_has_no_upper_bound', sl.stop is None)
        c.holds(f'{nm}:slice_step_is_thinning', SInt.lift(sl.step if sl.step is not None else 1) == Nt)
        if g is not None:
            c.holds(f'{nm}:geometry_preserved', out.geometry is g)
            c.holds(f'{nm}:representation_flags_preserved', out.is_par == s.is_par and out.is_vec == s.is_vec)
    c.holds('source_untouched', s.samples is arr and len(arr.subs) == 0)


def slice_axiom_conformance(c):
    """CPython conformance of the slice axiom used above (closed check over a grid)"""
    ok = True
    for N in range(1, 14):
        a = np.arange(N)
        for b in range(0, N):
            for t in range(1, 6):
                ok = ok and list(a[..., b::t]) == [b + k * t for k in range(N) if b + k * t < N]
    c.holds('slice_selects_b_plus_kt_below_N_in_order', ok)


def burnthin_concrete(c, dims=(2,), N=7):
    """values: the retained columns are exactly the stored columns b, b+t, ... (symbolic entries)"""
    shape = tuple(dims) + (N,)
    A = c.vec('a', int(np.prod(shape))).reshape(shape)
    geom = cuqi.geometry.Continuous1D(dims[0]) if len(dims) == 1 else cuqi.geometry.Image2D(dims)
    s = Samples(A, geom) if len(dims) == 1 else Samples(A, geom, is_par=False, is_vec=False)
    before = A.copy()
    for b in (0, 2, N - 1):
        for t in (1, 2, 3):
            r = s.burnthin(b, t)
            idx = [b + k * t for k in range(N) if b + k * t < N]
            c.eq(f'retained_columns:b={b}:t={t}', r.samples, A[..., idx])
            c.holds(f'flags_and_geometry:b={b}:t={t}', r.geometry is geom and r.is_par == s.is_par and r.is_vec == s.is_vec)
    c.expect_raise('burn_in_equal_to_length_refused', lambda: s.burnthin(N, 1), ValueError)
    c.eq('source_untouched', s.samples, before)


def statistics_symbolic(c):
    """which reduction is applied to what: ghost array, recorded numpy calls, symbolic credibility level"""
    N = sint('N'); core.ST.base.append(N.t >= 2)
    arr = GhostArray('chain', (3, N)); s = Samples(arr, cuqi.geometry.Continuous1D(3))
    p = c.real('percent', lo=0, hi=100)
    for name, call in (('mean', s.mean), ('median', s.median), ('var', s.variance), ('std', s.std)):
        shims.STAT_LOG.clear(); call()
        ok = len(shims.STAT_LOG) == 1 and shims.STAT_LOG[0][0] == name and shims.STAT_LOG[0][1] is arr and shims.STAT_LOG[0][3] == {'axis': -1} and shims.STAT_LOG[0][2] == ()
        c.holds(f'{name}_is_numpy_{name}_of_the_stored_array_over_the_sample_axis', ok, note=repr(shims.STAT_LOG)[:200])
    shims.STAT_LOG.clear(); lo, up = s.compute_ci(p)
    rec = shims.STAT_LOG[0] if shims.STAT_LOG else None
    c.holds('ci_is_numpy_percentile_of_the_stored_array_over_the_sample_axis', rec is not None and rec[0] == 'percentile' and rec[1] is arr and rec[3] == {'axis': -1})
    q = rec[2][0]
    c.eq('ci_lower_level', q[0], (100 - p) / 2)
    c.eq('ci_upper_level', q[1], 100 - (100 - p) / 2)
    shims.STAT_LOG.clear(); w = s.ci_width(p)
    c.holds('ci_width_is_upper_minus_lower', isinstance(w, tuple) and w[0] == 'sub' and w[1].args[0] is shims.STAT_LOG[0][2][0][1] and w[2].args[0] is shims.STAT_LOG[0][2][0][0],
            note=repr(w)[:200])


def statistics_values(c, n=3, N=9):
    """numeric twin: the values (bounded stand-in for the numpy reductions themselves)"""
    A = c.vec('a', n * N).reshape(n, N)
    s = Samples(A, cuqi.geometry.Continuous1D(n)); p = c.real('percent', lo=1, hi=99)
    c.eq('mean', s.mean(), np.mean(A, axis=-1)); c.eq('median', s.median(), np.median(A, axis=-1))
    c.eq('variance', s.variance(), np.var(A, axis=-1)); c.eq('std', s.std(), np.std(A, axis=-1))
    lo, up = s.compute_ci(p)
    c.eq('ci', np.array([lo, up]), np.percentile(A, [(100 - p) / 2, 100 - (100 - p) / 2], axis=-1))
    c.eq('ci_width', s.ci_width(p), up - lo)
    med = s.median()
    c.holds('lower_le_median_le_upper', bool(np.all(lo <= med + 1e-12) and np.all(med <= up + 1e-12)))
    # machine arithmetic (outside the deductive part, where reals are exact): chains far from the origin - the spread statistics are those of the
    # centred chain, the location statistics shift with the chain (bounded metamorphic check)
    for off in (1e6, -3e8):
        t = Samples(A + off, cuqi.geometry.Continuous1D(n))
        c.eq(f'offset={off:g}:variance_is_that_of_the_centred_chain', t.variance(), np.var(A, axis=-1), tol=1e-5)
        c.eq(f'offset={off:g}:std_is_that_of_the_centred_chain', t.std(), np.std(A, axis=-1), tol=1e-5)
        if c.sym: c.eq(f'offset={off:g}:mean_shifts_with_the_chain', t.mean() - off, np.mean(A, axis=-1), tol=1e-5)
        else:                                   # forming a + off and subtracting off again each round to eps*|off|: that much absolute error is the floats', not the library's
            err = np.abs(np.asarray(t.mean(), dtype=float) - off - np.mean(A, axis=-1))
            c.holds(f'offset={off:g}:mean_shifts_with_the_chain', bool(np.all(err <= 1e-5 * np.abs(np.mean(A, axis=-1)) + 64 * np.finfo(float).eps * abs(off))), note=f"error {err.max():.3g}")
        c.eq(f'offset={off:g}:ci_width_is_that_of_the_centred_chain', t.ci_width(p), s.ci_width(p), tol=1e-5)


def funvals_statistics(c, n_steps=2, N=3):
    """function-value samples are the per-sample converted samples (so their statistics are those of the converted samples)"""
    grid = np.linspace(0, 1, 4)
    geom = cuqi.geometry.StepExpansion(grid, n_steps=n_steps)
    A = c.vec('a', n_steps * N).reshape(n_steps, N)
    s = Samples(A, geom)
    f = s.funvals
    c.holds('funvals_flags', (not f.is_par) and f.is_vec and f.geometry is geom)
    for k in range(N):
        c.eq(f'funvals_column[{k}]_is_par2fun_of_sample', f.samples[:, k], geom.par2fun(A[:, k]))
    if c.sym:
        g = GhostArray('fv', (4, sint('N')))
        shims.STAT_LOG.clear(); Samples(g, geom, is_par=False).mean()
        c.holds('statistics_of_funvals_are_reductions_of_the_converted_array', len(shims.STAT_LOG) == 1 and shims.STAT_LOG[0][1] is g)
    else:
        c.eq('mean_of_funvals', f.mean(), np.mean(np.stack([geom.par2fun(A[:, k]) for k in range(N)], axis=-1), axis=-1))


def op_sequences(c, depth=3, N=6):
    """every sequence of burnthin / conversion / statistic-probe calls (length <= depth): the object reached equals the
    oracle computed from scratch from the stored chain; conversions and probes leave no hidden state behind"""
    import itertools
    grid = np.linspace(0, 1, 4); geom = cuqi.geometry.StepExpansion(grid, n_steps=2)
    A = c.vec('a', 2 * N).reshape(2, N)
    def oracle_conv(arr, is_par, want):
        if want == 'funvals' and is_par: return np.stack([geom.par2fun(arr[:, k]) for k in range(arr.shape[1])], axis=-1), False
        if want == 'parameters' and not is_par: return np.stack([geom.fun2par(arr[:, k]) for k in range(arr.shape[1])], axis=-1), True
        return arr, is_par
    OPS = ['burnthin(1,2)', 'burnthin(0,1)', 'funvals', 'parameters', 'vector', 'probe']
    count = 0
    for L in range(1, depth + 1):
        for seq in itertools.product(OPS, repeat=L):
            if seq[-1] == 'probe': continue
            cur = Samples(A.copy(), geom); arr, is_par = A, True
            ok_len = True
            for op in seq:
                if op.startswith('burnthin'):
                    b, t = (1, 2) if op == 'burnthin(1,2)' else (0, 1)
                    if b >= arr.shape[1]: ok_len = False; break
                    cur = cur.burnthin(b, t); arr = arr[:, b::t]
                elif op == 'probe':
                    _ = cur.funvals; _ = cur.parameters; _ = cur.vector       # read-only conversions of the current object
                elif op == 'vector':
                    cur = cur.vector
                else:
                    cur = getattr(cur, op); arr, is_par = oracle_conv(arr, is_par, op)
            if not ok_len: continue
            count += 1
            tag = '>'.join(seq)
            c.holds(f'seq[{tag}]:flags', cur.is_par == is_par and cur.geometry is geom)
            c.eq(f'seq[{tag}]:samples', cur.samples, arr)
    c.holds('sequences_enumerated', count > 50)


class _Dataset(dict):
    """what the diagnostics tool hands back, with the part of the xarray.Dataset interface a caller may use: mapping from variable name to value"""
    @property
    def data_vars(self): return self
    def to_array(self): raise NotImplementedError


class _Arviz:
    """the tool's result for a variable is a token determined by the variable's NAME position in the data it was handed"""
    def __init__(self): self.calls = []
    def _res(self, d): return _Dataset({key: types.SimpleNamespace(to_numpy=lambda i=i: float(100 + i), values=float(100 + i)) for i, key in enumerate(d)})
    def ess(self, d, **k):
        self.calls.append(('ess', d)); return self._res(d)
    def rhat(self, d, **k):
        self.calls.append(('rhat', d)); return self._res(d)


def diagnostics_receive_chains(c, geomkind='Continuous1D', n=3, N=4):
    A = c.vec('a', n * N).reshape(n, N); B = c.vec('b', n * N).reshape(n, N)
    geom = {'Continuous1D': lambda: cuqi.geometry.Continuous1D(n), 'Discrete': lambda: cuqi.geometry.Discrete([f'v{i}' for i in range(n)]),
            'Discrete:names_not_in_alphabetical_order': lambda: cuqi.geometry.Discrete(['sigma', 'alpha', 'tau', 'beta', 'delta'][:n]),
            'Image2D': lambda: cuqi.geometry.Image2D((2, 2))}[geomkind]()
    s = Samples(A, geom); s2 = Samples(B, geom)
    az = _Arviz(); old = SM.__dict__.get('arviz'), SM._check_for_arviz
    SM.arviz = az; SM._check_for_arviz = lambda: None
    try:
        ess = s.compute_ess()
        d = az.calls[-1][1]
        names = list(np.array(geom.variables).flatten())
        c.holds('ess_result_entry_i_is_the_tools_value_for_variable_i', list(np.ravel(ess)) == [float(100 + i) for i in range(len(names))], note=str(np.ravel(ess)))
        c.holds('ess_one_entry_per_variable_in_order', list(d.keys()) == names, note=f"{list(d.keys())} vs {names}")
        for i, nm in enumerate(names):
            c.eq(f'ess_variable[{i}]_receives_row_{i}_unpermuted', d[nm], A[i, :])
        # the optional selection of variables: exactly those variables, each with its own row
        for sel in ([n - 1, 0], [1]):
            dd = s.to_arviz_inferencedata(sel)
            c.holds(f'selection{sel}_has_exactly_the_selected_variables_in_the_order_given', list(dd.keys()) == [names[i] for i in sel], note=str(list(dd.keys())))
            for i in sel: c.eq(f'selection{sel}_variable[{i}]_is_row_{i}', dd[names[i]], A[i, :])
        rh = s.compute_rhat(s2)
        d = az.calls[-1][1]
        c.holds('rhat_result_entry_i_is_the_tools_value_for_variable_i', list(np.ravel(rh)) == [float(100 + i) for i in range(len(names))], note=str(np.ravel(rh)))
        for i, nm in enumerate(names):
            c.eq(f'rhat_variable[{i}]_chain0_is_row_{i}', d[nm][0], A[i, :])
            c.eq(f'rhat_variable[{i}]_chain1_is_row_{i}_of_other_chain', d[nm][1], B[i, :])
        # several comparison chains: variable i receives its own row of EVERY chain, chains in the order given
        C2 = c.vec('cc', n * N).reshape(n, N); s3 = Samples(C2, geom)
        s.compute_rhat([s2, s3])
        d = az.calls[-1][1]
        for i, nm in enumerate(names):
            c.holds(f'rhat_three_chains_variable[{i}]_has_one_row_per_chain', np.shape(d[nm]) == (3, N), note=str(np.shape(d[nm])))
            for k, M in enumerate((A, B, C2)):
                c.eq(f'rhat_three_chains_variable[{i}]_chain{k}_is_its_row_{i}', np.asarray(d[nm])[k], M[i, :])
    finally:
        if old[0] is None: SM.__dict__.pop('arviz', None)
        else: SM.arviz = old[0]
        SM._check_for_arviz = old[1]


def diagnostics_of_function_values(c):
    """function-value samples of an expansion geometry (more function values than parameters): the diagnostics are refused, or every entry of the result is
    the tool's value for one row of the function-value chain - never a partially filled array"""
    g = cuqi.geometry.StepExpansion(np.linspace(0, 1, 4), n_steps=2)
    A = c.vec('a', 2 * 3).reshape(2, 3); B = c.vec('b', 2 * 3).reshape(2, 3)
    f1 = Samples(A, g).funvals.vector; f2 = Samples(B, g).funvals.vector
    az = _Arviz(); old = SM.__dict__.get('arviz'), SM._check_for_arviz
    SM.arviz = az; SM._check_for_arviz = lambda: None
    try:
        for nm, call in (('ess', lambda: f1.compute_ess()), ('rhat', lambda: f1.compute_rhat(f2))):
            try: out = call()
            except Exception:
                c.holds(f'{nm}_of_function_values_refused', True); continue
            d = az.calls[-1][1]
            c.holds(f'{nm}:the_tool_receives_one_chain_per_function_value', len(d) == 4, note=f"{len(d)} chains for 4 function values")
            c.holds(f'{nm}:every_entry_of_the_result_is_a_value_returned_by_the_tool', list(np.ravel(out)) == [float(100 + i) for i in range(4)], note=str(np.ravel(out)))
    finally:
        if old[0] is None: SM.__dict__.pop('arviz', None)
        else: SM.arviz = old[0]
        SM._check_for_arviz = old[1]


def joint_burnthin_native(c):
    """JointSamples.burnthin on real arrays for every (Nb, Nt) in a grid, including burn-in not divisible by the thinning: each member is exactly the
    stored draws Nb, Nb+Nt, Nb+2Nt, ... of that member (the same columns for all members), with geometry and representation flags kept and the source
    untouched (bounded stand-in for the case the symbolic job cannot follow)"""
    N = 23
    A = np.arange(2 * N, dtype=float).reshape(2, N) + 0.5 * c.real('a'); B = -np.arange(3 * N, dtype=float).reshape(3, N) + 0.25 * c.real('b')
    ga, gb = cuqi.geometry.Discrete(2), cuqi.geometry.Continuous1D(3)
    JS = JointSamples({'x': Samples(A.copy(), ga), 'y': Samples(B.copy(), gb, is_par=False)})
    for Nb in (0, 1, 3, 5, 7, 10):
        for Nt in (1, 2, 3, 4):
            out = JS.burnthin(Nb, Nt)
            for nm, M, g in (('x', A, ga), ('y', B, gb)):
                c.eq(f'Nb={Nb}:Nt={Nt}:{nm}:draws_are_stored_draws_Nb_Nb+Nt_...', np.asarray(out[nm].samples), M[:, Nb::Nt], tol=0)
                c.holds(f'Nb={Nb}:Nt={Nt}:{nm}:geometry_and_flags_kept', out[nm].geometry == g and out[nm].is_par == JS[nm].is_par and out[nm].is_vec == JS[nm].is_vec)
    c.eq('source_untouched:x', JS['x'].samples, A, tol=0); c.eq('source_untouched:y', JS['y'].samples, B, tol=0)


def jobs(tier):
    J = []
    F = lambda *n: [f"{S}:{x}" for x in n]
    J.append(Job('Samples.burnthin:symbolic_N_Nb_Nt', lambda c: burnthin_symbolic(c, 'Samples'), 'Pinf', F('Samples.burnthin', 'Samples.Ns'), num=False))
    J.append(Job('JointSamples.burnthin:native_grid_of_Nb_Nt', joint_burnthin_native, 'B', F('JointSamples.burnthin', 'Samples.burnthin'), nnum=1))
    J.append(Job('JointSamples.burnthin:symbolic_N_Nb_Nt', lambda c: burnthin_symbolic(c, 'Joint'), 'Pinf', F('JointSamples.burnthin', 'Samples.burnthin'), num=False))
    J.append(Job('slice_axiom:cpython_conformance', slice_axiom_conformance, 'Pbox', [], num=False))
    J.append(Job('Samples.burnthin:values:vector', lambda c: burnthin_concrete(c, (2,), 7), 'Pbox', F('Samples.burnthin')))
    J.append(Job('Samples.burnthin:values:image_funvals', lambda c: burnthin_concrete(c, (2, 2), 5), 'Pbox', F('Samples.burnthin')))
    J.append(Job('Samples.statistics:calls', statistics_symbolic, 'Pinf', F('Samples.mean', 'Samples.median', 'Samples.variance', 'Samples.std', 'Samples.compute_ci', 'Samples.ci_width', 'Samples._compute_numpy_stats'), num=False))
    J.append(Job('Samples.statistics:values', statistics_values, 'B', F('Samples.mean', 'Samples.compute_ci')))
    J.append(Job('Samples.funvals:statistics_of_converted_samples', funvals_statistics, 'Pbox', F('Samples.funvals')))
    J.append(Job('Samples.history:all_sequences_of_burnthin_and_conversions', lambda c: op_sequences(c, 3 if tier == 'quick' else 4), 'Pbox',
                 F('Samples.burnthin', 'Samples.funvals', 'Samples.parameters', 'Samples.vector'), timeout=900))
    for gk in ('Continuous1D', 'Discrete', 'Discrete:names_not_in_alphabetical_order', 'Continuous1D:12_variables') + (() if tier == 'quick' else ('Image2D',)):
        n = 4 if gk == 'Image2D' else 12 if gk.endswith('12_variables') else 5 if 'alphabetical' in gk else 3
        J.append(Job(f'Samples.diagnostics:chains_unpermuted:{gk}', lambda c, gk=gk, n=n: diagnostics_receive_chains(c, gk.split(':12')[0], n), 'Pbox',
                     F('Samples.to_arviz_inferencedata', 'Samples.compute_ess', 'Samples.compute_rhat')))
    J.append(Job('Samples.diagnostics:function_values_of_an_expansion_geometry', diagnostics_of_function_values, 'Pbox', F('Samples.compute_ess', 'Samples.compute_rhat', 'Samples.to_arviz_inferencedata')))
    # statistics are taken on the vector form of function-value samples: the conversion contracts of C13 (column k of the vector form
    # is fun2vec of sample k, also for column-major images and mapped geometries) are claimed for this property as well
    from contracts import C13 as _c13
    J += [j for j in _c13.jobs(tier) if (j.id.endswith(':Samples_conversions') or j.id.endswith(':Samples_conversions:one_sample')) and j.id.split(':Samples')[0] in ('Image2D:F', 'Image2D:C', 'Mapped:Image2D', 'Continuous2D')]
    return J
