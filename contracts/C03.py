"""C03 — every gradient equals the derivative of the log-density, or is refused.

Oracle: term differentiation of the SAME object's logd (symbolic mode) / central differences (numeric twin)."""
import numpy as np
import z3
from pvc.runner import Job
from pvc import core, shims
import cuqi
from cuqi.distribution import (Normal, Gaussian, Laplace, SmoothedLaplace, Cauchy, Gamma, InverseGamma, Beta,
                               Lognormal, Uniform, UserDefinedDistribution, Posterior)
from contracts.C04 import FAMILIES, OUTSIDE, _par

D = 'cuqi.distribution'
EXPLANATION = ("gradient(x) == d logd/dx by differentiating the term the same object's logd produces; refusal where no analytic "
               "gradient exists; finite-difference option; NaN outside the support; chain rule through linear/non-linear models; sum rule for posteriors.")
ASSUMPTIONS = ["the symbolic differentiator (pvc/diff.py) is trusted; it is cross-checked by the numeric twin (central differences) on every run"]

HAS_GRAD = ['SmoothedLaplace', 'Cauchy', 'InverseGamma', 'Beta', 'Uniform', 'Lognormal']
NO_GRAD = ['Normal', 'Laplace', 'Gamma']


def _isnan_all(g):
    try:
        a = np.asarray(g, dtype=object).reshape(-1)
    except Exception:
        return False
    if len(a) == 0: return False
    return all((not isinstance(e, core.SReal)) and isinstance(e, (float, np.floating)) and np.isnan(e) for e in a)


def family_gradient(c, fam, n, form):
    d, spec, support = FAMILIES[fam](c, n, form)
    x = c.vec('x', n)
    if support is not None:
        for cond in support(x): c.assume(cond)
    g = d.gradient(x)
    c.holds('gradient_is_a_vector_of_the_variable_shape', np.shape(g) == (n,), note=f"shape {np.shape(g)}")
    c.eq('gradient_is_derivative_of_own_logd', g, c.grad_of(lambda v: d.logd(v), x), tol=1e-4)


def mhn_gradient(c, form, n=3):
    """ModifiedHalfNormal (its own logd and gradient methods): gradient(x) is a vector of the variable's shape and the derivative of the object's own logd"""
    from cuqi.distribution import ModifiedHalfNormal
    if form == 'scalar': d = ModifiedHalfNormal(c.real('al', lo=1.5, hi=4), c.real('be', lo=0.5, hi=2), c.real('ga', lo=-1, hi=1), geometry=n)
    else: d = ModifiedHalfNormal(c.vec('al', n, pos=True) + 1.5, c.vec('be', n, pos=True) + 0.5, c.vec('ga', n))
    x = c.vec('x', n, pos=True) + 0.1
    g = d.gradient(x)
    c.holds('gradient_is_a_vector_of_the_variable_shape', np.shape(g) == (n,), note=f"shape {np.shape(g)}")
    if np.shape(g) == (n,): c.eq('gradient_is_derivative_of_own_logd', g, c.grad_of(lambda v: d.logd(v), x), tol=1e-4)


def family_no_gradient(c, fam, n):
    d, spec, support = FAMILIES[fam](c, n, 'vector')
    x = c.vec('x', n)
    if support is not None:
        for cond in support(x): c.assume(cond)
    c.expect_raise('gradient_refused_without_analytic_form', lambda: d.gradient(x), note=fam)


def family_fd(c, fam, n):
    d, spec, support = FAMILIES[fam](c, n, 'vector')
    x = c.vec('x', n); eps = c.real('fd_eps', lo=0, hi=0.01)
    if support is not None:
        for cond in support(x): c.assume(cond)
        for cond in support(x + eps): c.assume(cond)
    d.enable_FD(eps)
    g = d.gradient(x)
    l0 = d.logd(x)
    exact = c.grad_of(lambda v: d.logd(v), x)
    for i in range(n):
        e = 0.0 * x; e[i] = eps
        # with the option on, the result is the derivative of the same log-density: the forward difference quotient
        # with the requested spacing (or, for families that keep their analytic form, the exact derivative)
        c.holds(f'fd_component[{i}]_is_derivative_of_own_logd',
                c.Or(c.close(g[i], (d.logd(x + e) - l0) / eps, 1e-5), c.close(g[i], exact[i], 1e-4)))
    d.disable_FD()


def family_outside(c, fam, n, which):
    d, spec, support = FAMILIES[fam](c, n, 'vector')
    x = c.vec('x', n)
    conds = support(x); outs = OUTSIDE[fam](c, d, x)
    for i, cond in enumerate(conds):
        c.assume(outs[i] if i == which else cond)
    g = d.gradient(x)
    c.holds('gradient_is_nan_outside_support', _isnan_all(g), note=f"returned {g!r}"[:200])


def family_nonidentity_geometry(c, fam, n=2):
    """a geometry that is neither identity-like nor provides a gradient: the call must raise"""
    d, spec, support = FAMILIES[fam](c, n, 'vector')
    d.geometry = cuqi.geometry.MappedGeometry(cuqi.geometry.Continuous1D(n), map=lambda v: v ** 2)
    x = c.vec('x', n)
    if support is not None:
        for cond in support(x): c.assume(cond)
    c.expect_raise('gradient_refused_for_non_identity_geometry', lambda: d.gradient(x), note=fam)


# ------------------------------------------------------------------------------------------ Gaussian
def gaussian_gradient(c, param, form, n):
    mean = c.vec('m', n); x = c.vec('x', n)
    if form == 'scalar': arg = c.real('v', pos=True)
    elif form == 'vector': arg = c.vec('v', n, pos=True)
    elif form == 'diagmatrix':
        v = c.vec('v', n, pos=True); arg = np.diag(v)
        if c.sym: arg = np.where(np.eye(n) == 1, arg, core.SReal(z3.RealVal(0)))
    elif form == 'dense':
        if param.startswith('sqrt'):
            a, b, d_ = c.real('ra', pos=True), c.real('rb'), c.real('rd', pos=True)
            arg = np.array([[a, b], [b, d_]], dtype=object if c.sym else float); det = a * d_ - b * b
            c.assume(det * det > 0.01)
        else:
            G = c.lower('g', n); arg = G @ G.T
    g = Gaussian(mean, **{param: arg})
    gr = g.gradient(x)
    c.holds('gradient_is_a_vector_of_the_variable_shape', np.shape(gr) == (n,), note=f"shape {np.shape(gr)}")
    c.eq('gradient_is_derivative_of_own_logd', gr, c.grad_of(lambda v: g.logd(v), x), tol=1e-4)


# ------------------------------------------------------------------------------------------ chain rule
def likelihood_chain(c, kind, m=2, n=2, noise='scalar'):
    """Gaussian data distribution with forward model F: gradient of the likelihood w.r.t. x is J^T d logp/d mu"""
    x = c.vec('x', n); y = c.vec('y', m); s = c.real('s', pos=True)
    if kind == 'matrix':
        A = c.mat('A', m, n); model = cuqi.model.LinearModel(A)
    elif kind == 'funcs':
        A = c.mat('A', m, n); model = cuqi.model.LinearModel(lambda v: A @ v, lambda w: A.T @ w, range_geometry=m, domain_geometry=n)
    elif kind == 'jacobian':
        # non-linear model F_i(x) = sum_j A_ij x_j^2 with its Jacobian
        A = c.mat('A', m, n)
        model = cuqi.model.Model(lambda v: A @ (v ** 2), m, n, jacobian=lambda v: A * (2 * v))
    elif kind == 'gradient':
        A = c.mat('A', m, n)
        model = cuqi.model.Model(lambda v: A @ (v ** 2), m, n, gradient=lambda direction, v: (A * (2 * v)).T @ direction)
    elif kind.startswith('image_domain'):
        # unknown is a 2x2 image stored column-major (order='F') or row-major; adjoint / gradient callables return IMAGES
        order = kind.split(':')[1]; n = 4; m = 4
        Lm = c.mat('L', 2, 2); Rm = c.mat('R', 2, 2)
        gd = cuqi.geometry.Image2D((2, 2), order=order)
        fwd = lambda X: (Lm @ X @ Rm).ravel(); adj = lambda y: Lm.T @ y.reshape(2, 2) @ Rm.T
        if kind.endswith('linear'): model = cuqi.model.LinearModel(fwd, adj, range_geometry=m, domain_geometry=gd)
        else: model = cuqi.model.Model(lambda X: (Lm @ (X + X ** 3) @ Rm).ravel(), m, gd, gradient=lambda direction, X: (1 + 3 * X ** 2) * (Lm.T @ direction.reshape(2, 2) @ Rm.T))
        x = c.vec('x', n); y = c.vec('y', m)
    elif kind.startswith('geometry_with_derivative'):
        # the domain geometry supplies its own derivative (a user geometry: par2fun(p) = p**3 + p) AND an inverse map that is not the identity: the
        # likelihood gradient is J_G(p)^T A^T dlogp/dmu for linear models in both forms and for the same operator as a generic model
        from contracts.C12 import GradInvGeometry
        gd = GradInvGeometry(n); A = c.mat('A', m, n)
        form = kind.split(':')[1]
        if form == 'matrix': model = cuqi.model.LinearModel(A, range_geometry=m, domain_geometry=gd)
        elif form == 'funcs': model = cuqi.model.LinearModel(lambda v: A @ v, lambda w: A.T @ w, range_geometry=m, domain_geometry=gd)
        else: model = cuqi.model.Model(lambda v: A @ v, m, gd, gradient=lambda direction, v: A.T @ direction)
    elif kind in ('step_domain:matrix', 'step_domain:jacobian'):
        # domain geometry with a non-identity parameter-to-function map and no derivative of its own (2 steps on 4 nodes):
        # the gradient must be refused or be the derivative w.r.t. the PARAMETERS
        gd = cuqi.geometry.StepExpansion(np.linspace(0, 1, 2 * n), n_steps=n)
        A = c.mat('A', m, 2 * n)
        if kind.endswith('matrix'): model = cuqi.model.LinearModel(A, range_geometry=m, domain_geometry=gd)
        else: model = cuqi.model.Model(lambda v: A @ (v ** 2), m, gd, jacobian=lambda v: A * (2 * v))
    if noise == 'scalar': data_dist = Gaussian(model, s)
    elif noise == 'vector': data_dist = Gaussian(model, c.vec('nv', m, pos=True))
    elif noise == 'lognormal_vector':
        from cuqi.distribution import Lognormal
        y = c.vec('y', m, pos=True)
        data_dist = Lognormal(model, c.vec('nv', m, pos=True))                               # its gradient uses the precision attribute of the inner Gaussian
    elif noise == 'dense_cov':
        G = c.lower('ng', m); data_dist = Gaussian(model, cov=G @ G.T)                     # correlated noise
    elif noise == 'dense_prec':
        G = c.lower('ng', m); data_dist = Gaussian(model, prec=G @ G.T)
    elif noise == 'triangular_sqrtprec':
        data_dist = Gaussian(model, sqrtprec=c.lower('nr', m).T)                           # a non-symmetric square root
    L = data_dist.to_likelihood(y) if hasattr(data_dist, 'to_likelihood') else data_dist(y)
    if kind.startswith('step_domain'):
        d = c.vec('d', m)
        pname = model._non_default_args[0]
        def _mlp():
            La = Gaussian(model, s, name='ya').to_likelihood(y); Lb = Gaussian(model, 2 * s, name='yb').to_likelihood(y)
            return cuqi.distribution.MultipleLikelihoodPosterior(La, Lb, Gaussian(np.zeros(n), 1.0, name=pname, geometry=model.domain_geometry))
        for nm, call, ref in (('model', lambda: model.gradient(d, x), lambda: c.grad_of(lambda v: np.sum(np.asarray(model.forward(v)) * d), x)),
                              ('likelihood', lambda: L.gradient(x), lambda: c.grad_of(lambda v: L.logd(v), x)),
                              ('multiple_likelihood_posterior', lambda: _mlp().gradient(x), lambda: c.grad_of(lambda v: _mlp().logd(v), x))):
            try: gv = call()
            except NotImplementedError: gv = None
            c.holds(f'{nm}_gradient_refused_or_returned', True)
            if gv is not None: c.eq(f'{nm}_gradient_if_returned_is_derivative_wrt_parameters', np.asarray(gv), ref(), tol=1e-4)
        return
    g = L.gradient(x)
    c.holds('gradient_is_a_vector_of_the_variable_shape', np.shape(g) == (n,), note=f"shape {np.shape(g)}")
    c.eq('likelihood_gradient_is_derivative_of_own_logd', g, c.grad_of(lambda v: L.logd(v), x), tol=1e-4)
    # posterior: sum rule
    prior = Gaussian(np.zeros(n), c.real('pv', pos=True))
    post = Posterior(L, prior)
    c.eq('posterior_gradient_is_derivative_of_own_logd', post.gradient(x), c.grad_of(lambda v: post.logd(v), x), tol=1e-4)


def multiple_likelihood_posterior(c, config, m=2, n=2):
    """MultipleLikelihoodPosterior built directly from its densities: gradient == derivative of the object's OWN logd, whatever kinds of
    likelihood it holds (data-distribution likelihoods, user-defined likelihoods given by functions), or the call is refused"""
    from cuqi.likelihood import UserDefinedLikelihood
    x = c.vec('x', n); s = c.real('s', pos=True)
    A = c.mat('A', m, n); B = c.mat('B', m, n)
    ya = c.vec('ya', m); yb = c.vec('yb', m); w = c.vec('w', n, pos=True)
    prior = Gaussian(c.vec('mu', n), c.real('pv', pos=True), name='x')
    La = Gaussian(cuqi.model.LinearModel(A), s, name='ya').to_likelihood(ya)
    Lb = Gaussian(cuqi.model.LinearModel(B), 2 * s, name='yb').to_likelihood(yb)
    geom = cuqi.geometry._DefaultGeometry1D(n)
    Lu = UserDefinedLikelihood(dim=n, logpdf_func=lambda x: -np.sum(w * (x - 1) ** 4), gradient_func=lambda x: -4 * w * (x - 1) ** 3, geometry=geom)
    dens = {'two_data_likelihoods': (La, Lb, prior), 'data_and_user_defined_likelihood': (La, Lu, prior), 'user_defined_first': (Lu, La, prior),
            'three_likelihoods': (La, Lu, Lb, prior)}[config]
    P = cuqi.distribution.MultipleLikelihoodPosterior(*dens)
    try: g = P.gradient(x)
    except NotImplementedError:
        c.holds('gradient_refused', True); return
    c.holds('gradient_is_a_vector_of_the_variable_shape', np.shape(g) == (n,), note=f"shape {np.shape(g)}")
    c.eq('gradient_is_derivative_of_own_logd', g, c.grad_of(lambda v: P.logd(v), x), tol=1e-4)


def gallery(c, member):
    """shipped gallery distributions: the gradient handed out is the derivative of the member's own log-density (central differences at generated points spread
    over the region where the member has mass, incl. between the modes of the mixture; bounded stand-in: native), or the call is refused"""
    from cuqi.distribution import DistributionGallery
    d = DistributionGallery(member)
    pts = [np.array([c.real(f'p{k}_0', lo=-3, hi=3), c.real(f'p{k}_1', lo=-3, hi=3)]) for k in range(6)]
    if member == 'mixture': pts += [np.array([-2.0, 0.5]), np.array([-1.8, 0.0]), np.array([0.0, 0.0])]
    for k, x in enumerate(pts):
        try: g = np.asarray(d.gradient(x), dtype=float).ravel()
        except (NotImplementedError, AttributeError):
            c.holds('gradient_refused', True); return
        h = 1e-6
        fd = np.array([(d.logd(x + h * e) - d.logd(x - h * e)) / (2 * h) for e in np.eye(2)]).ravel()
        if not (np.all(np.isfinite(fd)) and np.all(np.isfinite(g))): continue
        c.holds(f'gradient_is_derivative_of_own_logd[{k}]', bool(np.allclose(g, fd, rtol=1e-4, atol=1e-5 * (1 + np.max(np.abs(fd))))), note=f"at {x}: gradient {g} vs central differences {fd}")


def callable_parameter_refused(c, fam, n=2):
    """a likelihood whose location parameter is a plain callable (not a model with a gradient): the gradient is refused (raises) - never `None` or another
    non-gradient handed back"""
    from cuqi.distribution import Lognormal, CMRF
    x = c.vec('x', n); y = c.vec('y', n, pos=(fam == 'Lognormal'))
    if fam == 'Gaussian': d = Gaussian(lambda x: 2 * x, c.real('v', pos=True), geometry=n, name='y')
    elif fam == 'Lognormal': d = Lognormal(lambda x: 2 * x, c.real('v', pos=True), geometry=n, name='y')
    else: d = CMRF(lambda x: 2 * x, c.real('v', pos=True), 'zero', geometry=n, name='y')
    L = d.to_likelihood(y)
    c.expect_raise('gradient_refused_not_none', lambda: L.gradient(x))


def reassignment_history(c, kind, n=3):
    """gradient, then assign new parameter values to the SAME object, then gradient again: still the derivative of the
    object's current log-density (no stale intermediate results survive a parameter change)"""
    x = c.vec('x', n)
    def check(d, tag):
        g = d.gradient(x)
        c.eq(f'{tag}:gradient_is_derivative_of_own_logd', g, c.grad_of(lambda v: d.logd(v), x), tol=1e-4)
    if kind == 'Gaussian:cov':
        d = Gaussian(c.vec('m', n), c.vec('v', n, pos=True)); check(d, 'fresh')
        d.cov = c.vec('v2', n, pos=True); check(d, 'after_cov_reassigned')
        d.mean = c.vec('m2', n); check(d, 'after_mean_reassigned')
    elif kind == 'Gaussian:prec':
        d = Gaussian(c.vec('m', n), prec=c.vec('v', n, pos=True)); check(d, 'fresh')
        d.prec = c.real('p2', pos=True); check(d, 'after_prec_reassigned')
    elif kind in ('GMRF', 'CMRF'):
        from cuqi.distribution import GMRF, CMRF
        geom = cuqi.geometry.Continuous1D(n)
        if kind == 'GMRF': d = GMRF(c.vec('m', n), c.real('p', pos=True), geometry=geom)
        else: d = CMRF(c.vec('m', n), c.real('p', pos=True), geometry=geom)
        if c.sym: shims.symbolize_operators(d)
        check(d, 'fresh')
        if kind == 'GMRF': d.prec = c.real('p2', pos=True); check(d, 'after_prec_reassigned'); d.mean = c.vec('m2', n); check(d, 'after_mean_reassigned')
        else: d.scale = c.real('p2', pos=True); check(d, 'after_scale_reassigned'); d.location = c.vec('m2', n); check(d, 'after_location_reassigned')
    elif kind == 'Cauchy':
        d = Cauchy(c.vec('m', n), c.vec('s', n, pos=True)); check(d, 'fresh')
        d.scale = c.vec('s2', n, pos=True); check(d, 'after_scale_reassigned'); d.location = c.vec('m2', n); check(d, 'after_location_reassigned')
    elif kind == 'conditional_GMRF':
        from cuqi.distribution import GMRF
        geom = cuqi.geometry.Continuous1D(n)
        g0 = GMRF(np.zeros(n), lambda d: d, geometry=geom)
        g1 = g0(d=c.real('d1', pos=True))
        if c.sym: shims.symbolize_operators(g1)
        check(g1, 'conditioned_once')
        g2 = g1.__class__.__call__(g0, d=c.real('d2', pos=True))
        if c.sym: shims.symbolize_operators(g2)
        check(g2, 'conditioned_again_from_original')
        check(g1, 'first_copy_unaffected')


def userdefined(c, n=2):
    x = c.vec('x', n)
    a = c.vec('a', n)
    d = UserDefinedDistribution(dim=n, logpdf_func=lambda v: -np.sum(a * v ** 2), gradient_func=lambda v: -2 * a * v)
    c.eq('gradient_is_derivative_of_own_logd', d.gradient(x), c.grad_of(lambda v: d.logd(v), x), tol=1e-4)
    d2 = UserDefinedDistribution(dim=n, logpdf_func=lambda v: -np.sum(a * v ** 2))
    c.expect_raise('gradient_refused_without_gradient_func', lambda: d2.gradient(x))


def jobs(tier):
    J = []
    q = tier == 'quick'
    mods = dict(Normal='_normal', Laplace='_laplace', SmoothedLaplace='_smoothed_laplace', Cauchy='_cauchy', Gamma='_gamma',
                InverseGamma='_inverse_gamma', Beta='_beta', Uniform='_uniform', Lognormal='_lognormal')
    Dg = ['cuqi.density._density:Density.gradient']
    for fam in HAS_GRAD:
        fl = [f'{D}.{mods[fam]}:{fam}.{"gradient" if fam in ("SmoothedLaplace", "Cauchy", "Uniform") else "_gradient"}'] + Dg
        for form in ('scalar', 'vector'):
            for n in ([1, 3] if q else [1, 2, 3]):
                if fam == 'Lognormal' and (n > 2 or (form == 'scalar' and n > 1)): continue
                J.append(Job(f'{fam}.gradient:{form}:n={n}', lambda c, fam=fam, n=n, form=form: family_gradient(c, fam, n, form), 'Pbox', fl, rtol=1e-4))
        J.append(Job(f'{fam}.gradient:FD_option:n=2', lambda c, fam=fam: family_fd(c, fam, 2), 'Pbox', fl + ['cuqi.utilities._utilities:approx_gradient', 'cuqi.density._density:Density.enable_FD'], rtol=1e-5))
        if fam in ('InverseGamma', 'Beta', 'Uniform'):
            for n, w in ((1, 0), (2, 1)):
                J.append(Job(f'{fam}.gradient:outside_support:n={n}:coord={w}', lambda c, fam=fam, n=n, w=w: family_outside(c, fam, n, w), 'Pbox', fl))
        if fam in ('Cauchy', 'InverseGamma', 'Beta', 'Lognormal'):
            J.append(Job(f'{fam}.gradient:non_identity_geometry', lambda c, fam=fam: family_nonidentity_geometry(c, fam), 'Pbox', fl))
    for fam in NO_GRAD:
        J.append(Job(f'{fam}.gradient:refused:n=2', lambda c, fam=fam: family_no_gradient(c, fam, 2), 'Pbox', [f'{D}._distribution:Distribution._gradient'] + Dg))
        J.append(Job(f'{fam}.gradient:FD_option:n=2', lambda c, fam=fam: family_fd(c, fam, 2), 'Pbox', Dg + ['cuqi.utilities._utilities:approx_gradient'], rtol=1e-5))
    for param in ('cov', 'prec', 'sqrtcov', 'sqrtprec'):
        for form in ('scalar', 'vector', 'diagmatrix', 'dense'):
            for n in ([2] if (q or form == 'dense') else [2, 3]):
                # a refusal (exception) is an admissible outcome for C03; a returned value must be the derivative
                J.append(Job(f'Gaussian.gradient:{param}:{form}:n={n}', lambda c, p=param, f=form, n=n: gaussian_gradient(c, p, f, n), 'Pbox',
                             [f'{D}._gaussian:Gaussian._gradient'] + Dg, rtol=1e-4, timeout=300, allow_exc=True))
    for kind in ('image_domain:F:linear', 'image_domain:F:nonlinear', 'image_domain:C:linear'):
        J.append(Job(f'Likelihood.gradient:chain_rule:{kind}', lambda c, k=kind: likelihood_chain(c, k), 'Pbox',
                     ['cuqi.model._model:Model.gradient', 'cuqi.likelihood._likelihood:Likelihood._gradient', 'cuqi.geometry._geometry:Image2D.fun2par'], rtol=1e-4, timeout=300))
    for kind in ('geometry_with_derivative:matrix', 'geometry_with_derivative:funcs', 'geometry_with_derivative:generic'):
        J.append(Job(f'Likelihood.gradient:chain_rule:{kind}', lambda c, k=kind: likelihood_chain(c, k), 'Pbox',
                     ['cuqi.model._model:Model.gradient', 'cuqi.model._model:LinearModel.__init__', 'cuqi.likelihood._likelihood:Likelihood._gradient'], rtol=1e-4, timeout=300))
    for kind in ('step_domain:matrix', 'step_domain:jacobian'):
        J.append(Job(f'Likelihood.gradient:non_identity_domain_geometry:{kind}', lambda c, k=kind: likelihood_chain(c, k), 'Pbox',
                     ['cuqi.model._model:Model._check_gradient_can_be_computed', 'cuqi.model._model:Model.gradient', 'cuqi.likelihood._likelihood:Likelihood._gradient'], rtol=1e-4, timeout=300))
    for kind in ('matrix', 'funcs', 'jacobian', 'gradient'):
        J.append(Job(f'Likelihood.gradient:chain_rule:{kind}', lambda c, k=kind: likelihood_chain(c, k), 'Pbox',
                     ['cuqi.likelihood._likelihood:Likelihood._gradient', f'{D}._gaussian:Gaussian._gradient', 'cuqi.model._model:Model.gradient',
                      f'{D}._posterior:Posterior._gradient'], rtol=1e-4, timeout=300))
        for noise in ('vector', 'dense_cov', 'dense_prec', 'triangular_sqrtprec', 'lognormal_vector'):
            if q and kind in ('funcs', 'gradient'): continue
            if noise == 'lognormal_vector' and kind != 'matrix' and q: continue
            J.append(Job(f'Likelihood.gradient:chain_rule:{kind}:noise={noise}', lambda c, k=kind, nz=noise: likelihood_chain(c, k, 2, 2, nz), 'Pbox',
                         ['cuqi.likelihood._likelihood:Likelihood._gradient', f'{D}._gaussian:Gaussian._gradient', 'cuqi.model._model:Model.gradient',
                          f'{D}._posterior:Posterior._gradient'], rtol=1e-4, timeout=300))
    for kind in ('Gaussian:cov', 'Gaussian:prec', 'GMRF', 'CMRF', 'Cauchy', 'conditional_GMRF'):
        J.append(Job(f'history:gradient_after_parameter_reassignment:{kind}', lambda c, k=kind: reassignment_history(c, k), 'Pbox', Dg, rtol=1e-4))
    J.append(Job('UserDefinedDistribution.gradient', userdefined, 'Pbox', [f'{D}._custom:UserDefinedDistribution.gradient']))
    for fam in ('Gaussian', 'Lognormal', 'CMRF'):
        J.append(Job(f'Likelihood.gradient:plain_callable_location:{fam}', lambda c, f=fam: callable_parameter_refused(c, f), 'B', [f'{D}._gaussian:Gaussian._gradient', f'{D}._lognormal:Lognormal._gradient', f'{D}._cmrf:CMRF._gradient'], nnum=1))
    for form in ('scalar', 'vector'):
        J.append(Job(f'MHN.gradient:{form}:n=3', lambda c, f=form: mhn_gradient(c, f), 'B', [f'{D}._modifiedhalfnormal:ModifiedHalfNormal._gradient'], nnum=2))
    import re as _re, inspect as _inspect
    from cuqi.distribution import DistributionGallery as _DG
    # every member the constructor knows, read from the source on each run (an earlier hand-written list had left out 'banana')
    _members = sorted(set(_re.findall(r'distribution_name\s*==\s*["\']([^"\']+)["\']', _inspect.getsource(_DG.__init__)))) or ['CalSom91', 'BivariateGaussian', 'funnel', 'mixture', 'squiggle', 'donut', 'banana']
    for member in _members:
        J.append(Job(f'DistributionGallery.gradient:{member}', lambda c, m_=member: gallery(c, m_), 'B', [f'{D}._custom:DistributionGallery.__init__', f'{D}._custom:DistributionGallery._mixture_grad_func'], nnum=3))
    for cfg in ('two_data_likelihoods', 'data_and_user_defined_likelihood', 'user_defined_first', 'three_likelihoods'):
        J.append(Job(f'MultipleLikelihoodPosterior.gradient:sum_over_all_densities:{cfg}', lambda c, cfg=cfg: multiple_likelihood_posterior(c, cfg), 'Pbox',
                     [f'{D}._joint_distribution:MultipleLikelihoodPosterior.gradient', 'cuqi.likelihood._likelihood:UserDefinedLikelihood.gradient'], rtol=1e-4, timeout=300))
    # gradients of the Markov-random-field priors through the difference operators, every boundary condition (contracts live with C20)
    from contracts import C18 as _c18
    J += [j for j in _c18.jobs(tier) if j.id.startswith('PDEModel')]          # gradient dispatch of PDE-based models through the PDE's Jacobian / gradient hook (contracts live with C18)
    from contracts import C20 as _c20
    J += [j for j in _c20.jobs(tier) if '.gradient:' in j.id]
    return J
