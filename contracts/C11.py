"""C11 — conditioning, evaluating and sampling never alter the objects they start from.

Modular form: every public operation satisfies a FRAME condition (the behavioural snapshot of the receiver and of every
object it was derived from is unchanged), hence every interleaving does (induction over the history)."""
import numpy as np
import z3
from pvc.runner import Job
from pvc import core, shims, frame
import cuqi
from cuqi.distribution import Gaussian, Lognormal, GMRF, Gamma, JointDistribution, Posterior
from cuqi.implicitprior import RegularizedGaussian
from cuqi.model import LinearModel

EXPLANATION = ("frame condition per public operation (condition, logd, logpdf, gradient, sample, to_likelihood, parameter-name queries, geometry/dim, enable_FD, "
               "further conditioning of a derived copy, model application): the snapshot of all attributes reachable from the original (arrays by content and identity, "
               "minus declared lazy caches) is unchanged and the original still evaluates to the same term; derived copies keep the name; re-conditioning leaves the joint unchanged.")
ASSUMPTIONS = ["declared lazy caches (excluded from the snapshot): _mutable_vars, _fun_shape, _funvec_shape, _ids, _variables, inferred _name",
               "frame conditions per operation imply the history property by induction over the sequence of operations (lemma L-frame, argued)",
               "sampler runs on a conditioned copy are exercised natively only (numeric twin, level B)"]
EXC = ('_name',)


def builders(c, which, n=2):
    """-> (object, conditioning kwargs (or None), probe(obj) -> observable term or None)"""
    A = c.mat('A', n, n)
    m, v = c.vec('m', n), c.vec('v', n, pos=True)
    xp = c.vec('xp', n); yobs = c.vec('yobs', n)
    if which == 'Gaussian': return (Gaussian(m, v, name='x'), None, lambda o: o.logd(xp))
    if which == 'Gaussian:conditional':
        return (Gaussian(lambda mu: mu, lambda s: s * np.ones(n), geometry=n, name='x'), dict(mu=c.vec('mu', n), s=c.real('s', pos=True)), None)
    if which == 'Gaussian:partial3':
        # callable parameter with three free arguments, conditioned in stages: a first, then b, c still free
        STAGE2[which] = dict(b=c.vec('b', n))
        return (Gaussian(lambda a, b, t: a + 2 * b + t, v, name='x'), dict(a=c.vec('a', n)), None)
    if which == 'Gaussian:partial': return (Gaussian(lambda mu, t: mu + t, v, name='x'), dict(mu=c.vec('mu', n)), None)
    if which == 'Lognormal': return (Lognormal(m, v, name='x'), None, None)
    if which == 'RegularizedGaussian':
        return (RegularizedGaussian(m, lambda s: s * np.ones(n), constraint='nonnegativity', geometry=n, name='x'), dict(s=c.real('s', pos=True)), None)
    if which == 'GMRF:conditional': return (GMRF(np.zeros(3), lambda d: d, geometry=cuqi.geometry.Continuous1D(3), name='x'), dict(d=c.real('d', pos=True)), None)
    if which == 'Gamma:conditional': return (Gamma(c.real('sh', pos=True), lambda r: r, name='g'), dict(r=c.real('r', pos=True)), None)
    if which in ('DataDistribution', 'Likelihood'):
        data_dist = Gaussian(LinearModel(A), lambda s: s * np.ones(n), geometry=n, name='y')
        if which == 'DataDistribution': return (data_dist, dict(s=c.real('s', pos=True)), None)
        return (data_dist.to_likelihood(yobs), dict(s=c.real('s', pos=True)), None)
    if which == 'Posterior':
        L1 = Gaussian(LinearModel(A), v, name='y').to_likelihood(yobs)
        return (Posterior(L1, Gaussian(m, v, name='x')), None, lambda o: o.logd(xp))
    if which == 'Joint':
        d = Gamma(c.real('a0', pos=True), c.real('b0', pos=True), name='d')
        x = Gaussian(np.zeros(n), lambda d: 1 / d * np.ones(n), geometry=n, name='x')
        y = Gaussian(LinearModel(A), v, name='y')
        dv = c.real('dv', pos=True)
        return (JointDistribution(d, x, y), dict(y=yobs), lambda o: o.logd(d=dv, x=xp, y=yobs))
    if which == 'Joint:reduced_factor':
        # one factor is itself the result of an earlier reduction (it carries the folded constants of the variables fixed then)
        d = Gamma(c.real('a0', pos=True), c.real('b0', pos=True), name='d')
        x = Gaussian(np.zeros(n), lambda d: 1 / d * np.ones(n), geometry=n, name='x')
        y = Gaussian(lambda x: x, v, geometry=n, name='y')
        D = JointDistribution(d, x, y)(d=c.real('dv', pos=True), x=xp)           # a single density for y with a constant
        w = Gaussian(c.real('wm'), c.real('wv', pos=True), name='w')
        wv = c.real('wval'); yp = c.vec('yp', n)
        return (JointDistribution(D, w), dict(w=wv), lambda o: o.logd(y=yp, w=wv))
    if which == 'Joint:independent_factor':
        a = Gaussian(m, v, name='a'); b = Gamma(c.real('a0', pos=True), c.real('b0', pos=True), name='b')
        x = Gaussian(np.zeros(n), lambda b: 1 / b * np.ones(n), geometry=n, name='x')
        bv = c.real('bv', pos=True); ap = c.vec('ap', n)
        return (JointDistribution(a, b, x), dict(b=bv, x=xp), lambda o: o.logd(a=ap, b=bv, x=xp))
    raise ValueError(which)


def _observables(o):
    obs = {}
    for nm in ('name', 'dim'):
        try: obs[nm] = getattr(o, nm)
        except Exception as e: obs[nm] = ('raises', type(e).__name__)
    for nm in ('get_parameter_names', 'get_conditioning_variables'):
        if hasattr(o, nm):
            try: obs[nm] = tuple(getattr(o, nm)())
            except Exception as e: obs[nm] = ('raises', type(e).__name__)
    return obs


STAGE2 = {}


def frame_job(c, which):
    STAGE2.clear()
    obj, cond, probe = builders(c, which)
    if c.sym and which.startswith('GMRF'): shims.symbolize_operators(obj)      # shared (by shallow copy) with every derived object
    obs0 = _observables(obj)              # queries that may fill declared lazy caches
    try: _ = obj.geometry
    except Exception: pass
    S0 = frame.snapshot(obj, EXC)
    p0 = probe(obj) if probe else None
    step = [0]
    def unchanged(tag):
        step[0] += 1
        S = frame.snapshot(obj, EXC)
        c.holds(f'after_{tag}:original_snapshot_unchanged', frame.same(S0, S), note='; '.join(frame.diff(S0, S)))
        c.holds(f'after_{tag}:original_queries_unchanged', _observables(obj) == obs0, note=f"{_observables(obj)} vs {obs0}")
        if probe:
            c.eq(f'after_{tag}:original_evaluates_to_the_same_value', probe(obj), p0)
    n = obj.dim if isinstance(obj.dim, int) else None
    # --- read-only operations on the original
    for q in ('get_parameter_names', 'get_conditioning_variables'):
        if hasattr(obj, q): getattr(obj, q)(); unchanged(q)
    _ = obj.geometry; unchanged('geometry')
    if probe: probe(obj); unchanged('logd')
    derived = []
    if cond is not None:
        d1 = obj(**cond); unchanged('condition')
        c.holds('conditioned_copy_is_a_new_object', d1 is not obj)
        c.holds('conditioned_copy_keeps_the_name', getattr(d1, 'name', None) == obs0['name'] or which.startswith('Joint'), note=f"{getattr(d1, 'name', None)} vs {obs0['name']}")
        d2 = obj(**cond); unchanged('second_condition')
        derived = [d1, d2]
    else:
        derived = [obj]
    # --- operations on the derived (or, for unconditional objects, the same) object
    for k, dobj in enumerate(derived):
        is_dist = isinstance(dobj, cuqi.distribution.Distribution) and not isinstance(dobj, (JointDistribution,))
        xs = None
        if isinstance(dobj.dim, (int, np.integer)):
            xs = c.vec(f'x{k}', int(dobj.dim), pos=(which.startswith('Gamma') or which == 'Lognormal'))
        still_cond = is_dist and dobj.is_cond or (isinstance(dobj, cuqi.likelihood.Likelihood) and len(dobj.get_parameter_names()) > 1)
        if xs is not None and not isinstance(dobj, JointDistribution) and which != 'RegularizedGaussian' and not still_cond:
            c.no_raise(f'derived[{k}]_logd', lambda: dobj.logd(xs)); unchanged(f'derived[{k}].logd')
            try: dobj.gradient(xs)
            except Exception: pass
            unchanged(f'derived[{k}].gradient')
        if is_dist and not dobj.is_cond and which not in ('RegularizedGaussian', 'Posterior') and not (c.sym and which.startswith('GMRF')):
            try: dobj.sample(); dobj.sample(2)
            except NotImplementedError: pass
            unchanged(f'derived[{k}].sample')
            # a draw with the caller's own generator (by keyword and by position) leaves nothing behind either - in particular no reference to that generator
            if not c.sym:
                try: dobj.sample(rng=np.random.RandomState(3)); dobj.sample(2, np.random.RandomState(4))
                except NotImplementedError: pass
                unchanged(f'derived[{k}].sample_with_a_given_generator')
                ga = np.random.RandomState(5); st0 = ga.get_state()[1].copy()
                try:
                    dobj.sample(rng=ga); st1 = ga.get_state()[1].copy()
                    np.random.seed(11); v1 = np.asarray(dobj.sample(), dtype=float)
                    c.holds(f'derived[{k}]:a_later_draw_without_generator_does_not_advance_the_generator_given_earlier', bool(np.array_equal(st1, ga.get_state()[1])))
                    np.random.seed(11); fresh = np.asarray(obj(**cond).sample() if cond is not None else dobj.sample(), dtype=float)
                    c.eq(f'derived[{k}]:a_later_seeded_draw_is_the_draw_of_an_untouched_copy', v1, fresh, tol=0)
                except NotImplementedError: pass
        if is_dist and xs is not None and which not in ('RegularizedGaussian', 'Posterior'):
            try: dobj.to_likelihood(xs) if dobj.is_cond else dobj(xs)
            except Exception: pass
            unchanged(f'derived[{k}].to_likelihood')
        if hasattr(dobj, 'enable_FD') and dobj is not obj:
            dobj.enable_FD(1e-6); unchanged(f'derived[{k}].enable_FD')
            if hasattr(obj, 'FD_enabled'): c.holds(f'derived[{k}].enable_FD_does_not_leak_to_original', not obj.FD_enabled)
    # --- REFUSED calls (unknown keyword; evaluation without its variables) on the original and on a copy leave everything unchanged and usable
    obs_sibling = _observables(derived[1]) if cond is not None else None
    for tname, tgt in [('original', obj)] + ([('derived[0]', derived[0])] if cond is not None else []):
        for opname, op in (('conditioning_on_an_unknown_keyword', lambda t=tgt: t(zz_unknown_keyword=1.0)), ('evaluation_with_an_unknown_keyword', lambda t=tgt: t.logd(zz_unknown_keyword=1.0))):
            try: op()
            except Exception: pass
            unchanged(f'refused_{opname}_on_{tname}')
    if cond is not None:
        c.holds('copies_made_earlier_answer_queries_as_before_the_refused_calls', _observables(derived[1]) == obs_sibling, note=f"{_observables(derived[1])} vs {obs_sibling}")
    if which in STAGE2 and len(derived) == 2:
        # staged conditioning: the intermediate object and its sibling stay what they were when a further variable is fixed
        Si, Ss = frame.snapshot(derived[0], EXC), frame.snapshot(derived[1], EXC)
        cv0 = tuple(derived[0].get_conditioning_variables())
        further = derived[0](**STAGE2[which]); unchanged('staged_condition')
        c.holds('staged:intermediate_snapshot_unchanged', frame.same(Si, frame.snapshot(derived[0], EXC)), note='; '.join(frame.diff(Si, frame.snapshot(derived[0], EXC))))
        c.holds('staged:intermediate_keeps_its_conditioning_variables', tuple(derived[0].get_conditioning_variables()) == cv0, note=f"{derived[0].get_conditioning_variables()} vs {cv0}")
        c.holds('staged:sibling_unchanged', frame.same(Ss, frame.snapshot(derived[1], EXC)), note='; '.join(frame.diff(Ss, frame.snapshot(derived[1], EXC))))
        c.holds('staged:result_has_one_variable_less', set(further.get_conditioning_variables()) == set(cv0) - set(STAGE2[which]), note=str(further.get_conditioning_variables()))
        # fixing the last variable in either order gives the same distribution value
        t = c.vec('t', derived[0].dim); xx = c.vec('xx', derived[0].dim)
        full1 = further(t=t); full2 = derived[1](t=t)(**STAGE2[which])
        c.eq('staged:order_of_conditioning_does_not_matter', full1.logd(xx), full2.logd(xx))
        c.eq('staged:value_is_that_of_the_fully_specified_distribution', full1.logd(xx), Gaussian(cond['a'] + 2 * STAGE2[which]['b'] + t, full1.cov).logd(xx))
    if len(derived) == 2:
        # objects derived from a common original do not influence one another
        Sd = frame.snapshot(derived[1], EXC)
        derived[0].enable_FD(1e-3) if hasattr(derived[0], 'enable_FD') else None
        try: derived[0].geometry
        except Exception: pass
        Sd2 = frame.snapshot(derived[1], EXC)
        c.holds('sibling_copy_unaffected_by_operations_on_the_other', frame.same(Sd, Sd2), note='; '.join(frame.diff(Sd, Sd2)))


def siblings(c, fam, n=2):
    """two objects derived from one original by conditioning on values that coincide in some entries and differ in others: each keeps
    evaluating (log-density, gradient, draws' law) like a distribution constructed directly with ITS values, whatever was used last"""
    a = c.vec('a', n); b = a.copy(); b[0] = c.real('b0')                       # differs in the first entry only
    v = c.vec('v', n, pos=True); x = c.vec('x', n, pos=(fam == 'Lognormal'))
    if fam == 'Lognormal':
        orig = Lognormal(lambda mu: mu, v, name='x'); direct = lambda mu: Lognormal(mu, v)
    elif fam == 'Gaussian':
        orig = Gaussian(lambda mu: mu, v, geometry=n, name='x'); direct = lambda mu: Gaussian(mu, v)
    elif fam == 'Lognormal:model':
        A = c.mat('A', n, n); orig = Lognormal(LinearModel(A), v, name='y'); direct = lambda mu: Lognormal(A @ mu, v)
    kw = (lambda val: {'mu': val}) if fam != 'Lognormal:model' else (lambda val: {'x': val})
    if fam == 'Lognormal:model': x = c.vec('x', n, pos=True)
    d1 = orig(**kw(a)); d2 = orig(**kw(b))
    r2 = d2.logd(x); r1 = d1.logd(x)                                              # d2 used first, then d1
    c.eq('first_sibling_evaluates_with_its_own_values_after_the_other_was_used', r1, direct(a).logd(x))
    c.eq('second_sibling_evaluates_with_its_own_values', r2, direct(b).logd(x))
    c.eq('second_sibling_again_after_the_first_was_used', d2.logd(x), direct(b).logd(x))
    d3 = orig(**kw(a))
    c.eq('original_conditioned_again_gives_the_same_distribution', d3.logd(x), direct(a).logd(x))
    try: g1 = d1.gradient(x)
    except Exception: g1 = None
    if g1 is not None: c.eq('first_sibling_gradient_with_its_own_values', g1, direct(a).gradient(x))


def size_unknown(c):
    """a distribution whose dimension is only known once it is conditioned (all size-carrying parameters are callables, no geometry):
    conditioning it on values of one length must not fix the size of the original or of copies conditioned on other lengths"""
    from cuqi.distribution import Normal
    orig = Normal(mean=lambda m: m, std=lambda s: s, name='x')
    def dim_query(o):
        try: return ('dim', o.dim)
        except Exception as e: return ('raises', type(e).__name__)
    q0 = dim_query(orig)
    a3 = c.vec('a', 3); a2 = c.vec('b', 2); sd = c.real('sd', pos=True)
    d3 = orig(m=a3, s=sd)
    c.holds('first_copy_has_the_length_of_its_values', dim_query(d3) == ('dim', 3), note=str(dim_query(d3)))
    _ = d3.geometry
    c.holds('original_dimension_query_unchanged', dim_query(orig) == q0, note=f"{dim_query(orig)} vs {q0}")
    d2 = orig(m=a2, s=sd)
    c.holds('second_copy_has_the_length_of_its_own_values', dim_query(d2) == ('dim', 2), note=str(dim_query(d2)))
    x2 = c.vec('x2', 2); x3 = c.vec('x3', 3)
    c.eq('second_copy_is_the_distribution_of_its_values', d2.logd(x2), Normal(a2, sd).logd(x2))
    c.eq('first_copy_still_the_distribution_of_its_values', d3.logd(x3), Normal(a3, sd).logd(x3))
    d1 = orig(m=c.real('a1'), s=sd)
    c.holds('scalar_copy_has_dimension_one', dim_query(d1) == ('dim', 1), note=str(dim_query(d1)))
    c.holds('original_dimension_query_unchanged_at_the_end', dim_query(orig) == q0, note=f"{dim_query(orig)} vs {q0}")


def problem_sample_prior(c):
    """BayesianProblem.sample_prior for a prior without a direct sampler (falls back to MCMC on a problem with a constant likelihood):
    the ORIGINAL problem keeps its likelihood, model, data and posterior (bounded stand-in: native run of the real samplers)"""
    from cuqi.problem import BayesianProblem
    from cuqi.distribution import LMRF
    rng = np.random.default_rng(int(c.real('seed', lo=0, hi=10 ** 6)))
    n = 4; A = rng.standard_normal((n, n)); data = rng.standard_normal(n)
    x = LMRF(0, 0.5, geometry=n, name='x'); y = Gaussian(LinearModel(A), 0.3, name='y')
    BP = BayesianProblem(y, x).set_data(y=data)
    lik0 = BP.likelihood; post0 = BP.posterior; xp = rng.standard_normal(n)
    v0 = float(np.ravel(BP.posterior.logd(xp))[0]); l0 = float(np.ravel(BP.likelihood.logd(xp))[0])
    import io, contextlib
    np.random.seed(3)
    with contextlib.redirect_stdout(io.StringIO()), contextlib.redirect_stderr(io.StringIO()):
        S = BP.sample_prior(6)
    c.holds('prior_samples_returned', S.samples.shape[0] == n)
    c.holds('original_problem_keeps_its_likelihood_object', BP.likelihood is lik0)
    c.holds('original_problem_keeps_its_data', np.array_equal(np.asarray(BP.data, dtype=float), data))
    c.eq('original_likelihood_evaluates_as_before', float(np.ravel(BP.likelihood.logd(xp))[0]), l0, tol=1e-12)
    c.eq('original_posterior_evaluates_as_before', float(np.ravel(BP.posterior.logd(xp))[0]), v0, tol=1e-12)


def model_application(c, n=2):
    A = c.mat('A', n, n); model = LinearModel(A)
    x = Gaussian(c.vec('m', n), c.vec('v', n, pos=True), name='z')
    Sm, Sx = frame.snapshot(model), frame.snapshot(x, EXC)
    m2 = model(x)
    c.holds('model_unchanged_by_application_to_distribution', frame.same(Sm, frame.snapshot(model)), note='; '.join(frame.diff(Sm, frame.snapshot(model))))
    c.holds('distribution_unchanged_by_model_application', frame.same(Sx, frame.snapshot(x, EXC)))
    y = Gaussian(m2, c.vec('w', n, pos=True), name='y')
    J = JointDistribution(x, y)
    SJ = frame.snapshot(J, EXC)
    yobs = c.vec('yo', n); xp = c.vec('xp', n)
    ref = J.logd(z=xp, y=yobs)
    for k in range(3):
        P = J(y=yobs)
        c.eq(f'reconditioning[{k}]:posterior_value', P.logd(xp), ref)
        c.holds(f'reconditioning[{k}]:joint_snapshot_unchanged', frame.same(SJ, frame.snapshot(J, EXC)), note='; '.join(frame.diff(SJ, frame.snapshot(J, EXC))))
    c.holds('model_still_unchanged', frame.same(Sm, frame.snapshot(model)))


def shared_geometry(c, n=2):
    """two distributions sharing one geometry object do not influence one another through it"""
    g = cuqi.geometry.Continuous1D(n)
    a = Gaussian(np.zeros(n), 1.0, geometry=g, name='a'); b = Gaussian(np.zeros(n), 2.0, geometry=g, name='b')
    ga = a.geometry                      # the geometry as handed out for a
    _ = b.geometry                       # merely reading b's geometry
    c.holds('reading_b_geometry_does_not_change_what_a_geometry_exposes', list(ga.variables) == ['a0', 'a1'][:n],
            note=f"a's geometry now names its variables {list(ga.variables)} (variable name {getattr(ga, '_variable_name', None)})")


def gibbs_reconditioning(c, reps=1000):
    """thousands of re-conditionings as performed by Gibbs sampling (native only): no constant accumulates"""
    n = 3
    A = np.eye(n); yobs = np.ones(n)
    d = Gamma(1.0, 1e-2, name='d'); s = Gamma(1.0, 1e-2, name='s')
    x = Gaussian(np.zeros(n), lambda d: 1 / d, name='x'); y = Gaussian(LinearModel(A), lambda s: 1 / s, name='y')
    J = JointDistribution(d, s, x, y)(y=yobs)
    xp = np.array([c.real(f'x{i}') for i in range(n)]); dv = c.real('dv', pos=True); sv = c.real('sv', pos=True)
    ref = J.logd(d=dv, s=sv, x=xp)
    first = J(d=dv, s=sv).logd(xp)
    for k in range(reps):
        P = J(d=dv, s=sv); Q = J(x=xp, s=sv); R = J(x=xp, d=dv)
    c.eq('posterior_in_x_after_many_reconditionings', P.logd(xp), first)
    c.eq('joint_value_after_many_reconditionings', J.logd(d=dv, s=sv, x=xp), ref)
    c.eq('conditional_in_d', Q.logd(dv), ref); c.eq('conditional_in_s', R.logd(sv), ref)
    # a sampler run on a conditioned copy leaves the joint unchanged
    np.random.seed(0)
    cuqi.experimental.mcmc.MH(J(d=dv, s=sv), scale=0.1).sample(5)
    c.eq('joint_value_after_sampler_run_on_copy', J.logd(d=dv, s=sv, x=xp), ref)


def sampling_leaves_matrix_parameters_intact(c, layout):
    """a Gaussian whose square-root precision / covariance is a full dense matrix in C or Fortran memory order (a transposed view, an eigen-factor): drawing
    samples from it, from a conditioned copy or through the joint leaves the stored matrix, the user's array and every later evaluation unchanged
    (bounded stand-in: native - library routines that may overwrite their operands only do so for particular memory layouts)"""
    n = 3
    G = np.array([[c.real(f'g{i}{j}') for j in range(n)] for i in range(n)]) + 2 * np.eye(n)          # full, neither triangular nor symmetric
    R = {'C': np.ascontiguousarray(G), 'F': np.asfortranarray(G), 'transposed_view': np.ascontiguousarray(G.T).T}[layout]
    R0 = R.copy()
    m = np.array([c.real(f'm{i}') for i in range(n)]); xv = np.array([c.real(f'x{i}') for i in range(n)])
    for param in ('sqrtprec', 'sqrtcov'):
        d = Gaussian(m, **{param: R}, name='x')
        y = Gaussian(lambda x: x, 0.5, geometry=n, name='y'); J = JointDistribution(d, y)
        S0 = frame.snapshot(d, EXC); l0 = d.logd(xv); j0 = J.logd(x=xv, y=xv + 1)
        np.random.seed(1)
        d.sample(); d.sample(4); J(y=xv + 1).prior.sample(2) if hasattr(J(y=xv + 1), 'prior') else None
        c.holds(f'{param}:stored_parameters_unchanged_by_sampling', frame.same(S0, frame.snapshot(d, EXC)), note='; '.join(frame.diff(S0, frame.snapshot(d, EXC))))
        c.eq(f'{param}:users_array_unchanged', R, R0, tol=0)
        c.eq(f'{param}:log_density_unchanged', d.logd(xv), l0, tol=1e-12)
        c.eq(f'{param}:joint_log_density_unchanged', J.logd(x=xv, y=xv + 1), j0, tol=1e-12)


def lazily_named(c):
    """distributions WITHOUT an explicit name (the library default: the random variable is named after the Python variable the original is bound to, found
    lazily on first use): every object derived from the original by conditioning - including the constant left when nothing remains to condition on -
    carries the original's name, whatever was (or was not) done to the original before; bounded stand-in (native)"""
    from cuqi.density import EvaluatedDensity
    n = 2
    v = np.array([c.real('v0'), c.real('v1')]); sv = 1.0 + abs(c.real('s'))
    # (a) directly, on a fresh original whose name was never looked up
    x = Gaussian(np.zeros(n), cov=lambda s: s)
    fixed = x(s=sv, x=v)
    c.holds('direct:fully_conditioned_object_is_a_constant_density', isinstance(fixed, EvaluatedDensity), note=type(fixed).__name__)
    c.holds('direct:constant_keeps_the_name_of_its_original', fixed.name == 'x', note=str(fixed.name))
    c.holds('direct:original_keeps_its_name', x.name == 'x', note=str(x.name))
    # (b) the same call with and without an unrelated earlier name lookup
    a = Gaussian(np.zeros(n), cov=lambda s: s); b = Gaussian(np.zeros(n), cov=lambda s: s)
    _ = b.name
    fa = a(s=sv, a=v); fb = b(s=sv, b=v)
    c.holds('history:name_of_the_constant_does_not_depend_on_an_earlier_lookup', (fa.name, fb.name) == ('a', 'b'), note=f"{fa.name} {fb.name}")
    c.eq('history:value_of_the_constant_does_not_depend_on_an_earlier_lookup', fa.logd(), fb.logd())
    # (c) staged: hyper-parameter first, the original used in a joint afterwards, the copy evaluated last
    hyp = Gamma(2.0, 3.0); z = Gaussian(np.zeros(n), cov=lambda hyp: hyp)
    z_h = z(hyp=sv)
    J = JointDistribution(hyp, z)
    c.holds('staged:joint_built_from_the_originals_names_them', J.get_parameter_names() == ['hyp', 'z'], note=str(J.get_parameter_names()))
    const = z_h(z=v)
    c.holds('staged:conditioned_copy_keeps_the_name', z_h.name == 'z', note=str(z_h.name))
    c.holds('staged:constant_derived_from_the_copy_keeps_the_name', const.name == 'z', note=str(const.name))
    # (e) sampling is not a name look-up: a helper builds the data distribution under one variable name, draws synthetic data from a conditioned copy
    # (one draw and several) and hands the distribution back to a caller who binds it to ANOTHER name - the name is the caller's
    def make_data_distribution():
        data_dist = Gaussian(lambda q: q, 0.25, geometry=n)
        _one = data_dist(q=v).sample(); _many = data_dist(q=v).sample(5)
        return data_dist
    y = make_data_distribution()
    c.holds('sampling_a_conditioned_copy_does_not_fix_the_originals_name', y.name == 'y', note=str(y.name))
    yy = Gaussian(np.zeros(n), 1.0)
    def draw_from(dist): return dist.sample(4)
    _ = draw_from(yy)
    c.holds('sampling_the_original_elsewhere_does_not_fix_its_name', yy.name == 'yy', note=str(yy.name))
    # (d) through a likelihood
    w = Gaussian(np.zeros(n), cov=lambda t: t)
    Lw = w.to_likelihood(v)
    cw = Lw(t=sv)
    c.holds('likelihood:constant_left_by_a_fully_conditioned_likelihood_keeps_the_name', getattr(cw, 'name', None) == 'w', note=str(getattr(cw, 'name', None)))


def conditioning_after_evaluation(c):
    """a model whose domain geometry and a prior whose geometry are two equally configured objects: conditioning the joint on data gives the same kind of object,
    evaluating to the same values, before and after a draw of the prior has been pushed through the model (evaluation only)"""
    n = 3
    G1 = cuqi.geometry.Continuous1D(n); G2 = cuqi.geometry.Continuous1D(n)
    A = LinearModel(2 * np.eye(n), domain_geometry=G1, range_geometry=n)
    x = Gaussian(np.zeros(n), 1.0, geometry=G2, name='x'); y = Gaussian(A(x), 1.0, name='y')
    J = JointDistribution(y, x)
    d = np.array([c.real(f'd{i}') for i in range(n)]); xv = np.array([c.real(f'x{i}') for i in range(n)])
    P0 = J(y=d); v0 = P0.logd(xv)
    np.random.seed(0); A(x.sample())                          # evaluation only
    try: P1 = J(y=d)
    except Exception as e:
        c.fail('conditioning_still_works_after_a_model_evaluation', note=f"{type(e).__name__}: {e}"); return
    c.holds('conditioning_gives_the_same_kind_of_object', type(P1) is type(P0))
    c.eq('and_the_same_values', P1.logd(xv), v0, tol=1e-12)


def gibbs_samplers_frame(c, iface):
    """running a Gibbs sampler (which conditions the joint over and over and hands values between blocks) on a hierarchical model: the distributions the
    model was built from - including the start points attached to the priors - evaluate as before, and chains already returned are not rewritten when the
    same sampler continues (bounded stand-in: native)"""
    import io, contextlib, copy as _copy
    n = 3
    A = np.eye(n); yobs = np.array([c.real(f'y{i}') for i in range(n)])
    d = Gamma(1.0, 1e-2, name='d'); x = Gaussian(np.zeros(n), lambda d: 1 / d, name='x'); y = Gaussian(LinearModel(A), 0.5, name='y')
    d0 = np.array([2.5]); x0 = np.array([0.3, -0.2, 0.1])
    d.init_point = d0; x.init_point = x0                                   # (the way to choose the start of a legacy Gibbs chain)
    J = JointDistribution(d, x, y)(y=yobs)
    S0 = (frame.snapshot(d, EXC), frame.snapshot(x, EXC), frame.snapshot(y, EXC))
    xp = np.array([c.real(f'x{i}') for i in range(n)]); dv = c.real('dv', pos=True)
    ref = J.logd(d=dv, x=xp)
    np.random.seed(int(c.real('seed', lo=0, hi=10 ** 6)))
    with contextlib.redirect_stdout(io.StringIO()), contextlib.redirect_stderr(io.StringIO()):
        if iface == 'legacy':
            G = cuqi.sampler.Gibbs(J, {'d': cuqi.sampler.Conjugate, 'x': cuqi.sampler.LinearRTO})
            first = G.sample(3)
            kept = {k: np.array(v.samples, dtype=float).copy() for k, v in first.items()}
            G.sample(2)
            for k in kept: c.eq(f'chain_of_{k}_returned_earlier_is_not_rewritten_by_continuing', np.asarray(first[k].samples, dtype=float), kept[k], tol=0)
        else:
            # the block of x starts at an array that belongs to the model (the prior's own mean array) - the documented way to start a chain at a chosen
            # point is initial_point=<array>; the sampler may read that array, never write to it
            xmean = x.mean; xmean_before = np.array(xmean, dtype=float).copy()
            G = cuqi.experimental.mcmc.HybridGibbs(J, {'d': cuqi.experimental.mcmc.Conjugate(), 'x': cuqi.experimental.mcmc.LinearRTO(initial_point=xmean)})
            G.warmup(2); G.sample(3)
            kept_target = G.samplers['d'].target; kept_value = float(np.ravel(kept_target.logd(np.array([1.7])))[0])
            G.sample(2)
            c.eq('starting_array_taken_from_the_model_is_not_written_to', np.asarray(x.mean, dtype=float), xmean_before, tol=0)
            c.eq('a_conditional_target_handed_out_earlier_keeps_its_value', float(np.ravel(kept_target.logd(np.array([1.7])))[0]), kept_value, tol=0)
            first = G.get_samples(); kept = {k: np.array(v.samples, dtype=float).copy() for k, v in first.items()}
            G.sample(2)
            for k in kept: c.eq(f'chain_of_{k}_returned_earlier_is_not_rewritten_by_continuing', np.asarray(first[k].samples, dtype=float), kept[k], tol=0)
    S1 = (frame.snapshot(d, EXC), frame.snapshot(x, EXC), frame.snapshot(y, EXC))
    c.holds('original_distributions_unchanged_by_the_run', frame.same(S0, S1), note='; '.join(frame.diff(S0, S1)))
    c.eq('start_points_attached_to_the_priors_unchanged', np.concatenate([np.ravel(d.init_point), np.ravel(x.init_point)]), np.concatenate([[2.5], [0.3, -0.2, 0.1]]), tol=0)
    c.holds('start_point_arrays_are_still_the_users_arrays', d.init_point is d0 and x.init_point is x0)
    c.eq('joint_evaluates_as_before', J.logd(d=dv, x=xp), ref)


def jobs(tier):
    J = []
    FL = ['cuqi.density._density:Density._make_copy', 'cuqi.distribution._distribution:Distribution._condition', 'cuqi.distribution._distribution:Distribution.logd',
          'cuqi.distribution._distribution:Distribution.to_likelihood', 'cuqi.distribution._distribution:Distribution.geometry',
          'cuqi.distribution._joint_distribution:JointDistribution._condition', 'cuqi.likelihood._likelihood:Likelihood._condition',
          'cuqi.implicitprior._regularizedGaussian:RegularizedGaussian._condition', 'cuqi.model._model:Model.forward']
    for which in ('Gaussian', 'Gaussian:conditional', 'Gaussian:partial', 'Gaussian:partial3', 'Lognormal', 'RegularizedGaussian', 'GMRF:conditional', 'Gamma:conditional',
                  'DataDistribution', 'Likelihood', 'Posterior', 'Joint', 'Joint:independent_factor', 'Joint:reduced_factor'):
        J.append(Job(f'frame:{which}', lambda c, w=which: frame_job(c, w), 'Pbox', FL, maxpaths=256, timeout=600))
    for fam in ('Gaussian', 'Lognormal', 'Lognormal:model'):
        J.append(Job(f'siblings:partially_coinciding_values:{fam}', lambda c, f=fam: siblings(c, f), 'Pbox', FL + ['cuqi.distribution._lognormal:Lognormal._normal'], maxpaths=512, timeout=600, rtol=1e-6))
    J.append(Job('siblings:size_known_only_after_conditioning', size_unknown, 'Pbox', FL + ['cuqi.distribution._distribution:Distribution.dim'], rtol=1e-6))
    J.append(Job('frame:BayesianProblem.sample_prior_leaves_the_problem_unchanged', problem_sample_prior, 'B', ['cuqi.problem._problem:BayesianProblem.sample_prior'], nnum=1))
    J.append(Job('frame:model_application_and_reconditioning', model_application, 'Pbox', FL))
    J.append(Job('frame:shared_geometry_object', shared_geometry, 'Pbox', ['cuqi.distribution._distribution:Distribution.geometry']))
    J.append(Job('names:lazily_named_originals_and_their_fully_conditioned_copies', lazily_named, 'B', ['cuqi.distribution._distribution:Distribution.to_likelihood', 'cuqi.density._density:Density.name', 'cuqi.distribution._distribution:Distribution._condition'], nnum=2))
    J.append(Job('history:conditioning_after_a_model_was_evaluated_on_a_draw', conditioning_after_evaluation, 'B', ['cuqi.distribution._distribution:Distribution.geometry', 'cuqi.geometry._geometry:Geometry._all_values_equal'], nnum=1))
    for layout in ('C', 'F', 'transposed_view'):
        J.append(Job(f'frame:Gaussian.sample:full_dense_matrix_parameter:memory_layout={layout}', lambda c, l=layout: sampling_leaves_matrix_parameters_intact(c, l), 'B', ['cuqi.distribution._gaussian:Gaussian._sample'], nnum=2))
    for iface in ('legacy', 'experimental'):
        J.append(Job(f'frame:{iface}_Gibbs_run_leaves_the_model_and_returned_chains_unchanged', lambda c, i=iface: gibbs_samplers_frame(c, i), 'B',
                     ['cuqi.sampler._gibbs:Gibbs.step', 'cuqi.sampler._gibbs:Gibbs._get_initial_points'] if iface == 'legacy' else ['cuqi.experimental.mcmc._gibbs:HybridGibbs.step'], nnum=2))
    J.append(Job('history:thousand_reconditionings_and_sampler_run', lambda c: gibbs_reconditioning(c, 300 if tier == 'quick' else 3000), 'B', FL, nnum=2))
    return J
