#!/bin/bash
# Builds /verif/.venv offline: python 3.12 venv overlaying /venv's site-packages (numpy/scipy/cuqi deps)
# plus z3-solver / cvc5 / hypothesis / icontract from the offline wheelhouse. Idempotent.
set -e
cd "$(dirname "$0")"
if [ -x .venv/bin/python ] && .venv/bin/python -c "import z3, numpy, scipy" 2>/dev/null; then exit 0; fi
rm -rf .venv
/venv/bin/python -m venv .venv
PIP_NO_INDEX=1 .venv/bin/pip install -q --no-index --find-links /opt/veriftools/wheels z3-solver cvc5 hypothesis icontract jsonschema >/dev/null
echo "import site; site.addsitedir('/venv/lib/python3.12/site-packages')" > .venv/lib/python3.12/site-packages/_venv_overlay.pth
.venv/bin/python -c "import z3, cvc5, numpy, scipy; print('bootstrap ok', z3.get_version_string(), numpy.__version__, scipy.__version__)"
